"""record_fix.py <property> <commit> <signature-json> <what> <design-row-text> : append a `fixed` entry to known_findings.json and
a row to the defect table of DESIGN.md (section 12)."""
import json
import sys
prop, commit, sig, what, row = sys.argv[1:6]
p = '/verif/known_findings.json'
k = json.load(open(p))
k.append({"property": prop.split('/')[0], "status": "fixed", "commit": commit,
          "what": "fixed: property=%s %s %s" % (prop.split('/')[0], commit, what), "signature": json.loads(sig)})
json.dump(k, open(p, 'w'), indent=1)
p = '/verif/DESIGN.md'
s = open(p).read()
anchor = "| C01 | every snapshot draws its id from the application's module-level `random` generator"
i = s.index(anchor)
s = s[:i] + "| %s | %s | %s |\n" % (prop, row, commit) + s[i:]
open(p, 'w').write(s)

import json, os, re
NOTE = {
 'C01-m1': ('`return self.__trace_call` instead of `self.trace_call`: the event after a hit bypasses the outer guard', 'fault injection (line after a hit is handled by the unguarded inner function: escape)', ''),
 'C01-m2': ('trigger lock held while the action (str() of locals, expressions) runs', 'lock-probe leg: the agent holds `_TRIGGER_LOCK` while application code runs', 'strengthened: lock-probe leg added; injector made robust to structural lines'),
 'C02-m1': ('only container values are kept alive: fresh scalar watch results share an id', 'scalar-watch leg (14 watches vs independent evaluation)', 'strengthened: scalar-watch leg added'),
 'C02-m2': ('the nested log context gets its own cache: log variables overwrite frame locals in the table', 'values leg with log fields naming whole objects; frame variable -> object identity', 'strengthened: log fields + identity of every frame variable'),
 'C03-m1': ('same-location merge keyed by trigger name: method tracepoints of one name in two files collapse', 'Trace_Dispatch: fired set != Matching', ''),
 'C03-m2': ('per-action try/except removed: a failing action aborts its siblings on the event', 'Trace_Dispatch with always-failing sibling tracepoints listed first', 'strengthened: `faulty` tracepoints added to the model and scenarios'),
 'C04-m1': ('record moved out of the locked check', 'Trace_Limiter on gate/line schedules (2 collections for fire_count=1)', ''),
 'C04-m2': ('any negative fire_count is unlimited', 'graph replay / histories with fire_count=-2', 'strengthened: -2 added to the settings grid'),
 'C05-m1': ('budget checked against the per-processor table: every watch gets a fresh budget', 'Trace_Collector on instances with watches and a tiny watch budget (WatchBound)', 'strengthened: watch-budget leg added to C05'),
 'C05-m2': ('truncate-then-escape: escaped surrogates exceed the string limit, truncated flag wrong', 'Trace_Collector with `sstr` nodes (lone surrogates)', 'strengthened: surrogate string kind added'),
 'C06-m1': ('action shares the trigger context cache', 'catalogue with 2 tracepoints; Snapshot Independent replay', ''),
 'C06-m2': ('safe_str fast path for str: surrogates unescaped, snapshot dropped at conversion', 'catalogue: snapshot not convertible', ''),
 'C07-m1': ('hold(id string) instead of the value: id() reuse', '40 fresh same-shaped watch values', 'strengthened: many-temporaries leg'),
 'C07-m2': ('shared identity cache across actions: dangling ids', 'multi-action closure cases', 'strengthened: two-actions leg'),
 'C08-m1': ('empty metadata list cached before the provider answered / after it failed', 'failing provider: a poll went out unauthenticated', ''),
 'C08-m2': ('lru_cache on the text escaper: 1.0 comes back as True', 'attribute values equal to booleans (1, 1.0, 0, 0.0)', 'strengthened: equal-valued attributes added'),
 'C09-m1': ('flush uses result(): BaseException of a task re-raised', 'Trace_TaskFlush: FlushEnd(raised)', ''),
 'C09-m2': ('_open = False moved after the wait loop', 'Trace_TaskFlush: submit during flush accepted, flush returns with it unfinished', ''),
 'C10-m1': ('globals override locals in the evaluation namespace', 'ExprScope shadow_lg cases', ''),
 'C10-m2': ('only Exception results fail a condition: BaseException is truthy', 'ExprScope raises_baseexception at the condition site', ''),
 'C11-m1': ('snapshot only when snapshot == collect: unknown values get nothing', 'TriggerTable rows with snapshot=bogus', ''),
 'C11-m2': ('custom triggers appended in place to the stored service config', 'registered-in-code leg (two registrations + service update: duplicated actions)', 'strengthened: registered-in-code leg'),
 'C12-m1': ('state read outside the update lock', 'line-level concurrent leg (3 threads, 2 preemptions): config 1 installed under hash 2', 'strengthened: concurrent leg added'),
 'C12-m2': ('try/except hoisted out of the timer loop', 'timer leg: polling stops after a failed poll', ''),
 'C13-m1': ('listeners notified outside the update lock', 'line-level concurrent leg: unregistered tracepoint stays installed', 'strengthened: concurrent leg added'),
 'C13-m2': ('remove_custom filters by location id', 'ConfigSync replay: wrong registration removed', ''),
 'C14-m1': ('hooks saved before the NO_TRACE check and always restored', 'Lifecycle walks with AppSetsHooks', 'strengthened: the application installing hooks while the agent runs was added to the model'),
 'C14-m2': ('flush with as_completed and one try: first failure ends the wait', 'two pending deliveries (one failing first): pending after shutdown; also C09', 'strengthened: second pending delivery'),
 'C15-m1': ('scratch deque shared by all threads', 'line-level two-thread leg: span closed by another thread', 'strengthened: line-level leg added'),
 'C15-m2': ('new callback appended to a cleared deque', 'curated scenario with back-to-back deferring lines', 'strengthened: consecutive tracepoint lines + curated shapes'),
 'C16-m1': ('error text returned as the field text when the budget is exhausted', 'big-frame leg (>1000 variables)', 'strengthened: big-frame leg'),
 'C16-m2': ('fast path skips brace un-escaping for templates without `{`', 'templates consisting of `}}` and literals', ''),
 'C17-m1': ('processors generator looked up once per hit: only the first metric is dispatched', 'two definitions', ''),
 'C17-m2': ('has_metric_processor cached', 'two hits with the processor set changing (BudgetKeptForLater)', ''),
 'C18-m1': ('`if self._dict.get(key)`: falsy stored values treated as new keys', 'falsy value classes (0, False, "", ())', 'strengthened: falsy value classes'),
 'C18-m2': ('service-name fallback only when the key is missing', 'blank service name from environment/code', 'strengthened: blank names in ResourceMerge'),
 'C19-m1': ('environment beats code for unknown keys', 'lookup table: unknown key, code value + env text', ''),
 'C19-m2': ('APP_ROOT checked before exclude/include', 'path table: exclude under the root', ''),
 'C20-m1': ('built-in and custom plugins sorted separately', 'curated configuration with a custom plugin ordered before a built-in one', 'strengthened: negative orders, built-in/custom split'),
 'C20-m2': ('try/except around the whole result loop: a failing logger loses the snapshot', 'curated configuration with a failing first logger', 'strengthened: curated configurations'),
}
rows=[]
for d in sorted(os.listdir('/verif/seeded')):
    m=json.load(open('/verif/seeded/%s/meta.json'%d))
    what,how,note=NOTE.get(d,('','',''))
    caught=', '.join(m['caught_by']) or 'NOT CAUGHT'
    rows.append('| %s | %s | %s | %s | %s |' % (d, what, caught, how, note))
table='| Seeded change | What it does | Caught by (quick) | How | Note |\n|---|---|---|---|---|\n'+'\n'.join(rows)
p='/verif/DESIGN.md'
s=open(p).read()
if 'SEEDED_TABLE_PLACEHOLDER' in s:
    s=s.replace('SEEDED_TABLE_PLACEHOLDER', '<!-- seeded table start -->\n'+table+'\n<!-- seeded table end -->')
else:
    s=re.sub(r'<!-- seeded table start -->.*<!-- seeded table end -->', '<!-- seeded table start -->\n'+table.replace('\\','\\\\')+'\n<!-- seeded table end -->', s, flags=re.S)
open(p,'w').write(s)
print(len(rows), sum(1 for r in rows if 'NOT CAUGHT' in r))

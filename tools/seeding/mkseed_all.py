import json, os, shutil, re, sys
sys.path.insert(0, os.path.dirname(os.path.abspath(__file__)))
from notes_r2 import NOTE_R2, NOTE_R3, NOTE_R4, NOTE_R5, NOTE_R6, NOTE_R7, NOTE_R8
out_root='/verif/seeded'
MISSED={2:{'C02':[1,2],'C03':[2],'C04':[1],'C05':[1],'C06':[1],'C08':[1],'C09':[1],'C11':[2],'C12':[2],'C14':[1],'C15':[1],'C16':[1],'C17':[1],'C18':[1,2],'C19':[1,2],'C20':[1]},
        3:{'C01':[1],'C03':[2],'C07':[1,2],'C09':[1],'C10':[1],'C17':[2],'C18':[2],'C19':[2],'C20':[1]},
        4:{'C01':[1],'C02':[1],'C03':[2],'C06':[1,2],'C07':[2],'C08':[2],'C09':[2],'C10':[2],'C14':[1,2],'C17':[1,2],'C18':[1,2],'C20':[2]},
        5:{'C01':[1,2],'C02':[1],'C04':[1,2],'C09':[2],'C10':[2],'C13':[2],'C17':[2],'C18':[2]},
        6:{'C03':[2],'C04':[2],'C05':[2],'C06':[1],'C09':[2],'C10':[1,2],'C14':[2],'C15':[1,2],'C16':[2],'C17':[2],'C19':[1,2]},
        7:{'C01':[1,2],'C02':[1,2],'C03':[1,2],'C06':[1,2],'C09':[1],'C12':[1],'C13':[1],'C15':[1],'C16':[2],'C17':[1]},
        8:{'C04':[1],'C06':[1,2],'C07':[2],'C09':[1,2],'C10':[1],'C11':[1],'C12':[2],'C14':[2],'C17':[1],'C18':[1],'C19':[2],'C20':[2]}}
EXIT2={(2,'C11',2),(2,'C12',2)}
rows=[]
for rnd, root in ((1,'/tmp/seed'),(2,'/tmp/seed2'),(3,'/tmp/seed3'),(4,'/tmp/seed4'),(5,'/tmp/seed5'),(6,'/tmp/seed6'),(7,'/tmp/seed7'),(8,'/tmp/seed8')):
    for pid in ['C%02d'%i for i in range(1,21)]:
        for k in (1,2,3):
            src='%s/%s.out/m%d'%(root,pid,k)
            if not os.path.isdir(src): continue
            logs={}
            for sd in (0,1):
                lg='%s/%s.m%d.r5s%d.log'%(root,pid,k,sd)
                if os.path.exists(lg): logs[sd]=open(lg).read()
            if 0 not in logs:
                print('no r5 log for', rnd, pid, k); continue
            log=logs[0]
            name='%s-m%d'%(pid,k) if rnd==1 else '%s-r%dm%d'%(pid,rnd,k)
            d=os.path.join(out_root,name)
            os.makedirs(d, exist_ok=True)
            for f in ('patch.diff','demo.py','README.md'):
                shutil.copy(os.path.join(src,f), d)
            readme=open(os.path.join(src,'README.md')).read()
            def g(key, text=log):
                m=re.search(key+r'=(\d+)', text); return int(m.group(1)) if m else None
            checks={'seed %d'%sd: {m.group(1): int(m.group(2)) for m in re.finditer(r'check_(C\d+)_exit=(\d+)', t)} for sd,t in logs.items()}
            viol=[l.strip() for l in log.split('\n') if l.startswith('  ')][:2]
            files=sorted(set(re.findall(r'^\+\+\+ b/(\S+)', open(os.path.join(src,'patch.diff')).read(), re.M)))
            old=json.load(open(os.path.join(d,'meta.json'))) if os.path.exists(os.path.join(d,'meta.json')) else {}
            meta={'property': pid, 'round': rnd, 'files_changed': files,
                  'needs_to_manifest': ' '.join(readme.split('\n')[0:40])[:1200],
                  'confirmed_in_scratch_worktree': {
                      'worktree': '%s/%s (git worktree of /repo at the then current HEAD, removed afterwards)'%(root,pid),
                      'demo_exit_on_clean_tree': g('demo_clean_exit'), 'patch_applies': g('apply_exit')==0,
                      'unit_tests_with_patch': (re.search(r'(\d+ passed[^\n]*)', log).group(1) if re.search(r'(\d+ passed[^\n]*)', log) else None),
                      'demo_exit_with_patch': g('demo_mutant_exit')},
                  'commands_run': ['PYTHONPATH=<wt>/src:<wt>/tests /venv/bin/python demo.py   (clean, then patched)',
                                   'PYTHONPATH=<wt>/src:<wt>/tests /venv/bin/python -m pytest -q -p no:cacheprovider tests/unit_tests --ignore=tests/unit_tests/api/plugin/metrics/test_otel_metrics.py   (patched)',
                                   'VERIF_REPO=<wt> VERIF_SEED=<0|1> ./check %s --tier quick   (patched, run from a copy of /verif)'%pid],
                  'quick_check_exit_with_patch': checks, 'first_violation_lines': viol,
                  'caught_by': sorted(c for c,e in checks['seed 0'].items() if e==1)}
            if rnd>1:
                first = 2 if (rnd,pid,k) in EXIT2 else 0 if k in MISSED[rnd].get(pid,[]) else 1
                meta['quick_check_exit_at_first_evaluation']={pid: first}
            elif 'first_violation_lines' in old and old.get('caught_by'):
                pass
            if os.path.exists(os.path.join(src,'demo.orig.py')):
                shutil.copy(os.path.join(src,'demo.orig.py'), d)
            if os.path.exists(os.path.join(src,'patch.orig.diff')):
                shutil.copy(os.path.join(src,'patch.orig.diff'), d)
                meta['note']='patch.diff was re-based onto the current HEAD after later fix: commits touched the same lines (patch.orig.diff is the sub-agent\'s original)'
            mo=re.search(r'obsolete_on=(\w+) evaluated_on=(\w+)', log)
            if mo:
                meta['note']=('on the current HEAD %s this change no longer breaks the property (a later fix: commit changed the surrounding behaviour; its demonstration '
                              'passes or is outdated there); it was confirmed and the check run on its original base %s' % (mo.group(1), mo.group(2)))
                meta['quick_check_exit_with_patch'].pop('seed 1', None)
            if old.get('evaluated_on_repo_commit'):
                meta['evaluated_on_repo_commit']=old['evaluated_on_repo_commit']
                meta['confirmed_in_scratch_worktree']['worktree']=old['confirmed_in_scratch_worktree']['worktree']
            json.dump(meta, open(os.path.join(d,'meta.json'),'w'), indent=1)
            rows.append((name, meta['caught_by'], checks))
bad=[r for r in rows if not r[1] or any(v!=1 for c in r[2].values() for v in c.values())]
print(len(rows), 'written;', len(bad), 'not caught by every seed:'); 
for r in bad: print('  ', r)

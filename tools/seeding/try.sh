#!/bin/sh
# try.sh <ID> <k> [check ids...] : apply the mutant in its worktree, run the quick check(s) against it, revert
ID=$1; K=$2; shift 2
W=/tmp/seed5/$ID; O=/tmp/seed5/$ID.out/m$K
cd $W && git checkout -q -- . && git apply $O/patch.diff || exit 3
for C in ${*:-$ID}; do
  rsync -a --delete --exclude .git --exclude replays /verif/ /tmp/vtry/ && cd /tmp/vtry && VERIF_REPO=$W VERIF_SEED=${SEEDV:-0} timeout 1500 ./check $C --tier quick > $O/try.$C.out 2>&1; echo "$ID.m$K check_${C}_exit=$? (seed ${SEEDV:-0})"
  grep -A1 "^VIOLATION" $O/try.$C.out | grep -v "^VIOLATION\|^--" | head -2 | cut -c1-260
done
cd $W && git checkout -q -- .

#!/bin/sh
# eval.sh <ID> <k> [extra check ids...] : confirm a seeded change in its scratch worktree, then run the checks against that tree
ID=$1; K=$2; shift 2
W=/tmp/seed5/$ID; O=/tmp/seed5/$ID.out/m$K
LOG=/tmp/seed5/$ID.m$K.log
: > $LOG
cd $W && git checkout -q -- . && git status --short | grep -v '^??' >> $LOG
PP="PYTHONPATH=$W/src:$W/tests"
env $PP timeout 120 /venv/bin/python $O/demo.py > $O/demo.clean.out 2>&1; echo "demo_clean_exit=$?" >> $LOG
git apply $O/patch.diff 2>> $LOG; echo "apply_exit=$?" >> $LOG
env $PP timeout 600 /venv/bin/python -m pytest -q -p no:cacheprovider tests/unit_tests --ignore=tests/unit_tests/api/plugin/metrics/test_otel_metrics.py 2>&1 | tail -1 >> $LOG
env $PP timeout 120 /venv/bin/python $O/demo.py > $O/demo.mutant.out 2>&1; echo "demo_mutant_exit=$?" >> $LOG
for C in $ID "$@"; do
  cd ${VDIR:-/verif} && VERIF_REPO=$W VERIF_SEED=${SEEDV:-0} timeout 1500 ./check $C --tier quick > $O/check.$C.out 2>&1; echo "check_${C}_exit=$?" >> $LOG
  grep -A1 "^VIOLATION" $O/check.$C.out | grep -v "^VIOLATION\|^--" | head -2 | cut -c1-300 >> $LOG
done
cd $W && git checkout -q -- .
cat $LOG

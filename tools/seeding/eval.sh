#!/bin/sh
# eval.sh <ID> <k> [extra check ids...] : confirm a seeded change in its scratch worktree, then run the checks against that tree
ID=$1; K=$2; shift 2
W=/tmp/seed5/$ID; O=/tmp/seed5/$ID.out/m$K
LOG=/tmp/seed5/$ID.m$K.log
: > $LOG
cd $W && git checkout -q -- . && git status --short | grep -v '^??' >> $LOG
PP="PYTHONPATH=$W/src:$W/tests"
env $PP timeout 120 /venv/bin/python $O/demo.py > $O/demo.clean.out 2>&1; echo "demo_clean_exit=$?" >> $LOG
# BASECHECK=1: run the check on the CLEAN worktree first - a seeded change counts as caught only when its base passes
# (round 8: the base carried a regression of a repair, four changes were "caught" by a check that was red anyway)
if [ "${BASECHECK:-0}" = 1 ]; then
  cd ${VDIR:-/verif} && VERIF_REPO=$W VERIF_SEED=${SEEDV:-0} timeout 1500 ./check $ID --tier quick > $O/check.base.out 2>&1; echo "base_check_${ID}_exit=$?" >> $LOG
  cd $W
fi
git apply $O/patch.diff 2>> $LOG; echo "apply_exit=$?" >> $LOG
env $PP timeout 600 /venv/bin/python -m pytest -q -p no:cacheprovider tests/unit_tests --ignore=tests/unit_tests/api/plugin/metrics/test_otel_metrics.py 2>&1 | tail -1 >> $LOG
env $PP timeout 120 /venv/bin/python $O/demo.py > $O/demo.mutant.out 2>&1; echo "demo_mutant_exit=$?" >> $LOG
for C in $ID "$@"; do
  cd ${VDIR:-/verif} && VERIF_REPO=$W VERIF_SEED=${SEEDV:-0} timeout 1500 ./check $C --tier quick > $O/check.$C.out 2>&1; echo "check_${C}_exit=$?" >> $LOG
  grep -A1 "^VIOLATION" $O/check.$C.out | grep -v "^VIOLATION\|^--" | head -2 | cut -c1-300 >> $LOG
done
cd $W && git checkout -q -- .
cat $LOG

import json, os, re, sys
sys.path.insert(0, os.path.dirname(os.path.abspath(__file__)))
from notes_r2 import NOTE_R2, NOTE_R3, NOTE_R4, NOTE_R5, NOTE_R6, NOTE_R7, NOTE_R8
src=open(os.path.join(os.path.dirname(os.path.abspath(__file__)), 'mktable.py')).read()
ns={}
exec(src[src.index('NOTE = {'):src.index('rows=[]')], ns)
NOTE=dict(ns['NOTE']); NOTE.update(NOTE_R2); NOTE.update(NOTE_R3); NOTE.update(NOTE_R4); NOTE.update(NOTE_R5); NOTE.update(NOTE_R6); NOTE.update(NOTE_R7); NOTE.update(NOTE_R8)
def key(d):
    m=re.match(r'(C\d+)-(?:r(\d))?m(\d)', d); return (m.group(1), int(m.group(2) or 1), int(m.group(3)))
rows=[]
for d in sorted((x for x in os.listdir('/verif/seeded') if re.match(r'C\d+-', x)), key=key):
    m=json.load(open('/verif/seeded/%s/meta.json'%d))
    what,how,note=NOTE.get(d,('','',''))
    caught=', '.join(m['caught_by']) or 'NOT CAUGHT'
    if m.get('note') and 'no longer breaks' in m['note']:
        note=(note+'; ' if note else '')+'obsolete on the current HEAD (evaluated on its original base)'
    rows.append('| %s | %s | %s | %s | %s |' % (d, what, caught, how, note))
table='| Seeded change | What it does | Caught by (quick, seeds 0 and 1) | How | Note |\n|---|---|---|---|---|\n'+'\n'.join(rows)
p='/verif/DESIGN.md'
s=open(p).read()
s=re.sub(r'<!-- seeded table start -->.*<!-- seeded table end -->', lambda _m: '<!-- seeded table start -->\n'+table+'\n<!-- seeded table end -->', s, flags=re.S)
open(p,'w').write(s)
print(len(rows), sum(1 for r in rows if 'NOT CAUGHT' in r))

------------------------------ MODULE Ambient ------------------------------
(***************************************************************************)
(* C01, the "same output and final data" half: the state of the process    *)
(* that the application can observe besides its own objects - the global   *)
(* pseudo random generator, the warnings filters and once-per-location     *)
(* registries, the recursion limit, the decimal context, the environment,  *)
(* sys.path, the working directory, the logging root, gc settings, the     *)
(* exception hooks, the switch interval - belongs to the application.      *)
(*                                                                         *)
(* Code: everything TriggerHandler.trace_call runs for a hit: EventSnapshot*)
(* (its id), TriggerContext.evaluate_expression, the action contexts, the  *)
(* collectors and the plugin call-outs.                                    *)
(*                                                                         *)
(* Each facet is abstracted to a version number. The application changes a *)
(* facet whenever it likes (HostStep); a hit handled by the agent, with    *)
(* whatever features its tracepoints use (AgentStep), changes none.        *)
(* Deviation DrawsFromGlobalPRNG = TRUE is the pre-fix EventSnapshot: the  *)
(* snapshot id is drawn from the application's generator.                  *)
(***************************************************************************)
EXTENDS Naturals, Sequences, FiniteSets, TLC

CONSTANTS Facets, Features, MaxSteps, DrawsFromGlobalPRNG

VARIABLES amb,      \* facet -> version
          nsteps,
          lastAgent \* the last step was a hit handled by the agent: [features, before]; features = {} otherwise

vars == <<amb, nsteps, lastAgent>>

Init == amb = [f \in Facets |-> 0] /\ nsteps = 0 /\ lastAgent = [features |-> {}, before |-> [f \in Facets |-> 0], agent |-> FALSE]

HostStep(f) ==
    /\ nsteps < MaxSteps /\ nsteps' = nsteps + 1
    /\ amb' = [amb EXCEPT ![f] = @ + 1]
    /\ lastAgent' = [features |-> {}, before |-> amb, agent |-> FALSE]

AgentStep(F) ==
    /\ nsteps < MaxSteps /\ nsteps' = nsteps + 1
    /\ amb' = IF DrawsFromGlobalPRNG /\ "snapshot" \in F /\ "prng" \in Facets
                THEN [amb EXCEPT !["prng"] = @ + 1]
                ELSE amb
    /\ lastAgent' = [features |-> F, before |-> amb, agent |-> TRUE]

Next == (\E f \in Facets : HostStep(f)) \/ (\E F \in SUBSET Features : AgentStep(F))
        \/ (nsteps = MaxSteps /\ UNCHANGED vars)

Spec == Init /\ [][Next]_vars

(* C01 *)
AgentLeavesAmbientStateAlone == lastAgent.agent => amb = lastAgent.before
=============================================================================

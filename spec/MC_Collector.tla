---------------------------- MODULE MC_Collector ----------------------------
(* Model-checking instances for Collector: every object graph over N nodes (sharing and cycles included),  *)
(* every short sequence of locals, and a grid of the four limits.                                          *)
EXTENDS Collector

CONSTANTS N, KindsUsed, MaxChild, MaxRoots, VarsSet, StrSet, CollSet, DepthSet, MaxWatch, WVarsSet,
          MaxFrames      \* frames below the paused one that are collected as well (each with up to MaxRoots locals)

Nodes == 1..N
SeqsUpTo(S, k) == UNION {[1..m -> S] : m \in 0..k}

Graphs == {g \in [kind : [Nodes -> KindsUsed], child : [Nodes -> SeqsUpTo(Nodes, MaxChild)]] :
              \A n \in Nodes : g.kind[n] \in NoChildKinds \cup {"hostile"} => g.child[n] = <<>>}

SLen(g) == [n \in Nodes |-> IF g.kind[n] = "str" THEN 3 ELSE 1]

(* written as nested quantifiers so that TLC enumerates the instances lazily instead of building the set *)
MCInit ==
    \E g \in Graphs : \E r \in SeqsUpTo(Nodes, MaxRoots) \ {<<>>} :
      \E mv \in VarsSet : \E ms \in StrSet : \E mc \in CollSet : \E md \in DepthSet :
        \E w \in SeqsUpTo(Nodes, MaxWatch) : \E wv \in WVarsSet : \E fr \in SeqsUpTo(SeqsUpTo(Nodes, MaxRoots), MaxFrames) :
          InitWith([kind |-> g.kind, child |-> g.child, slen |-> SLen(g), roots |-> r, frames |-> fr,
                    maxVars |-> mv, maxStr |-> ms, maxColl |-> mc, maxDepth |-> md,
                    watch |-> w, wlim |-> [maxVars |-> wv, maxStr |-> 2, maxColl |-> 2, maxDepth |-> 3]])

MCSpec == MCInit /\ [][Next]_vars /\ WF_vars(Step \/ FrameBegin \/ FrameStep \/ WatchBegin \/ WatchStep)
=============================================================================

----------------------------- MODULE TaskFlush -----------------------------
(***************************************************************************)
(* C09: the background task handler (deep/task/__init__.py:TaskHandler)    *)
(* and what PushService.push_snapshot relies on.                           *)
(*                                                                         *)
(* One action per critical section of the code:                            *)
(*   submit_task:  CheckOpen -> NextId (under _lock) -> PoolSubmit ->      *)
(*                 Track (_pending[id] = future) -> AddCallback            *)
(*                 (add_done_callback runs the callback inline on the      *)
(*                  submitter when the future is already done)             *)
(*   pool worker:  Start(w,j) -> Finish(w,res) (future done) ->            *)
(*                 WorkerCallback(w) (done-callbacks: the id is deleted)   *)
(*   flush:        FlushClose (_open = False) -> FlushSnapshot (copy of    *)
(*                 the pending futures) -> FlushWait(k) per future ->      *)
(*                 FlushReturn                                             *)
(* Deviations of the pre-fix code, switched by constants:                  *)
(*   ResultReRaises  flush re-raises the exception of a failed task it     *)
(*                   waited for (future.result() without a guard)          *)
(*   IndexAfterGet   flush re-reads _pending[key] after get(key): KeyError *)
(*                   when the completion callback removed it in between    *)
(***************************************************************************)
EXTENDS Naturals, Sequences, FiniteSets, TLC

CONSTANTS Submitters,      \* application threads that submit
          Workers,         \* pool worker threads (2 in the code)
          MaxJobs,         \* bound on accepted jobs
          MaxSubmits,      \* bound on submit calls
          FailMay,         \* TRUE: a job may fail
          ResultReRaises,  \* deviation switch
          IndexAfterGet    \* deviation switch

VARIABLES open,        \* TaskHandler._open
          nextId,      \* TaskHandler._job_id
          pending,     \* DOMAIN of TaskHandler._pending (job ids)
          job,         \* job id -> "none" | "queued" | "running" | "ok" | "err"
          cbReg,       \* job id -> done-callback registered on the future
          runs,        \* job id -> how many times the task body ran
          ranOn,       \* job id -> worker that ran it (or NoJob)
          owner,       \* job id -> submitter
          queue,       \* the pool's FIFO work queue (job ids in pool.submit order)
          wjob,        \* worker -> job it is running (or NoJob)
          wcb,         \* worker -> TRUE while it runs the done-callbacks of the job it just finished
          spc,         \* submitter -> "idle" | "checked" | "id" | "pooled" | "tracked"
          sid,         \* submitter -> id being submitted
          sres,        \* submitter -> outcome of its last submit: "none" | "accepted" | "refused"
          nsub,        \* number of submit calls so far
          fpc,         \* flush: "idle" | "closed" | "waiting" | "returned" | "raised"
          fkeys,       \* flush: job ids still to wait for (its snapshot of pending)
          fbefore      \* job ids accepted (tracked) before flush took its snapshot

vars == <<open, nextId, pending, job, cbReg, runs, ranOn, owner, queue, wjob, wcb, spc, sid, sres, nsub, fpc, fkeys, fbefore>>

NoJob == 0               \* "no job" in wjob (job ids start at 1)
Nobody == "nobody"       \* "no thread" in ranOn / owner (thread names are strings)
Jobs == 1..MaxJobs
Done(j) == job[j] \in {"ok", "err"}

Init ==
    /\ open = TRUE
    /\ nextId = 0
    /\ pending = {}
    /\ job = [j \in Jobs |-> "none"]
    /\ cbReg = [j \in Jobs |-> FALSE]
    /\ runs = [j \in Jobs |-> 0]
    /\ ranOn = [j \in Jobs |-> Nobody]
    /\ owner = [j \in Jobs |-> Nobody]
    /\ queue = <<>>
    /\ wjob = [w \in Workers |-> NoJob]
    /\ wcb = [w \in Workers |-> FALSE]
    /\ spc = [s \in Submitters |-> "idle"]
    /\ sid = [s \in Submitters |-> 0]
    /\ sres = [s \in Submitters |-> "none"]
    /\ nsub = 0
    /\ fpc = "idle"
    /\ fkeys = {}
    /\ fbefore = {}

---------------------------------------------------------------------------
(* submit_task *)
CheckOpen(s) ==
    /\ spc[s] = "idle" /\ nsub < MaxSubmits
    /\ nsub' = nsub + 1
    /\ IF open
         THEN /\ nextId + Cardinality({x \in Submitters : spc[x] = "checked"}) < MaxJobs   \* model bound only
              /\ spc' = [spc EXCEPT ![s] = "checked"]
              /\ sres' = [sres EXCEPT ![s] = "none"]
         ELSE /\ sres' = [sres EXCEPT ![s] = "refused"]      \* IllegalStateException raised to the caller
              /\ UNCHANGED spc
    /\ UNCHANGED <<open, nextId, pending, job, cbReg, runs, ranOn, owner, queue, wjob, wcb, sid, fpc, fkeys, fbefore>>

NextId(s) ==
    /\ spc[s] = "checked"
    /\ nextId' = nextId + 1
    /\ sid' = [sid EXCEPT ![s] = nextId + 1]
    /\ spc' = [spc EXCEPT ![s] = "id"]
    /\ UNCHANGED <<open, pending, job, cbReg, runs, ranOn, owner, queue, wjob, wcb, sres, nsub, fpc, fkeys, fbefore>>

PoolSubmit(s) ==
    /\ spc[s] = "id"
    /\ job' = [job EXCEPT ![sid[s]] = "queued"]
    /\ owner' = [owner EXCEPT ![sid[s]] = s]
    /\ queue' = Append(queue, sid[s])
    /\ spc' = [spc EXCEPT ![s] = "pooled"]
    /\ UNCHANGED <<open, nextId, pending, cbReg, runs, ranOn, wjob, wcb, sid, sres, nsub, fpc, fkeys, fbefore>>

Track(s) ==
    /\ spc[s] = "pooled"
    /\ pending' = pending \cup {sid[s]}
    /\ spc' = [spc EXCEPT ![s] = "tracked"]
    /\ UNCHANGED <<open, nextId, job, cbReg, runs, ranOn, owner, queue, wjob, wcb, sid, sres, nsub, fpc, fkeys, fbefore>>

AddCallback(s) ==
    /\ spc[s] = "tracked"
    /\ IF Done(sid[s])
         THEN /\ pending' = pending \ {sid[s]}       \* callback runs inline, on the submitter
              /\ UNCHANGED cbReg
         ELSE /\ cbReg' = [cbReg EXCEPT ![sid[s]] = TRUE]
              /\ UNCHANGED pending
    /\ spc' = [spc EXCEPT ![s] = "idle"]
    /\ sres' = [sres EXCEPT ![s] = "accepted"]
    /\ UNCHANGED <<open, nextId, job, runs, ranOn, owner, queue, wjob, wcb, sid, nsub, fpc, fkeys, fbefore>>

---------------------------------------------------------------------------
(* the pool *)
Start(w, j) ==
    /\ wjob[w] = NoJob /\ queue # <<>> /\ j = Head(queue)       \* FIFO work queue
    /\ queue' = Tail(queue)
    /\ job' = [job EXCEPT ![j] = "running"]
    /\ wjob' = [wjob EXCEPT ![w] = j]
    /\ runs' = [runs EXCEPT ![j] = runs[j] + 1]
    /\ ranOn' = [ranOn EXCEPT ![j] = w]
    /\ UNCHANGED <<open, nextId, pending, cbReg, owner, wcb, spc, sid, sres, nsub, fpc, fkeys, fbefore>>

Finish(w, res) ==
    /\ wjob[w] # NoJob /\ ~wcb[w]
    /\ res = "err" => FailMay
    /\ job' = [job EXCEPT ![wjob[w]] = res]
    /\ wcb' = [wcb EXCEPT ![w] = TRUE]
    /\ UNCHANGED <<open, nextId, pending, cbReg, runs, ranOn, owner, queue, wjob, spc, sid, sres, nsub, fpc, fkeys, fbefore>>

(* the done-callbacks run on the worker that finished the job: TaskHandler's callback deletes the id *)
WorkerCallback(w) ==
    /\ wcb[w]
    /\ pending' = IF cbReg[wjob[w]] THEN pending \ {wjob[w]} ELSE pending
    /\ wjob' = [wjob EXCEPT ![w] = NoJob]
    /\ wcb' = [wcb EXCEPT ![w] = FALSE]
    /\ UNCHANGED <<open, nextId, job, cbReg, runs, ranOn, owner, queue, spc, sid, sres, nsub, fpc, fkeys, fbefore>>

---------------------------------------------------------------------------
(* flush *)
FlushClose ==
    /\ fpc = "idle"
    /\ open' = FALSE
    /\ fpc' = "closed"
    /\ UNCHANGED <<nextId, pending, job, cbReg, runs, ranOn, owner, queue, wjob, wcb, spc, sid, sres, nsub, fkeys, fbefore>>

FlushSnapshot ==
    /\ fpc = "closed"
    /\ fkeys' = pending
    /\ fbefore' = pending
    /\ fpc' = "waiting"
    /\ UNCHANGED <<open, nextId, pending, job, cbReg, runs, ranOn, owner, queue, wjob, wcb, spc, sid, sres, nsub>>

(* wait for one of the snapshotted futures; blocks (is not enabled) until that job is done *)
FlushWait(k) ==
    /\ fpc = "waiting" /\ k \in fkeys
    /\ \A m \in fkeys : k <= m
    /\ Done(k)
    /\ fkeys' = fkeys \ {k}
    /\ fpc' = IF ResultReRaises /\ job[k] = "err" THEN "raised" ELSE fpc
    /\ UNCHANGED <<open, nextId, pending, job, cbReg, runs, ranOn, owner, queue, wjob, wcb, spc, sid, sres, nsub, fbefore>>

(* the pre-fix window between `get = self._pending.get(key)` and `self._pending[key]` *)
FlushIndexRace(k) ==
    /\ IndexAfterGet
    /\ fpc = "waiting" /\ k \in fkeys /\ k \in pending /\ ~Done(k)
    \* the job finishes and its callback deletes the key while flush sits between get and index
    /\ \E w \in Workers, res \in {"ok", "err"} :
         /\ wjob[w] = k /\ ~wcb[w] /\ cbReg[k] /\ (res = "err" => FailMay)
         /\ job' = [job EXCEPT ![k] = res]
         /\ wjob' = [wjob EXCEPT ![w] = NoJob]
         /\ pending' = pending \ {k}
    /\ fpc' = "raised"
    /\ UNCHANGED <<open, nextId, cbReg, runs, ranOn, owner, queue, wcb, spc, sid, sres, nsub, fkeys, fbefore>>

FlushReturn ==
    /\ fpc = "waiting" /\ fkeys = {}
    /\ fpc' = "returned"
    /\ UNCHANGED <<open, nextId, pending, job, cbReg, runs, ranOn, owner, queue, wjob, wcb, spc, sid, sres, nsub, fkeys, fbefore>>

Next ==
    \/ \E s \in Submitters : CheckOpen(s) \/ NextId(s) \/ PoolSubmit(s) \/ Track(s) \/ AddCallback(s)
    \/ \E w \in Workers : (\E j \in Jobs : Start(w, j)) \/ (\E res \in {"ok", "err"} : Finish(w, res)) \/ WorkerCallback(w)
    \/ FlushClose \/ FlushSnapshot \/ (\E k \in Jobs : FlushWait(k) \/ FlushIndexRace(k)) \/ FlushReturn

Fairness ==
    /\ \A w \in Workers : WF_vars(\E j \in Jobs : Start(w, j)) /\ WF_vars(\E res \in {"ok", "err"} : Finish(w, res))
                        /\ WF_vars(WorkerCallback(w))
    /\ \A s \in Submitters : WF_vars(NextId(s) \/ PoolSubmit(s) \/ Track(s) \/ AddCallback(s))
    /\ WF_vars(FlushSnapshot \/ (\E k \in Jobs : FlushWait(k)) \/ FlushReturn)

Spec == Init /\ [][Next]_vars /\ Fairness

---------------------------------------------------------------------------
(* C09 *)
ExactlyOnce == \A j \in Jobs : runs[j] <= 1
OffThread == \A j \in Jobs : ranOn[j] # Nobody => ranOn[j] \in Workers      \* never a submitter
FlushNeverRaises == fpc # "raised"
FlushDrains == fpc = "returned" => \A j \in fbefore : Done(j)
(* a submit ends visibly: accepted (and then the job exists) or refused; never accepted-but-absent *)
RefusedVisibly == \A s \in Submitters : sres[s] = "accepted" => job[sid[s]] # "none"
(* once closed, no new submit gets past the open check *)
ClosedRefuses == [][\A s \in Submitters : (~open /\ spc[s] = "idle") => spc'[s] = "idle"]_vars
(* pending is exactly the accepted-and-unfinished jobs whenever nothing is in flight *)
SubmitQuiet == \A s \in Submitters : spc[s] = "idle"
PendingAccurate == (SubmitQuiet /\ \A w \in Workers : ~wcb[w]) => pending = {j \in Jobs : job[j] \in {"queued", "running"}}
(* every accepted job is eventually run to completion (the pool is never shut down by flush) *)
AllAcceptedFinish == <>[](\A j \in Jobs : job[j] # "none" => Done(j))
FlushTerminates == (fpc = "closed") ~> (fpc \in {"returned", "raised"})

TypeOK ==
    /\ open \in BOOLEAN /\ nextId \in 0..MaxJobs /\ pending \subseteq Jobs
    /\ fpc \in {"idle", "closed", "waiting", "returned", "raised"}
=============================================================================

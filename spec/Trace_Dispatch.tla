--------------------------- MODULE Trace_Dispatch ---------------------------
(***************************************************************************)
(* Validates live executions (real CPython event streams of generated host *)
(* programs, the real agent as trace function) against Dispatch.           *)
(* A trace = header [tps] followed by one record per trace event:          *)
(*   [ev |-> "tstart"|"tend", thr]                                         *)
(*   [ev |-> "config", tps]    a new configuration was installed          *)
(*   [ev |-> "call"|"line"|"return"|"exception", thr, file, fn, line,      *)
(*    fired  |-> tracepoint ids that acted during this event (sorted),     *)
(*    closed |-> spans closed during this event as <<tp id, opening event  *)
(*               number>> pairs (sorted)]                                  *)
(* Each record is one step. Firing is deterministic (C03): the logged set   *)
(* must equal Matching. Span completion (C15) is judged on the window the  *)
(* property states (see Apply), so a different but correct matching        *)
(* algorithm in the code is not an alarm.                                  *)
(***************************************************************************)
EXTENDS Dispatch, Json, IOUtils, TLCExt

VARIABLES tid, l

TraceLog == JsonDeserialize(IOEnv.TRACE_FILE)
T == TraceLog[tid]
E == T[l]
Live == l <= Len(T)

SeqToSet(q) == {q[i] : i \in 1..Len(q)}

TraceInit ==
    /\ tid \in 1..Len(TraceLog)
    /\ TLCSet(tid, 0)
    /\ l = 2
    /\ InitWith(SeqToSet(T[1].tps))

Fn(e) == [file |-> e.file, name |-> e.fn]

(* C03: the tracepoints that acted during the event are exactly those configured for its location *)
FiredNow(e) == {tp.id : tp \in Matching(e.ev, Fn(e), e.line)}

(* C15 is judged on the window the property states, not on one particular matching algorithm: a span may be  *)
(* closed by any later event of its own thread, and must be closed when the invocation that opened it ends.   *)
ItemIdx(pair) == {i \in 1..Len(items) : items[i].tp = pair[1] /\ items[i].openEv = pair[2]}
ClosedIdx(e) == UNION {ItemIdx(e.closed[k]) : k \in 1..Len(e.closed)}
(* how often span i was closed during the event (a span closed twice is listed twice) *)
Closes(e, i) == Cardinality({k \in 1..Len(e.closed) : i \in ItemIdx(e.closed[k])})
SpanTps(e) == {tp \in Matching(e.ev, Fn(e), e.line) : tp.span # "none"}

Apply(e, inv) ==
    LET t == e.thr
        sp == SpanTps(e)
        n == Cardinality(sp)
        ord == CHOOSE f \in [1..n -> sp] : \A a, b \in 1..n : a # b => f[a] # f[b]
        base == Len(items)
    IN /\ \A k \in 1..Len(e.closed) : ItemIdx(e.closed[k]) # {}          \* only known spans are closed
       /\ items' = [i \in 1..(base + n) |->
                       IF i <= base
                         THEN IF i \in ClosedIdx(e)
                                THEN [items[i] EXCEPT !.closed = @ + Closes(e, i), !.closer = t, !.closerGen = gen[t]]
                                ELSE items[i]
                         ELSE [tp |-> ord[i - base].id, thr |-> t, gen |-> gen[t], inv |-> inv, openEv |-> nEv + 1,
                               closed |-> 0, closer |-> t, closerGen |-> 0]]
       /\ acted' = acted \o [k \in 1..Len(e.fired) |-> [tp |-> e.fired[k], ev |-> e.ev, fn |-> Fn(e),
                                                          line |-> e.line, thr |-> t]]
       /\ last' = [thr |-> t, ev |-> e.ev, fn |-> Fn(e), line |-> e.line]
       /\ UNCHANGED cb

TrThread ==
    /\ Live /\ E.ev \in {"tstart", "tend"}
    /\ IF E.ev = "tstart" THEN ThreadStart(E.thr) ELSE ThreadEnd(E.thr)
    /\ l' = l + 1 /\ UNCHANGED tid

(* blind: the driver, which emulates CPython (no local trace function for an invocation whose `call` event the agent *)
(* answered with None), did not deliver this event to the agent                                                  *)
LoggedBlind(e) == "blind" \in DOMAIN e /\ e.blind
(* the agent saw nothing of the event: nothing fired, nothing closed *)
ApplyBlind(e) ==
    /\ e.fired = <<>> /\ e.closed = <<>>
    /\ last' = [thr |-> e.thr, ev |-> e.ev, fn |-> Fn(e), line |-> e.line]
    /\ UNCHANGED <<items, cb, acted>>

TrEvent ==
    /\ Live /\ E.ev \in {"call", "line", "return", "exception"}
    /\ alive[E.thr]
    /\ nEv' = nEv + 1
    /\ CASE E.ev = "call" ->
              \* with the deviation on, an invocation is blind exactly when it began while nothing was installed
              /\ (IdleFramesBlind => (LoggedBlind(E) = (tps = {})))
              /\ SeqToSet(E.fired) = FiredNow(E) /\ Len(E.fired) = Cardinality(FiredNow(E))
              /\ stack' = [stack EXCEPT ![E.thr] = Append(@, [fn |-> Fn(E), inv |-> nInv + 1,
                                                               blind |-> IdleFramesBlind /\ tps = {}])]
              /\ nInv' = nInv + 1
              /\ Apply(E, nInv + 1)
              /\ UNCHANGED <<invDone>>
         [] E.ev \in {"line", "exception"} ->
              /\ stack[E.thr] # <<>> /\ Top(stack[E.thr]).fn = Fn(E)
              /\ (IdleFramesBlind => (LoggedBlind(E) = Top(stack[E.thr]).blind))
              /\ IF Top(stack[E.thr]).blind THEN ApplyBlind(E)
                   ELSE /\ SeqToSet(E.fired) = FiredNow(E) /\ Len(E.fired) = Cardinality(FiredNow(E))
                        /\ Apply(E, Top(stack[E.thr]).inv)
              /\ UNCHANGED <<stack, nInv, invDone>>
         [] E.ev = "return" ->
              /\ stack[E.thr] # <<>> /\ Top(stack[E.thr]).fn = Fn(E)
              /\ (IdleFramesBlind => (LoggedBlind(E) = Top(stack[E.thr]).blind))
              /\ IF Top(stack[E.thr]).blind THEN ApplyBlind(E)
                   ELSE /\ SeqToSet(E.fired) = FiredNow(E) /\ Len(E.fired) = Cardinality(FiredNow(E))
                        /\ Apply(E, Top(stack[E.thr]).inv)
              /\ invDone' = invDone \cup {Top(stack[E.thr]).inv}
              /\ stack' = [stack EXCEPT ![E.thr] = Pop(@)]
              /\ UNCHANGED nInv
    /\ l' = l + 1
    /\ UNCHANGED <<tid, tps, alive, gen, exc>>

(* the service's configuration changed between two trace events (a poll response was installed) *)
TrConfig ==
    /\ Live /\ E.ev = "config"
    /\ tps' = SeqToSet(E.tps)
    /\ l' = l + 1
    /\ UNCHANGED <<tid, alive, gen, stack, exc, cb, items, acted, invDone, nInv, nEv, last>>

TraceNext == TrThread \/ TrEvent \/ TrConfig

(* (placement itself is enforced event by event in TrEvent: fired = Matching under the configuration in force) *)
(* C15 / C03 invariants evaluated on every state of every validated execution *)
NotBeforeItems == \A i \in 1..Len(items) : items[i].closed > 0 => items[i].openEv < nEv + 1
NothingLeftItems == \A i \in 1..Len(items) :
                        (~alive[items[i].thr] \/ gen[items[i].thr] # items[i].gen) => items[i].closed = 1
TraceInvariant == ExactlyOnce /\ ClosedWhenInvocationEnds /\ SameThread /\ NothingLeftItems

INSTANCE TraceCommon
=============================================================================

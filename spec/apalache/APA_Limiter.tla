---- MODULE APA_Limiter ----
(* Apalache wrapper for Limiter: an INDUCTIVE invariant that implies CountBound for any number of hits and any    *)
(* clock value (the TLC runs bound both). Checked in two steps:                                                   *)
(*   apalache-mc check --cinit=CInit --init=Init    --inv=IndInv --length=0   (Init => IndInv)                    *)
(*   apalache-mc check --cinit=CInit --init=IndInit --inv=IndInv --length=1   (IndInv /\ Next => IndInv')         *)
(*   ... the second step again with --next=NextSetBack (the wall clock may be set back: Limiter!SetBack)           *)
(* With --cinit=CInitDeviation (the pre-fix non-atomic check/record) the second step must FAIL.                   *)
EXTENDS Integers, Sequences, FiniteSets, Apalache
CONSTANTS
  \* @type: Set(Int);
  Threads,
  \* @type: Int;
  MaxNow,
  \* @type: Int;
  MaxHits,
  \* @type: Int;
  MaxJump,
  \* @type: Set({ck: Str, cv: Int, pk: Str, pv: Int, ws: Int, we: Int, cm: Str});
  Configs,
  \* @type: Int;
  DefaultPeriod,
  \* @type: Bool;
  Atomic,
  \* @type: Bool;
  ReinstallResets
VARIABLES
  \* @type: {ck: Str, cv: Int, pk: Str, pv: Int, ws: Int, we: Int, cm: Str};
  cfg,
  \* @type: Int;
  now,
  \* @type: Int;
  count,
  \* @type: Int;
  last,
  \* @type: Int -> Str;
  pc,
  \* @type: Int -> Int;
  ts,
  \* @type: Int -> Str;
  cond,
  \* @type: Seq(Int);
  fires,
  \* @type: Int;
  hits,
  \* @type: Int -> Str;
  outcome
INSTANCE Limiter
(* Apalache: unbounded clock and hit count (1000), 2 threads, a few settings; `Atomic` chosen by the caller *)
BaseCfgs == {[ck |-> "int", cv |-> 2, pk |-> "int", pv |-> 1, ws |-> 0, we |-> 0, cm |-> "expr"],
             [ck |-> "int", cv |-> 1, pk |-> "int", pv |-> 0, ws |-> 0, we |-> 0, cm |-> "none"],
             [ck |-> "bad", cv |-> 0, pk |-> "absent", pv |-> 0, ws |-> 2, we |-> 0, cm |-> "blank"],
             [ck |-> "int", cv |-> 0, pk |-> "int", pv |-> 3, ws |-> 0, we |-> 5, cm |-> "expr"]}
CInit == /\ Threads = {1, 2} /\ MaxNow = 1000 /\ MaxHits = 1000 /\ MaxJump = 1000 /\ DefaultPeriod = 2 /\ Atomic = TRUE
         /\ Configs = BaseCfgs /\ ReinstallResets = FALSE
CInitDeviation == /\ Threads = {1, 2} /\ MaxNow = 1000 /\ MaxHits = 1000 /\ MaxJump = 1000 /\ DefaultPeriod = 2
                  /\ Atomic = FALSE /\ Configs = BaseCfgs /\ ReinstallResets = FALSE
InCollect == {t \in Threads : pc[t] \in {"collect"}}
TypeInit ==
          /\ cfg \in Configs
          /\ now \in 1..MaxNow /\ hits \in 0..MaxHits /\ count \in 0..MaxHits /\ last \in 0..MaxNow
          /\ pc \in [Threads -> {"idle", "arrived", "cond", "reserve", "collect", "exit"}]
          /\ ts \in [Threads -> 0..MaxNow]
          /\ cond \in [Threads -> {"none", "blank", "true", "false", "raises"}]
          /\ outcome \in [Threads -> {"none", "pending", "limited", "rejected", "collected"}]
          /\ fires = Gen(4)
IndInv == /\ cfg \in Configs
          /\ now \in 1..MaxNow /\ hits \in 0..MaxHits /\ count \in 0..MaxHits /\ last \in 0..MaxNow
          /\ pc \in [Threads -> {"idle", "arrived", "cond", "reserve", "collect", "exit"}]
          /\ ts \in [Threads -> 0..MaxNow]
          /\ cond \in [Threads -> {"none", "blank", "true", "false", "raises"}]
          /\ outcome \in [Threads -> {"none", "pending", "limited", "rejected", "collected"}]
          /\ Len(fires) <= MaxHits
          /\ count = Len(fires) + Cardinality(InCollect)
          /\ (EffCount # -1 => count <= (IF EffCount < 0 THEN 0 ELSE EffCount))
IndInit == TypeInit /\ IndInv
====

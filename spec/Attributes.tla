----------------------------- MODULE Attributes -----------------------------
(***************************************************************************)
(* C18 (container part): the bounded attribute store.                      *)
(* Code: BoundedAttributes.__setitem__ / __delitem__ / merge_in /          *)
(* _immutable, _clean_attribute / _clean_attribute_value.                  *)
(*                                                                         *)
(* Keys and values are abstracted to the classes the cleaning rules        *)
(* distinguish; Clean says what is stored for a value class (or "reject"). *)
(***************************************************************************)
EXTENDS Naturals, Sequences, FiniteSets, TLC

CONSTANTS Caps,       \* capacities to explore: numbers, and NoCap for "unbounded"
          NoCap,
          MaxOps,
          GoodKeys    \* valid (non-empty string) keys

BadKeys == {"empty_key", "nonstr_key"}
ValueClasses == {"short_str", "long_str", "int", "bool", "float", "bytes_ok", "bytes_bad", "seq_same", "seq_none",
                 "seq_mixed", "seq_badtype", "dict_value", "none_value",
                 "zero_int", "false_bool", "empty_str", "empty_seq",      \* valid values that happen to be falsy
                 "seq_long", "seq_bytes",                                \* sequences whose ELEMENTS need cleaning
                 "tup_same", "tup_long", "tup_bytes",                    \* the same, given as a tuple already
                 "bytes_long", "seq_bytes_long"}     \* non-ASCII text given as bytes, longer than the limit: decoded
                                                     \* first, then cut - the limit counts CHARACTERS

Clean(vc) ==
    CASE vc \in {"short_str", "int", "bool", "float", "zero_int", "false_bool", "empty_str"} -> vc
      [] vc = "empty_seq" -> "empty_tuple"
      [] vc = "long_str" -> "cut_str"              \* cut to the value length limit
      [] vc = "bytes_ok" -> "decoded_str"
      [] vc = "bytes_long" -> "decoded_cut_str"
      [] vc = "seq_bytes_long" -> "tuple_decoded_cut"
      [] vc \in {"seq_same", "tup_same"} -> "tuple_same"
      [] vc \in {"seq_long", "tup_long"} -> "tuple_cut"            \* every element cut to the value length limit
      [] vc \in {"seq_bytes", "tup_bytes"} -> "tuple_decoded"      \* every element decoded
      [] vc = "seq_none" -> "tuple_with_none"
      [] OTHER -> "reject"                         \* undecodable bytes, mixed / invalid sequences, invalid types, None

VARIABLES cap, d, dropped, frozen, nops, lastRaised, evicted, zdrops

vars == <<cap, d, dropped, frozen, nops, lastRaised, evicted, zdrops>>

InitWith(c) == cap = c /\ zdrops = 0 /\ d = <<>> /\ dropped = 0 /\ frozen = FALSE /\ nops = 0 /\ lastRaised = FALSE /\ evicted = <<>>

Init == \E c \in Caps : InitWith(c)

Keys(s) == {s[i].k : i \in 1..Len(s)}
Without(s, key) == SelectSeq(s, LAMBDA e : e.k # key)
Op == nops < MaxOps /\ nops' = nops + 1

Set(key, vc) ==
    /\ Op
    /\ IF frozen
         THEN lastRaised' = TRUE /\ UNCHANGED <<d, dropped, evicted, zdrops>>
         ELSE /\ lastRaised' = FALSE
              /\ IF cap # NoCap /\ cap = 0
                   THEN dropped' = dropped + 1 /\ zdrops' = zdrops + 1 /\ UNCHANGED <<d, evicted>>
                   ELSE /\ UNCHANGED zdrops
                        /\ IF key \in BadKeys \/ Clean(vc) = "reject"
                             THEN UNCHANGED <<d, dropped, evicted>>
                             ELSE IF key \in Keys(d)
                               THEN /\ d' = Append(Without(d, key), [k |-> key, v |-> Clean(vc)])   \* moves to the end
                                    /\ UNCHANGED <<dropped, evicted>>
                               ELSE IF cap # NoCap /\ Len(d) = cap
                                 THEN /\ d' = Append(Tail(d), [k |-> key, v |-> Clean(vc)])          \* oldest first
                                      /\ dropped' = dropped + 1
                                      /\ evicted' = Append(evicted, Head(d).k)
                                 ELSE /\ d' = Append(d, [k |-> key, v |-> Clean(vc)])
                                      /\ UNCHANGED <<dropped, evicted>>
    /\ UNCHANGED <<cap, frozen>>

Del(key) ==
    /\ Op
    /\ IF frozen \/ key \notin Keys(d)
         THEN lastRaised' = TRUE /\ UNCHANGED d
         ELSE lastRaised' = FALSE /\ d' = Without(d, key)
    /\ UNCHANGED <<cap, dropped, frozen, evicted, zdrops>>

Freeze == Op /\ ~frozen /\ frozen' = TRUE /\ lastRaised' = FALSE /\ UNCHANGED <<cap, d, dropped, evicted, zdrops>>

Next == (\E key \in GoodKeys \cup BadKeys, vc \in ValueClasses : Set(key, vc))
        \/ (\E key \in GoodKeys : Del(key)) \/ Freeze \/ (nops = MaxOps /\ UNCHANGED vars)

Spec == Init /\ [][Next]_vars

(* C18 *)
WithinCapacity == cap # NoCap => Len(d) <= cap
OnlyCleanValues == \A i \in 1..Len(d) : d[i].v # "reject" /\ d[i].k \in GoodKeys
KeysUnique == \A i, j \in 1..Len(d) : d[i].k = d[j].k => i = j
(* every eviction (oldest first) and every set on a zero-capacity container is counted, nothing else is *)
EveryDropCounted == dropped = Len(evicted) + zdrops
FrozenRejectsAll == [][frozen => (d' = d /\ dropped' = dropped)]_vars
=============================================================================

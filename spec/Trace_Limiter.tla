--------------------------- MODULE Trace_Limiter ---------------------------
(***************************************************************************)
(* Validates recorded executions of the real limiter against Limiter.      *)
(* A trace = header record [cfg, threads] followed by events:              *)
(*   [ev |-> "Tick", now]            the virtual clock was moved           *)
(*   [ev |-> "Arrive", t, cond, ts]  TriggerContext created for a hit      *)
(*   [ev |-> "CanStart", t]          ActionContext.can_trigger entered     *)
(*   [ev |-> "CanEnd", t, res]       ... returned res                      *)
(*   [ev |-> "Process", t, pushed]   ActionContext.process returned        *)
(*   [ev |-> "Exit", t]              ActionContext.__exit__ returned       *)
(*   [ev |-> "Quiet", count, last, pushes]  all threads idle: stats read   *)
(* can_trigger spans PreCheck/EvalCond/Reserve; they are internal steps of *)
(* a thread whose can_trigger call is open (start logged, end not yet).    *)
(***************************************************************************)
EXTENDS Limiter, Json, IOUtils, TLCExt

VARIABLES tid, l, open

TraceLog == JsonDeserialize(IOEnv.TRACE_FILE)

tvars == <<vars, tid, l, open>>

T == TraceLog[tid]
E == T[l]

TraceInit ==
    /\ tid \in 1..Len(TraceLog)
    /\ TLCSet(tid, 0)
    /\ l = 2
    /\ open = [t \in Threads |-> FALSE]
    /\ InitWith(TraceLog[tid][1].cfg)

Live == l <= Len(T)

Consume == l' = l + 1 /\ UNCHANGED tid

\* (the clock belongs to the driver: it advances, or - Limiter!SetBack - is set back)
TrTick == Live /\ E.ev = "Tick" /\ (Advance(E.now) \/ SetBackTo(E.now)) /\ Consume /\ UNCHANGED open

TrArrive ==
    /\ Live /\ E.ev = "Arrive" /\ Arrive(E.t, E.cond) /\ E.ts = now
    /\ open' = [open EXCEPT ![E.t] = TRUE]
    /\ Consume

TrCanStart == Live /\ E.ev = "CanStart" /\ open[E.t] /\ pc[E.t] = "arrived" /\ Consume /\ UNCHANGED <<vars, open>>

(* PreCheck / EvalCond / Reserve are internal steps of a thread whose hit is in flight: the code performs them *)
(* somewhere between the entry of can_trigger and the start of the collection, the trace only sees outcomes.  *)
TrInternal ==
    /\ \E t \in Threads :
         /\ open[t]
         /\ PreCheck(t) \/ EvalCond(t) \/ Reserve(t)
    /\ UNCHANGED <<tid, l, open>>

TrCanEnd ==
    /\ Live /\ E.ev = "CanEnd" /\ open[E.t]
    /\ IF E.res THEN /\ pc[E.t] \in {"reserve", "collect"}
                     /\ UNCHANGED open
                ELSE /\ pc[E.t] = "idle"
                     /\ open' = [open EXCEPT ![E.t] = FALSE]
    /\ Consume /\ UNCHANGED vars

(* process() returned; pushed says whether this thread delivered a snapshot during it *)
TrProcess ==
    /\ Live /\ E.ev = "Process" /\ open[E.t]
    /\ IF E.pushed THEN Collect(E.t)
                   ELSE pc[E.t] = "idle" /\ UNCHANGED vars
    /\ open' = [open EXCEPT ![E.t] = FALSE]
    /\ Consume

TrExit ==
    /\ Live /\ E.ev = "Exit" /\ ~open[E.t]
    /\ IF pc[E.t] = "exit" THEN Exit(E.t) ELSE pc[E.t] = "idle" /\ UNCHANGED vars
    /\ Consume /\ UNCHANGED open

TrQuiet ==
    /\ Live /\ E.ev = "Quiet"
    /\ \A t \in Threads : pc[t] = "idle"
    /\ count = E.count /\ last = E.last /\ Len(fires) = E.pushes
    /\ Consume /\ UNCHANGED <<vars, open>>

(* the service sent a new configuration with this tracepoint unchanged in it (the driver does so between two hits) *)
TrReinstall == Live /\ E.ev = "Reinstall" /\ Reinstall /\ Consume /\ UNCHANGED open

TraceNext == TrReinstall \/ TrTick \/ TrArrive \/ TrCanStart \/ TrInternal \/ TrCanEnd \/ TrProcess \/ TrExit \/ TrQuiet

INSTANCE TraceCommon
=============================================================================

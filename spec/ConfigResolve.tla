---------------------------- MODULE ConfigResolve ----------------------------
(***************************************************************************)
(* C19: configuration lookup precedence, code/environment equivalence of   *)
(* the documented settings, and application-frame classification.          *)
(*                                                                         *)
(* Code: ConfigService.__getattribute__ (own attribute -> custom dict ->   *)
(* deep.config module -> DEEP_<KEY> environment variable), deep/config/    *)
(* __init__.py (module defaults read from the environment at import),      *)
(* ConfigService.is_app_frame, FrameCollector.parse_short_name, the        *)
(* consumers LongPoll.start / RepeatedTimer (POLL_TIMER), GRPCService.start*)
(* (SERVICE_SECURE), AuthProvider.get_provider / BasicAuthProvider.        *)
(*                                                                         *)
(* Four decision tables; each case is one initial state that carries its  *)
(* expected outcome, TLC enumerates them and the harness turns every state *)
(* into a run of the real code.                                            *)
(***************************************************************************)
EXTENDS Naturals, Sequences, FiniteSets, TLC

VARIABLES table, case, expected
vars == <<table, case, expected>>

(* ---- 1. lookup precedence ---- *)
(* a value supplied as a function: a plain function ("callable"), a bound method, a functools.partial *)
Funcs == {"callable", "method", "partial"}
LookupCases == [key : {"documented", "unknown"}, code : {"absent", "none", "value"} \cup Funcs, env : {"absent", "text"}]
Lookup(c) ==
    IF c.code = "value" THEN "code"
    ELSE IF c.code \in Funcs THEN "code_called"
    ELSE IF c.key = "documented" THEN (IF c.env = "text" THEN "env_text" ELSE "default")
    ELSE IF c.env = "text" THEN "env_text" ELSE "absent"

(* ---- 2. application frames ---- *)
(* a path is a sequence of segments; prefixes are sequences too *)
Segs == {"a", "b"}
Paths == UNION {[1..n -> Segs] : n \in 1..3}
Prefixes == UNION {[1..n -> Segs] : n \in 1..2}
IsPrefix(p, f) == Len(p) <= Len(f) /\ \A i \in 1..Len(p) : p[i] = f[i]
PathCases == [file : Paths, inc : SUBSET {<<"a">>, <<"b", "a">>}, exc : SUBSET {<<"a", "b">>, <<"b">>},
              root : {<<"a">>, <<"b", "b">>}]
(* exclusion wins; then include; then the application root *)
(* the short path: the file name with the matched prefix removed - once, at the front *)
Rest(p, f) == SubSeq(f, Len(p) + 1, Len(f))
The(S, f) == CHOOSE p \in S : IsPrefix(p, f)
IsApp(c) ==
    IF \E p \in c.exc : IsPrefix(p, c.file) THEN [app |-> FALSE, by |-> "exclude", short |-> Rest(The(c.exc, c.file), c.file)]
    ELSE IF \E p \in c.inc : IsPrefix(p, c.file) THEN [app |-> TRUE, by |-> "include", short |-> Rest(The(c.inc, c.file), c.file)]
    ELSE IF IsPrefix(c.root, c.file) THEN [app |-> TRUE, by |-> "root", short |-> Rest(c.root, c.file)]
    ELSE [app |-> FALSE, by |-> "none", short |-> c.file]

(* ---- 3. the documented settings behave the same from code and from the environment ---- *)
Settings == {"POLL_TIMER", "SERVICE_SECURE_false", "SERVICE_SECURE_true", "IN_APP_INCLUDE", "IN_APP_EXCLUDE",
             "AUTH_BASIC", "SERVICE_URL", "APP_ROOT",
             \* lists with an empty element (a trailing comma) or set but empty: an empty element names no prefix at all
             "IN_APP_EXCLUDE_trailing_comma", "IN_APP_INCLUDE_empty", "IN_APP_EXCLUDE_empty",
             \* the switch that keeps the agent from installing its trace hooks, said both ways (False / "false" is NOT "yes")
             "NO_TRACE_false", "NO_TRACE_true"}
Forms == {"code_typed", "code_text", "env_text"}     \* e.g. POLL_TIMER = 0.02 / "0.02" / DEEP_POLL_TIMER=0.02
ConsumerCases == [setting : Settings, form : Forms]
(* the behaviour class is a function of the setting only - never of the form it was given in *)
Behaviour(c) ==
    CASE c.setting = "POLL_TIMER" -> "timer_keeps_firing"
      [] c.setting = "SERVICE_SECURE_false" -> "insecure_channel"
      [] c.setting = "SERVICE_SECURE_true" -> "secure_channel"
      [] c.setting = "IN_APP_INCLUDE" -> "both_prefixes_are_app"
      [] c.setting = "IN_APP_EXCLUDE" -> "both_prefixes_are_excluded"
      [] c.setting = "IN_APP_EXCLUDE_trailing_comma" -> "named_prefix_excluded_rest_of_root_app"
      [] c.setting = "IN_APP_INCLUDE_empty" -> "only_root_is_app"
      [] c.setting = "IN_APP_EXCLUDE_empty" -> "all_of_root_is_app"
      [] c.setting = "AUTH_BASIC" -> "basic_authorization_metadata"
      [] c.setting = "SERVICE_URL" -> "channel_to_that_url"
      [] c.setting = "APP_ROOT" -> "root_prefix_is_app"
      [] c.setting = "NO_TRACE_false" -> "hooks_installed"
      [] c.setting = "NO_TRACE_true" -> "hooks_untouched"

(* ---- 4. the application root as deep.start() settles it ---- *)
(* given in code; else DEEP_APP_ROOT; else computed from the file of the code that called deep.start() *)
RootCases == [code : {"absent", "value"}, env : {"absent", "text"}]
Root(c) == IF c.code = "value" THEN "code" ELSE IF c.env = "text" THEN "env_text" ELSE "computed"

(* ---- 5. several agents configured one after the other in ONE process: each resolution stands on its own ---- *)
RootSeqCases == UNION {[1..n -> RootCases] : n \in 2..3}
RootSeq(q) == [i \in 1..Len(q) |-> Root(q[i])]

Init ==
    \/ table = "root" /\ case \in RootCases /\ expected = [src |-> Root(case)]
    \/ table = "rootseq" /\ case \in RootSeqCases /\ expected = [src |-> RootSeq(case)]
    \/ table = "lookup" /\ case \in LookupCases /\ expected = [src |-> Lookup(case)]
    \/ table = "path" /\ case \in PathCases /\ expected = IsApp(case)
    \/ table = "consumer" /\ case \in ConsumerCases /\ expected = [behaviour |-> Behaviour(case)]

Next == UNCHANGED vars
Spec == Init /\ [][Next]_vars

(* C19 *)
CodeWins == table = "lookup" /\ case.code \in {"value"} \cup Funcs => expected.src \in {"code", "code_called"}
FunctionsAreCalled == table = "lookup" /\ case.code \in Funcs => expected.src = "code_called"
ShortIsSuffix == table = "path" => \E p \in Prefixes \cup {<<>>} : p \o expected.short = case.file
EnvBacksDocumented == (table = "lookup" /\ case.code \in {"absent", "none"} /\ case.env = "text") => expected.src = "env_text"
AbsentOtherwise == (table = "lookup" /\ case.key = "unknown" /\ case.code \in {"absent", "none"} /\ case.env = "absent")
                      => expected.src = "absent"
ExclusionWins == (table = "path" /\ \E p \in case.exc : IsPrefix(p, case.file)) => ~expected.app
AppIffIncludedOrRoot == (table = "path" /\ ~(\E p \in case.exc : IsPrefix(p, case.file))) =>
                            (expected.app <=> ((\E p \in case.inc : IsPrefix(p, case.file)) \/ IsPrefix(case.root, case.file)))
RootCodeWins == (table = "root" /\ case.code = "value") => expected.src = "code"
(* what one start resolved is not changed by, and does not change, what another start in the same process resolves *)
EachStartOnItsOwn == table = "rootseq" => \A i \in 1..Len(case) : expected.src[i] = Root(case[i])
SameEitherWay == table = "consumer" => \A f \in Forms : Behaviour([setting |-> case.setting, form |-> f]) = expected.behaviour
=============================================================================

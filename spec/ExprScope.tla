----------------------------- MODULE ExprScope -----------------------------
(***************************************************************************)
(* C10 (second half): what an expression evaluated for a tracepoint can    *)
(* see, and what a failing expression costs.                               *)
(*                                                                         *)
(* Code: TriggerContext.evaluate_expression and its five call sites        *)
(*   condition  ActionContext.can_trigger                                  *)
(*   watch      ActionContext.eval_watch (snapshot watches)                *)
(*   logfield   LogActionContext.process_log / FormatExtractor.get_field   *)
(*   metric     MetricActionContext._process_metric (value expression)     *)
(*   label      MetricActionContext._process_metric (label expression)     *)
(*                                                                         *)
(* The case space is small and has no dynamics, so each case is one        *)
(* initial state carrying its expected outcome; TLC enumerates the table,  *)
(* checks the invariants on it, and the harness turns every state into one *)
(* test of the real evaluator (see harness/checks/c10.py).                 *)
(***************************************************************************)
EXTENDS Naturals, TLC

NameClass == {"local", "hostglobal", "builtin", "shadow_lg", "shadow_gb", "agentonly", "undefined",
              \* the name is used inside a nested scope of the expression (a lambda, a generator expression): it is still
              \* the name visible at the paused line - the local, also when a global of the same name exists
              "local_nested", "shadow_nested",
              \* the expression asks locals() itself (`'x' in locals()`): the paused frame's locals, and nothing else
              "via_locals"}
Site      == {"condition", "watch", "logfield", "metric", "label"}
Wrap      == {"plain", "padded",         \* padded: the same text with blanks/tabs in front (valid for eval: same outcome)
              "raises_exception", "raises_baseexception",
              "syntax_error",                        \* text that is not an expression at all (`x =` for `x ==`)
              "raises_true_text", "raises_t_text"}   \* failures whose message reads like a truth value ("true") or merely
                                                     \* begins like one ("tuple index out of range"): still failures
Neighbour == {"none", "ok_before", "ok_after"}   \* another expression of the same kind on the same tracepoint
Frame     == {"function", "classbody"}           \* what kind of code the paused line belongs to: a class body has a
                                                 \* namespace of its own too (its "locals" are the class attributes so far)

VARIABLES case, expected
vars == <<case, expected>>

(* Python name resolution at the paused line: locals, then the frame's module globals, then builtins. *)
Resolve(nc) ==
    CASE nc = "local"      -> "L"
      [] nc = "hostglobal" -> "G"
      [] nc = "builtin"    -> "B"
      [] nc = "shadow_lg"  -> "L"
      [] nc = "local_nested" -> "L"
      [] nc = "shadow_nested" -> "L"
      [] nc = "via_locals" -> "L"
      [] nc = "shadow_gb"  -> "G"
      [] nc = "agentonly"  -> "ERR"      \* names of the agent's own modules are not in scope
      [] nc = "undefined"  -> "ERR"

Healthy == {"plain", "padded"}
Outcome(c) ==
    IF c.wrap \notin Healthy THEN "ERR" ELSE Resolve(c.nc)

(* what the site shows for an outcome *)
Shown(c) ==
    LET o == Outcome(c) IN
    CASE c.site = "condition" -> [fires |-> o # "ERR", src |-> o]   \* gates EVERY action of the tracepoint (its metric too)
      [] c.site = "watch"     -> [fires |-> TRUE, src |-> o]      \* value from src, or an error result
      [] c.site = "logfield"  -> [fires |-> TRUE, src |-> o]      \* text of the value, or error text in place
      [] c.site = "metric"    -> [fires |-> TRUE, src |-> o]      \* numeric value, or 1
      [] c.site = "label"     -> [fires |-> TRUE, src |-> o]      \* text of the value, or an error text

Nested == {"local_nested", "shadow_nested"}
(* the class-body frame is explored with the name classes Python itself resolves there (code nested in an expression of a
   class body does not see the class namespace), healthy and failing, without a neighbour *)
Cases == {c \in [nc : NameClass, site : Site, wrap : Wrap, nb : Neighbour, frame : Frame] :
             c.frame = "classbody" => /\ c.nc \notin Nested
                                      /\ c.wrap \in {"plain", "padded", "raises_exception"}
                                      /\ c.nb = "none"}

Init == /\ case \in Cases
        /\ expected = Shown(case)

Next == UNCHANGED vars

(* nothing of the agent's own is visible *)
AgentInvisible == case.nc = "agentonly" => expected.src = "ERR"
(* the paused frame's locals and its module's globals are visible, locals first *)
FrameScope == /\ (case.wrap \in Healthy /\ case.nc \in {"local", "shadow_lg", "local_nested", "shadow_nested", "via_locals"}) => expected.src = "L"
              /\ (case.wrap \in Healthy /\ case.nc \in {"hostglobal", "shadow_gb"}) => expected.src = "G"
              /\ (case.wrap \in Healthy /\ case.nc = "builtin") => expected.src = "B"
(* a failing condition rejects the hit; a failing expression elsewhere never suppresses the action *)
FailureIsLocal == /\ (expected.src = "ERR" /\ case.site = "condition") => ~expected.fires
                  /\ case.site # "condition" => expected.fires
=============================================================================

---------------------------- MODULE MC_Limiter ----------------------------
(* Model-checking instance of Limiter: the settings grid as a definition (records cannot be written in a cfg). *)
EXTENDS Limiter

MCConfigsFull ==
    [ck : {"int"}, cv : {-2, -1, 0, 1, 2}, pk : {"int"}, pv : {0, 1, 2}, ws : {0}, we : {0}, cm : {"expr"}]
      \cup [ck : {"bad", "absent"}, cv : {0}, pk : {"bad", "absent"}, pv : {0}, ws : {0}, we : {0}, cm : {"expr"}]
      \cup [ck : {"int"}, cv : {-1, 2}, pk : {"int"}, pv : {0, 1}, ws : {0, 2}, we : {0, 3}, cm : {"none"}]
      \cup [ck : {"num"}, cv : {0, 1, 2}, pk : {"num"}, pv : {0, 1}, ws : {0}, we : {0}, cm : {"none", "expr"}]
      \cup [ck : {"odd", "int"}, cv : {-1}, pk : {"odd"}, pv : {0}, ws : {0}, we : {0}, cm : {"none"}]
      \cup [ck : {"odd"}, cv : {0}, pk : {"absent", "int"}, pv : {0}, ws : {0}, we : {0}, cm : {"none"}]

MCConfigsSmall ==
    [ck : {"int"}, cv : {-2, -1, 1, 2}, pk : {"int"}, pv : {0, 2}, ws : {0}, we : {0}, cm : {"expr"}]
      \cup [ck : {"num"}, cv : {0, 2}, pk : {"num"}, pv : {0}, ws : {0}, we : {0}, cm : {"none"}]     \* numbers, also zero
      \cup {[ck |-> "int", cv |-> -1, pk |-> "int", pv |-> 1, ws |-> 2, we |-> 3, cm |-> "blank"],
            [ck |-> "bad", cv |-> 0, pk |-> "absent", pv |-> 0, ws |-> 0, we |-> 0, cm |-> "none"],
            [ck |-> "absent", cv |-> 0, pk |-> "bad", pv |-> 0, ws |-> 0, we |-> 0, cm |-> "none"],
            [ck |-> "bad", cv |-> 0, pk |-> "bad", pv |-> 0, ws |-> 0, we |-> 0, cm |-> "none"],
            [ck |-> "int", cv |-> -1, pk |-> "bad", pv |-> 0, ws |-> 0, we |-> 0, cm |-> "none"],
            \* "odd": given in code as something that is no number at all (None, a list, infinity): the default, like "bad"
            [ck |-> "odd", cv |-> 0, pk |-> "absent", pv |-> 0, ws |-> 0, we |-> 0, cm |-> "none"],
            [ck |-> "int", cv |-> -1, pk |-> "odd", pv |-> 0, ws |-> 0, we |-> 0, cm |-> "none"]}

(* condition-heavy settings (C10) *)
MCConfigsCond ==
    [ck : {"int"}, cv : {-1, 1, 2}, pk : {"int"}, pv : {0, 1}, ws : {0}, we : {0}, cm : {"none", "blank", "expr"}]

(* settings under which a clock set back (Limiter!SetBack) matters: periods, a window, counts *)
MCConfigsSetBack ==
    [ck : {"int"}, cv : {-1, 2}, pk : {"int"}, pv : {0, 1, 2}, ws : {0}, we : {0}, cm : {"none"}]
      \cup {[ck |-> "int", cv |-> -1, pk |-> "int", pv |-> 1, ws |-> 2, we |-> 3, cm |-> "none"],
            [ck |-> "absent", cv |-> 0, pk |-> "absent", pv |-> 0, ws |-> 0, we |-> 0, cm |-> "expr"],
            [ck |-> "int", cv |-> 3, pk |-> "absent", pv |-> 0, ws |-> 0, we |-> 0, cm |-> "none"]}

(* the single setting in which the pre-fix race is shortest to show *)
MCConfigsRace == {[ck |-> "int", cv |-> 1, pk |-> "int", pv |-> 0, ws |-> 0, we |-> 0, cm |-> "none"]}
=============================================================================

--------------------------- MODULE Trace_Ambient ---------------------------
(***************************************************************************)
(* Validates recorded runs: a trace = header [facets] followed by          *)
(*   [ev |-> "host",  facet, changed]   the program changed one facet      *)
(*   [ev |-> "agent", features, changed] a hit handled by the real agent   *)
(* `changed` = the facets whose fingerprint differs before/after the step  *)
(* (measured by the harness). A host step must change exactly its facet    *)
(* (otherwise the fingerprint is blind: the trace is rejected as useless), *)
(* an agent step must change nothing.                                      *)
(***************************************************************************)
EXTENDS Ambient, Json, IOUtils, TLCExt

VARIABLES tid, l

TraceLog == JsonDeserialize(IOEnv.TRACE_FILE)
T == TraceLog[tid]
E == T[l]
Live == l <= Len(T)
SeqToSet(q) == {q[i] : i \in 1..Len(q)}

TraceInit == tid \in 1..Len(TraceLog) /\ TLCSet(tid, 0) /\ l = 2 /\ Init

TrHost ==
    /\ Live /\ E.ev = "host" /\ E.facet \in Facets
    /\ HostStep(E.facet)
    /\ SeqToSet(E.changed) = {f \in Facets : amb'[f] # amb[f]}
    /\ l' = l + 1 /\ UNCHANGED tid

TrAgent ==
    /\ Live /\ E.ev = "agent"
    /\ AgentStep(SeqToSet(E.features) \cap Features)
    /\ SeqToSet(E.changed) = {f \in Facets : amb'[f] # amb[f]}
    /\ l' = l + 1 /\ UNCHANGED tid

TraceNext == TrHost \/ TrAgent
TraceInvariant == AgentLeavesAmbientStateAlone

INSTANCE TraceCommon
=============================================================================

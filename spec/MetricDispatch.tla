--------------------------- MODULE MetricDispatch ---------------------------
(***************************************************************************)
(* C17: a metric tracepoint reports each defined metric once per permitted *)
(* hit to every active metric processor.                                   *)
(*                                                                         *)
(* Code: MetricActionContext.can_trigger / _process_action /               *)
(* _process_metric / _convert_type, grpc.__convert_metric_definition /     *)
(* convert_label_expressions / __convert_static_value, ConfigService       *)
(* .metric_processors / has_metric_processor.                              *)
(*                                                                         *)
(* The environment builds a tracepoint (AddDef / AddLabel), chooses how    *)
(* many processors are active at the first hit (Hit1) and then all         *)
(* processors are active for a second hit (Hit2). The tracepoint has       *)
(* fire_count = 1, so the second hit reports only if the first one used no *)
(* budget.                                                                 *)
(***************************************************************************)
EXTENDS Naturals, Sequences, FiniteSets, TLC

(* A metric is identified by namespace + name + type: the definitions of one tracepoint may share a NAME and are   *)
(* still separate metrics, each reported (the harness gives definitions that differ in type or namespace one name). *)
CONSTANTS MaxDefs, MaxLabels, MaxProcs,
          Rich      \* TRUE: all value classes; FALSE: reduced grid

Types == IF Rich THEN {"COUNTER", "GAUGE", "HISTOGRAM", "SUMMARY"} ELSE {"COUNTER", "HISTOGRAM"}
ExprKinds == IF Rich THEN {"absent", "numeric", "numeric_text", "bool", "non_numeric", "raises", "zero"}
             ELSE {"absent", "numeric", "raises", "zero"}      \* zero: the expression evaluates to exactly 0
LabelKinds == IF Rich THEN {"static_str", "static_int", "static_bool", "expr_ok", "expr_raises",
                            "static_zero", "static_false"}     \* static values that happen to be falsy (0, False)
              ELSE {"static_str", "expr_ok", "expr_raises"}
Opt == {"absent", "given"}

VARIABLES defs,    \* metric definitions in order: [type, ns, help, unit, expr, labels]
          phase,   \* "build" | "hit1" | "hit2" | "end"
          procs1,  \* processors active at the first hit
          calls,   \* calls[h][p] = sequence of calls processor p received during hit h
          budget   \* fires recorded by the tracepoint's action

vars == <<defs, phase, procs1, calls, budget>>

Init == defs = <<>> /\ phase = "build" /\ procs1 = 0 /\ calls = <<>> /\ budget = 0

AddDef(t, ns, hp, un, ex) ==
    /\ phase = "build" /\ Len(defs) < MaxDefs
    /\ defs' = Append(defs, [type |-> t, ns |-> ns, help |-> hp, unit |-> un, expr |-> ex, labels |-> <<>>])
    /\ UNCHANGED <<phase, procs1, calls, budget>>

AddLabel(kd) ==
    /\ phase = "build" /\ defs # <<>> /\ Len(defs[Len(defs)].labels) < MaxLabels
    /\ defs' = [defs EXCEPT ![Len(defs)].labels = Append(@, kd)]
    /\ UNCHANGED <<phase, procs1, calls, budget>>

(* what one processor receives for one definition *)
Op(d) == CASE d.type = "COUNTER" -> "counter" [] d.type = "GAUGE" -> "gauge"
           [] d.type = "HISTOGRAM" -> "histogram" [] d.type = "SUMMARY" -> "summary"
ValueClass(d) == IF d.expr \in {"numeric", "numeric_text", "bool", "zero"} THEN d.expr ELSE "one"
LabelClass(kd) == IF kd = "expr_raises" THEN "error_text" ELSE kd
CallFor(i) == LET d == defs[i] IN
    [def |-> i, op |-> Op(d), ns |-> IF d.ns = "absent" THEN "deep" ELSE "given", help |-> d.help, unit |-> d.unit,
     value |-> ValueClass(d), labels |-> [j \in 1..Len(d.labels) |-> LabelClass(d.labels[j])]]
AllCalls == [i \in 1..Len(defs) |-> CallFor(i)]

Hit(h, n) ==
    \* n processors active: each gets one call per definition, in definition order, unless the budget is used up
    LET fires == n > 0 /\ budget < 1
    IN /\ calls' = Append(calls, [p \in 1..n |-> IF fires THEN AllCalls ELSE <<>>])
       /\ budget' = IF fires THEN budget + 1 ELSE budget

Hit1(n) == phase = "build" /\ defs # <<>> /\ n \in 0..MaxProcs /\ procs1' = n /\ Hit(1, n) /\ phase' = "hit1"
           /\ UNCHANGED defs
Hit2 == phase = "hit1" /\ Hit(2, MaxProcs) /\ phase' = "end" /\ UNCHANGED <<defs, procs1>>

Next ==
    \/ \E t \in Types, ns \in Opt, hp \in Opt, un \in Opt, ex \in ExprKinds : AddDef(t, ns, hp, un, ex)
    \/ \E kd \in LabelKinds : AddLabel(kd)
    \/ \E n \in 0..MaxProcs : Hit1(n)
    \/ Hit2
    \/ (phase = "end" /\ UNCHANGED vars)

Spec == Init /\ [][Next]_vars

(* C17 *)
OncePerDefPerProcessor ==
    \A h \in 1..Len(calls) : \A p \in 1..Len(calls[h]) :
        calls[h][p] = <<>> \/ (Len(calls[h][p]) = Len(defs) /\ \A i \in 1..Len(defs) : calls[h][p][i].def = i)
NoProcessorNoBudget == (phase # "build" /\ procs1 = 0) => (Len(calls) >= 1 => calls[1] = <<>>)
BudgetKeptForLater == (phase = "end" /\ procs1 = 0) => \A p \in 1..MaxProcs : calls[2][p] = AllCalls
BudgetUsedOnce == (phase = "end" /\ procs1 > 0) => \A p \in 1..MaxProcs : calls[2][p] = <<>>
DefaultNamespace == \A i \in 1..Len(defs) : defs[i].ns = "absent" => CallFor(i).ns = "deep"
=============================================================================

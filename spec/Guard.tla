------------------------------- MODULE Guard -------------------------------
(***************************************************************************)
(* C01: no failure inside the agent's event handler reaches the host, and  *)
(* tracing is not silently switched off as a side effect.                  *)
(*                                                                         *)
(* Code: TriggerHandler.trace_call and the sections it runs for one event: *)
(*   Locate        location_from_event                                     *)
(*   MakeContext   TriggerContext(...)                                     *)
(*   RunCallbacks  __process_call_backs (pending spans / deferred sends)   *)
(*   Match         __actions_for_location / at_location                    *)
(*   Action        per matching action: can_trigger, process, exit         *)
(*   Results       TriggerContext.__exit__ (push, log, new callbacks)      *)
(*   PushCallbacks the callback context is pushed on the thread's stack    *)
(* A fault (an Exception or a BaseException raised by agent code, by an    *)
(* evaluated expression or by a plugin) may occur in any section.          *)
(* Deviation OuterUnguarded = TRUE is the pre-fix code: only Action and    *)
(* Results were inside a try/except.                                       *)
(***************************************************************************)
EXTENDS Naturals, Sequences, TLC

CONSTANTS OuterUnguarded,    \* deviation switch
          HasTracepoints     \* whether any tracepoint is installed (no tracepoints: `call` events return None by design)

Sections == <<"Locate", "MakeContext", "RunCallbacks", "Match", "Action", "Results", "PushCallbacks">>
FaultKinds == {"Exception", "BaseException"}

VARIABLES pc,        \* index of the section being run (Len(Sections) + 1 = finished)
          fault,     \* "none" or the kind of fault that occurred in this event
          faultAt,   \* section name where it occurred
          escaped,   \* the handler raised into the interpreter (which re-raises in the host and drops the tracer)
          returned   \* what the handler returned: "pending" | "self" | "none"

vars == <<pc, fault, faultAt, escaped, returned>>

Init == pc = 1 /\ fault = "none" /\ faultAt = "none" /\ escaped = FALSE /\ returned = "pending"

Guarded(sec) == IF OuterUnguarded THEN sec \in {"Action", "Results"} ELSE TRUE

(* the section completes normally *)
Run ==
    /\ pc <= Len(Sections) /\ returned = "pending"
    /\ pc' = pc + 1
    /\ UNCHANGED <<fault, faultAt, escaped, returned>>

(* a fault occurs in the current section: contained by a guard, or it leaves the handler *)
Fault(k) ==
    /\ pc <= Len(Sections) /\ returned = "pending" /\ fault = "none"
    /\ fault' = k /\ faultAt' = Sections[pc]
    /\ IF Guarded(Sections[pc])
         THEN /\ escaped' = FALSE
              /\ returned' = "self"      \* the handler stays installed for the frame
              /\ pc' = Len(Sections) + 1
         ELSE /\ escaped' = TRUE
              /\ returned' = "none"
              /\ pc' = Len(Sections) + 1

Finish ==
    /\ pc = Len(Sections) + 1 /\ returned = "pending"
    /\ returned' = "self"
    /\ UNCHANGED <<pc, fault, faultAt, escaped>>

Next == Run \/ (\E k \in FaultKinds : Fault(k)) \/ Finish \/ (returned # "pending" /\ UNCHANGED vars)

Spec == Init /\ [][Next]_vars

(* C01 *)
NeverEscapes == ~escaped
StaysInstalled == (returned # "pending" /\ HasTracepoints) => returned = "self"
=============================================================================

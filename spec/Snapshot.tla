------------------------------ MODULE Snapshot ------------------------------
(***************************************************************************)
(* C02 (frames, frame_type, watches, tracepoint naming) and the            *)
(* independence half of C06: what the snapshot(s) of ONE trace event look  *)
(* like, for K snapshot tracepoints on the same location.                  *)
(*                                                                         *)
(* Code: SnapshotActionContext._process_action / should_collect_vars,      *)
(* FrameCollector.collect / _process_frame / __time_exceeded,              *)
(* ActionContext.eval_watch, LocationAction.tracepoint,                    *)
(* TriggerContext (per-event state shared by the actions of the event).    *)
(*                                                                         *)
(* A case is chosen by environment actions (AddFrame, AddTp, SetExpire):   *)
(* the paused stack (top first), the frame_type and watches of each        *)
(* tracepoint, and at which frame index the per-trigger time budget runs   *)
(* out. After Hit the machine processes the                                *)
(* actions one after the other (Collect(a)), each walking the stack        *)
(* (one StackFrame per frame).                                             *)
(* SharedTable = TRUE is the named deviation of the pre-fix code: one      *)
(* variable table + identity cache per EVENT, the locals entry deleted     *)
(* from it after unwrapping - the second tracepoint on a line gets an      *)
(* empty top frame and shares the first one's table.                       *)
(*                                                                         *)
(* A second CONFIGURATION in the same process (Reconfigure: the agent is   *)
(* started again with another application root, a second ConfigService)    *)
(* sees the same files: which frames are application frames, and their     *)
(* short paths, follow the configuration in force, not what an earlier     *)
(* one said about the file.  AppFlagMemoised = TRUE is the deviation: the  *)
(* answer per file is remembered across configurations.                    *)
(***************************************************************************)
EXTENDS Naturals, Sequences, FiniteSets, TLC

CONSTANTS MaxDepth,     \* stack depth bound
          MaxActions,   \* tracepoints on the location
          SharedTable,  \* deviation switch
          MaxLives,     \* configurations the same files are seen under (1: no Reconfigure)
          AppFlagMemoised,  \* deviation switch
          SharedTimeBudget, \* deviation switch
          ClsKinds      \* what `self` is in a frame: "none" (a plain function), "C" (an ordinary instance),
                        \*   "E" (an instance that is falsy: an empty container-like object),
                        \*   "H" (an instance whose truth value cannot be taken: __bool__ raises)
                        \* - the frame's class is the class of self whatever self's truth value is

FrameTypes == {"single_frame", "all_frame", "no_frame", "bogus"}
WatchKinds == {"local", "global", "failing"}

VARIABLES stack,     \* sequence of frames, top first: [nl |-> number of locals, cls \in ClsKinds, app |-> BOOLEAN]
          tps,       \* sequence of tracepoints: [ft |-> frame type, w |-> sequence of watch kinds]
          expire,    \* frame index (0-based) from which the time budget is exhausted; MaxDepth = never
          snaps,     \* produced snapshots, one per processed action
          evCached,  \* deviation state: the locals mappings already in the per-event cache (frame indexes)
          next,      \* index of the next action to process
          phase,     \* "build" while the case is being chosen (environment), "run" while the agent handles the event
          life,      \* which configuration is in force (1..MaxLives)
          flipped    \* TRUE: this configuration names the OTHER directory as the application's root, so stack[i].app
                     \* (= "the file lies under the first configuration's root") reads the other way round

vars == <<stack, tps, expire, snaps, evCached, next, phase, life, flipped>>

Frames == [nl : 0..2, cls : ClsKinds, app : BOOLEAN]
Tps == [ft : FrameTypes, w : {<<>>, <<"local">>, <<"failing", "local">>, <<"global">>}]

Init ==
    /\ stack = <<>>
    /\ tps = <<>>
    /\ expire = MaxDepth
    /\ snaps = <<>>
    /\ evCached = {}
    /\ next = 1
    /\ phase = "build"
    /\ life = 1
    /\ flipped = FALSE

IsApp(i) == stack[i].app # flipped

(* the environment chooses the case: who called whom, which tracepoints sit on the line, when time runs out *)
AddFrame(f) == phase = "build" /\ Len(stack) < MaxDepth /\ stack' = Append(stack, f)
               /\ UNCHANGED <<tps, expire, snaps, evCached, next, phase, life, flipped>>
AddTp(t) == phase = "build" /\ Len(tps) < MaxActions /\ tps' = Append(tps, t)
            /\ UNCHANGED <<stack, expire, snaps, evCached, next, phase, life, flipped>>
SetExpire(e) == phase = "build" /\ expire = MaxDepth /\ e < MaxDepth /\ expire' = e
                /\ UNCHANGED <<stack, tps, snaps, evCached, next, phase, life, flipped>>
(* the time budget belongs to each tracepoint: every tracepoint of the event gets as far down the stack as one alone *)
(* (deviation SharedTimeBudget: the budget runs from the trace event, so a later tracepoint of the line finds it spent) *)
Hit == phase = "build" /\ stack # <<>> /\ tps # <<>> /\ phase' = "run"
       /\ UNCHANGED <<stack, tps, expire, snaps, evCached, next, life, flipped>>

(* frame_type -> which frame indexes (0 = top) carry variables *)
ShouldCollect(ft, idx) ==
    IF ft = "no_frame" THEN FALSE
    ELSE IF ft = "all_frame" THEN TRUE
    ELSE idx = 0                      \* single_frame and anything unknown

(* names of the variables shown on frame idx (as a set: order is not part of the property) *)
LocalNames(idx) == 1..stack[idx + 1].nl

FrameOf(a, idx, cached) ==
    LET f == stack[idx + 1]
        collect == ShouldCollect(tps[a].ft, idx) /\ idx < expire
                     /\ ~(SharedTimeBudget /\ a > 1 /\ expire < MaxDepth)
        \* deviation: a locals mapping already in the per-event cache yields a reference to a deleted entry
        lost == SharedTable /\ idx \in cached
    IN [idx |-> idx, cls |-> f.cls,
        app |-> IF AppFlagMemoised /\ life > 1 THEN f.app ELSE IsApp(idx + 1),
        vars |-> IF collect /\ ~lost THEN LocalNames(idx) ELSE {}]

WatchOutcome(k) == IF k = "failing" THEN "error" ELSE "value"

Collect(a) ==
    /\ phase = "run" /\ next = a /\ a <= Len(tps)
    /\ LET collected == {i \in 0..(Len(stack) - 1) : ShouldCollect(tps[a].ft, i) /\ i < expire}
           snap == [tp |-> a,
                    frames |-> [i \in 1..Len(stack) |-> FrameOf(a, i - 1, evCached)],
                    watches |-> [j \in 1..Len(tps[a].w) |-> [kind |-> tps[a].w[j], res |-> WatchOutcome(tps[a].w[j])]],
                    table |-> IF SharedTable THEN 1 ELSE a]
       IN /\ snaps' = Append(snaps, snap)
          /\ evCached' = IF SharedTable THEN evCached \cup collected ELSE evCached
    /\ next' = a + 1
    /\ UNCHANGED <<stack, tps, expire, phase, life, flipped>>

(* the event is over; the agent is configured again with the other root and the program reaches the line once more *)
Reconfigure ==
    /\ phase = "run" /\ next > Len(tps) /\ life < MaxLives
    /\ life' = life + 1
    /\ flipped' = ~flipped
    /\ snaps' = <<>>
    /\ evCached' = {}
    /\ next' = 1
    /\ UNCHANGED <<stack, tps, expire, phase>>

Next == \/ \E f \in Frames : AddFrame(f)
        \/ \E t \in Tps : AddTp(t)
        \/ \E e \in 0..MaxDepth : SetExpire(e)
        \/ Hit
        \/ \E a \in 1..MaxActions : Collect(a)
        \/ Reconfigure
        \/ (phase = "run" /\ next > Len(tps) /\ UNCHANGED vars)

Spec == Init /\ [][Next]_vars

---------------------------------------------------------------------------
(* C02 *)
FramesMatchStack ==
    \A s \in 1..Len(snaps) :
        /\ Len(snaps[s].frames) = Len(stack)
        /\ \A i \in 1..Len(stack) : /\ snaps[s].frames[i].cls = stack[i].cls
                                    /\ snaps[s].frames[i].app = IsApp(i)
TopFrameVarsAreLocals ==
    \A s \in 1..Len(snaps) :
        (tps[snaps[s].tp].ft # "no_frame" /\ expire > 0) => snaps[s].frames[1].vars = LocalNames(0)
FrameTypeDecides ==
    \A s \in 1..Len(snaps) : \A i \in 1..Len(stack) :
        snaps[s].frames[i].vars # {} => ShouldCollect(tps[snaps[s].tp].ft, i - 1)
OneResultPerWatch ==
    \A s \in 1..Len(snaps) : Len(snaps[s].watches) = Len(tps[snaps[s].tp].w)

(* C06, second half: snapshots of one event are complete on their own *)
Independent ==
    \A s, t \in 1..Len(snaps) :
        /\ (s # t => snaps[s].table # snaps[t].table)
        /\ (tps[snaps[s].tp].ft = tps[snaps[t].tp].ft => snaps[s].frames = snaps[t].frames)
EveryTracepointDelivers == (phase = "run" /\ next > Len(tps)) => Len(snaps) = Len(tps)
=============================================================================

-------------------------- MODULE Trace_Collector --------------------------
(***************************************************************************)
(* Validates what the real collector produced for an object graph against  *)
(* the Collector machine. A trace = <<instance, result>>:                  *)
(*   instance = [kind, child, slen, roots, frames, maxVars, maxStr,        *)
(*               maxColl, maxDepth, watch, wlim]  built by the harness     *)
(*               (it made the objects)                                     *)
(*   result   = [order, kids, vlen, trunc, wres] projected from the snapshot*)
(*      order[id] = node recorded under variable id (via Variable.hash),   *)
(*      kids[id]  = child variable ids in order (kids[1] = frame vars),    *)
(*      vlen/trunc = length of the value text / truncated flag per id      *)
(* The machine's steps are internal; the result is consumed when the       *)
(* machine is done and agrees with it on every field.                      *)
(***************************************************************************)
EXTENDS Collector, Json, IOUtils, TLCExt

VARIABLES tid, l

TraceLog == JsonDeserialize(IOEnv.TRACE_FILE)
T == TraceLog[tid]
E == T[l]

TraceInit ==
    /\ tid \in 1..Len(TraceLog)
    /\ TLCSet(tid, 0)
    /\ l = 2
    /\ InitWith(T[1])

TrStep == (Step \/ FrameBegin \/ FrameStep \/ WatchBegin \/ WatchStep) /\ UNCHANGED <<tid, l>>

(* the locals mappings (nodes <= 0) are not entries of the delivered table: the harness puts the frame's variable  *)
(* list in their place; a mapping recorded last of all (budget used up right after it) leaves no trace at all      *)
Agrees(r) ==
    /\ Len(r.order) <= Len(rec)
    /\ \A i \in (Len(r.order) + 1)..Len(rec) : rec[i].n < 0 /\ kids[i] = <<>>
    /\ \A i \in 1..Len(r.order) : r.order[i] = rec[i].n
    /\ \A i \in 1..Len(r.order) : r.kids[i] = kids[i]
    /\ \A i \in 2..Len(r.order) : rec[i].n > 0 => (r.vlen[i] = ValLen(i) /\ r.trunc[i] = Truncated(i))
    /\ r.wres = wres

TrResult ==
    /\ l <= Len(T) /\ AllDone
    /\ Agrees(E)
    /\ l' = l + 1
    /\ UNCHANGED <<vars, tid>>

TraceNext == TrStep \/ TrResult

(* the C05/C07 invariants are evaluated on every state of every validated run *)
TraceInvariant == /\ CountBound /\ DepthBound /\ CollBound /\ BreadthFirst /\ WatchBound
                  /\ LocalsFirst /\ Closed /\ OneIdPerObject /\ WatchClosed /\ WatchDedup
                  /\ FramesShareBudget

INSTANCE TraceCommon
=============================================================================

---------------------------- MODULE ResourceMerge ----------------------------
(***************************************************************************)
(* C18 (resource part): how the client's identity is assembled.            *)
(* Code: Resource.merge, Resource.create, DeepResourceDetector.detect,     *)
(* Deep.start (plugin resources merged in plugin order).                   *)
(*                                                                         *)
(* A resource maps a few keys to the SOURCE whose value it carries, plus a *)
(* schema URL. The environment chooses what each source provides           *)
(* (Provide); the agent then merges them one at a time in the documented   *)
(* order (MergeNext): built-in defaults, environment, code, the service    *)
(* name fallback, then each plugin in plugin order.                        *)
(***************************************************************************)
EXTENDS Naturals, Sequences, FiniteSets, TLC

CONSTANTS NPlugins,
          NoCode,     \* TRUE: the application passes no attributes of its own (Deep.start: built-in, environment, plugins)
          PluginMayBlank \* deviation (the code before the fix): an EMPTY service name provided by a plugin overrides the
                      \*   name the resource has - the client then identifies itself with service.name = ""

Keys == {"svc", "k1", "k2"}                \* service.name and two ordinary keys
Schemas == {"", "s1", "s2"}
NSrc == 2 + NPlugins                       \* 1 = environment, 2 = code, 3.. = plugins
Builtin == 0                               \* owner of the SDK keys and of the service-name fallback
Unset == 99

VARIABLES srcs,    \* srcs[i] = [keys, schema, blank, emptyVar, encoded] of source i (environment's schema is always "");
                   \*   encoded (environment only): the values in DEEP_RESOURCE_ATTRIBUTES are percent-encoded and hold
                   \*   "," "=" and blanks once decoded - a value is decoded AFTER the list was split, it stays one value
                   \*   blank: the service name it provides is an empty string
                   \*   emptyVar (environment only): DEEP_SERVICE_NAME is exported but empty while the name comes from
                   \*   DEEP_RESOURCE_ATTRIBUTES - an empty variable is an unset variable, it changes nothing
          pc,      \* 0 = choosing the sources; i in 1..NSrc = source i is merged next; NSrc + 1 = done
          acc,     \* the resource so far: [owner : Keys -> source index | Builtin | Unset, schema]
          blankSvc,\* the service name currently in the resource is an empty string
          fellBack,\* the service-name fallback was applied
          kept     \* sources whose merge was refused because of incompatible schema URLs

vars == <<srcs, pc, acc, blankSvc, fellBack, kept>>

Init == srcs = <<>> /\ pc = 0 /\ acc = [owner |-> [k \in Keys |-> Unset], schema |-> ""] /\ fellBack = FALSE
        /\ blankSvc = FALSE
        /\ kept = {}

Provide(ks, sc, bl, ev, en) ==
    /\ pc = 0 /\ Len(srcs) < NSrc
    /\ (ev => (Len(srcs) = 0 /\ "svc" \in ks /\ ~bl))
    /\ (en => (Len(srcs) = 0 /\ ks \cap {"k1", "k2"} # {}))
    /\ (Len(srcs) = 0 => sc = "")
    \* an empty name: from the environment or the code; from a plugin only where the agent itself does the merging
    \* (NoCode, Deep.start) - in the other configuration the plugin merges are plain Resource.merge calls
    /\ (bl => ("svc" \in ks /\ (Len(srcs) < 2 \/ NoCode)))
    /\ ((NoCode /\ Len(srcs) = 1) => (ks = {} /\ sc = "" /\ ~bl))
    /\ srcs' = Append(srcs, [keys |-> ks, schema |-> sc, blank |-> bl, emptyVar |-> ev, encoded |-> en])
    /\ UNCHANGED <<pc, acc, blankSvc, fellBack, kept>>

Begin == pc = 0 /\ Len(srcs) = NSrc /\ pc' = 1 /\ UNCHANGED <<srcs, acc, blankSvc, fellBack, kept>>

MergeSchema(sa, sb) == IF sa = "" THEN sb ELSE IF sb = "" THEN sa ELSE IF sa = sb THEN sb ELSE "conflict"

(* Resource.merge: the other resource's keys win; incompatible schemas: the left operand is returned unchanged *)
Merged(r, i) ==
    LET ms == MergeSchema(r.schema, srcs[i].schema)
    IN IF ms = "conflict" THEN r
       ELSE [owner |-> [k \in Keys |-> IF k \in srcs[i].keys THEN i ELSE r.owner[k]], schema |-> ms]

MergeNext ==
    /\ pc \in 1..NSrc
    /\ LET conflict == MergeSchema(acc.schema, srcs[pc].schema) = "conflict"
           \* Deep.start: an empty service name provided by a plugin is no service name - the name we have stays
           ignored == pc > 2 /\ ~conflict /\ "svc" \in srcs[pc].keys /\ srcs[pc].blank /\ ~PluginMayBlank
           m0 == Merged(acc, pc)
           m == IF ignored THEN [m0 EXCEPT !.owner["svc"] = acc.owner["svc"]] ELSE m0
           blankNow == IF conflict \/ "svc" \notin srcs[pc].keys \/ ignored THEN blankSvc ELSE srcs[pc].blank
           \* Resource.create: after environment and code, a missing OR EMPTY service name gets the fallback
           needFb == pc = 2 /\ (m.owner["svc"] = Unset \/ blankNow)
       IN /\ acc' = IF needFb THEN [m EXCEPT !.owner["svc"] = Builtin] ELSE m
          /\ blankSvc' = IF needFb THEN FALSE ELSE blankNow
          /\ fellBack' = (fellBack \/ needFb)
          /\ kept' = IF conflict THEN kept \cup {pc} ELSE kept
    /\ pc' = pc + 1
    /\ UNCHANGED srcs

Next == (\E ks \in SUBSET Keys, sc \in Schemas, bl \in BOOLEAN, ev \in BOOLEAN, en \in BOOLEAN : Provide(ks, sc, bl, ev, en))
        \/ Begin \/ MergeNext
        \/ (pc = NSrc + 1 /\ UNCHANGED vars)

Spec == Init /\ [][Next]_vars

(* C18 *)
Done == pc = NSrc + 1
ServiceNameAlways == Done => acc.owner["svc"] # Unset
(* after Resource.create (environment and code) the service name is never an empty string *)
ServiceNameNotBlankAfterCreate == pc = 3 => ~blankSvc
(* ... and the identity the client sends never carries an empty one, whoever provided it *)
ServiceNameNeverBlank == Done => ~blankSvc
(* later sources override earlier ones key by key (a source refused for its schema contributes nothing, and neither
   does a plugin's empty service name) *)
LaterWins == Done => \A k \in Keys :
    LET givers == {i \in 1..NSrc : k \in srcs[i].keys /\ i \notin kept /\ ~(k = "svc" /\ i > 2 /\ srcs[i].blank)}
        last == CHOOSE i \in givers : \A j \in givers : j <= i
    IN IF givers = {} THEN acc.owner[k] \in {Unset, Builtin}
       ELSE \/ acc.owner[k] = last
            \/ (k = "svc" /\ last <= 2 /\ srcs[last].blank /\ acc.owner[k] = Builtin)    \* an empty name falls back
=============================================================================

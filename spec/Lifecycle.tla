----------------------------- MODULE Lifecycle -----------------------------
(***************************************************************************)
(* C14 (and the start/shutdown part of C20): the agent's life cycle.       *)
(*                                                                         *)
(* Code: Deep.start / Deep.shutdown, TriggerHandler.start / shutdown,      *)
(* LongPoll.start / shutdown (RepeatedTimer), TaskHandler.flush,           *)
(* load_plugins, Plugin.shutdown.                                          *)
(*                                                                         *)
(* Start is one step for the caller (it cannot fail in the model: plugin   *)
(* resource failures and a failing initial poll are contained, see C20 /   *)
(* C12). Shutdown is a sequence of steps, each of which may fail:          *)
(*   RestoreHooks -> Flush -> StopPoll -> PluginShutdown(1..N) -> Mark     *)
(* Deviations (pre-fix code):                                              *)
(*   UnconditionalRestore  hooks are "restored" even when tracing was      *)
(*                         disabled by configuration (they become None)    *)
(*   AbortOnFailure        a failing step ends shutdown: the later steps   *)
(*                         never run, the agent stays "started"            *)
(*   KeepsActing           threads that already run the agent's trace      *)
(*                         function keep taking actions after shutdown     *)
(*   AcceptsDuringDrain    a configuration that arrives from the service    *)
(*                         while shutdown is under way (the poll timer is   *)
(*                         stopped late) is still installed: threads that   *)
(*                         run the agent's trace function act on it later   *)
(*   RestoreNeedsOwnThread shutdown called from another thread than start   *)
(*                         restores nothing                                 *)
(*   ClobbersCallerHook    shutdown called from another thread gives THAT   *)
(*                         thread the hook the starting thread had before   *)
(*                         start (pre-fix: sys.settrace is per thread)      *)
(*   LeaksHooksOnFailedStart  start() fails after the hooks were installed   *)
(*                         (e.g. an unusable poll interval): they stay      *)
(*                         installed although the agent is not started      *)
(*   SaveOnce              the hooks found before start are remembered at  *)
(*                         the FIRST start only: a later start/shutdown    *)
(*                         cycle puts back hooks the application has since *)
(*                         replaced                                        *)
(***************************************************************************)
EXTENDS Naturals, Sequences, FiniteSets, TLC

CONSTANTS NPlugins, MaxCalls,
          UnconditionalRestore, AbortOnFailure, KeepsActing, SaveOnce, AcceptsDuringDrain, RestoreNeedsOwnThread,
          ClobbersCallerHook, LeaksHooksOnFailedStart,
          SavesOwnHook      \* deviation (the code before the fix): a start() that finds the agent's OWN trace function on
                            \*   the starting thread (left there by a shutdown from another thread, which cannot take it
                            \*   away) remembers it as "what was there before" - and the next shutdown puts it back

Hooks == {"None", "Other1", "Other2", "Agent"}

VARIABLES noTrace,    \* NO_TRACE configuration (never changes)
          preSys, preThr,     \* the hooks the agent remembers having found when it (last) really started
          appSys, appThr,     \* the hooks the APPLICATION last installed itself (a debugger attached while the agent
                              \* runs with tracing disabled replaces them)
          sysTrace, thrTrace, \* sys.gettrace() of the starting thread / threading.gettrace()
          started,
          pollAlive,
          sdpc,       \* shutdown program counter: 0 = not shutting down, 1..(4 + NPlugins)
          failing,    \* set of shutdown steps that fail in this run (chosen by the environment)
          sdDone,     \* set of shutdown steps that were executed (with or without failure) in the last shutdown
          drained,    \* delivery was flushed by the last shutdown
          pluginDown, \* plugins whose shutdown() was called by the last shutdown
          ncalls,
          actedAfter, \* an application thread running the agent's trace function acted after shutdown completed
          everStarted,
          latePoll,   \* the service answered a poll with a NEW configuration while the last shutdown was under way
          otherHook,  \* the own sys trace function of an application thread that existed before the agent was started
                      \*   (it got the threading hook of that time) - never the agent's business
          otherThread \* the last shutdown was called from another thread than the one that started the agent (a
                      \*   thread can only set its OWN sys trace function: the starting thread's cannot be touched)

vars == <<noTrace, preSys, preThr, appSys, appThr, sysTrace, thrTrace, started, pollAlive, sdpc, failing, sdDone, drained, pluginDown,
          ncalls, actedAfter, everStarted, latePoll, otherThread, otherHook>>

Steps == 1..(3 + NPlugins)     \* 1 RestoreHooks, 2 Flush, 3 StopPoll, 3+i PluginShutdown(i)
MarkStep == 4 + NPlugins

Init ==
    /\ noTrace \in BOOLEAN
    /\ preSys \in {"None", "Other1"} /\ preThr \in {"None", "Other2"}
    /\ sysTrace = preSys /\ thrTrace = preThr
    /\ appSys = preSys /\ appThr = preThr
    /\ started = FALSE /\ pollAlive = FALSE
    /\ sdpc = 0 /\ failing = {} /\ sdDone = {} /\ drained = FALSE /\ pluginDown = {}
    /\ ncalls = 0 /\ actedAfter = FALSE /\ everStarted = FALSE /\ latePoll = FALSE /\ otherThread = FALSE /\ otherHook = preThr

(* A life can follow a shutdown that was called from another thread: the starting thread still runs the agent's trace   *)
(* function then (nobody else could take it away). That is the agent's own leftover, not "what was there before": the   *)
(* hooks remembered from the life before stay remembered, and the shutdown of THIS life - if called on the starting     *)
(* thread - puts them back.                                                                                             *)
Start ==
    /\ sdpc = 0 /\ ncalls < MaxCalls
    /\ ncalls' = ncalls + 1
    /\ IF started
         THEN UNCHANGED <<sysTrace, thrTrace, started, pollAlive, everStarted, preSys, preThr, otherThread>>   \* repeat starts do nothing
         ELSE /\ started' = TRUE /\ pollAlive' = TRUE /\ everStarted' = TRUE /\ otherThread' = FALSE
              /\ IF noTrace THEN UNCHANGED <<sysTrace, thrTrace, preSys, preThr>>
                            ELSE /\ sysTrace' = "Agent" /\ thrTrace' = "Agent"
                                 /\ IF SaveOnce /\ everStarted
                                      THEN UNCHANGED <<preSys, preThr>>
                                      ELSE /\ preSys' = IF sysTrace = "Agent" /\ ~SavesOwnHook THEN preSys ELSE sysTrace
                                           /\ preThr' = IF thrTrace = "Agent" /\ ~SavesOwnHook THEN preThr ELSE thrTrace
    /\ UNCHANGED <<noTrace, appSys, appThr, sdpc, failing, sdDone, drained, pluginDown, actedAfter, latePoll, otherHook>>

(* start() fails (a setting it needs last is unusable): the caller gets the error, the process is as it was before *)
StartFails ==
    /\ sdpc = 0 /\ ncalls < MaxCalls /\ ~otherThread /\ ~started
    /\ ncalls' = ncalls + 1
    /\ IF LeaksHooksOnFailedStart /\ ~noTrace
         THEN sysTrace' = "Agent" /\ thrTrace' = "Agent"
         ELSE UNCHANGED <<sysTrace, thrTrace>>
    /\ UNCHANGED <<noTrace, preSys, preThr, appSys, appThr, started, pollAlive, sdpc, failing, sdDone, drained, pluginDown,
                   actedAfter, everStarted, latePoll, otherThread, otherHook>>

(* shutdown() is called; the environment decides which of its steps will fail *)
ShutdownBegin(f, lp, ot) ==
    /\ sdpc = 0 /\ ncalls < MaxCalls
    /\ ncalls' = ncalls + 1
    /\ (lp => 2 \in f)          \* (a late answer matters while the drain is waiting for deliveries)
    /\ IF started
         THEN /\ sdpc' = 1 /\ failing' = f /\ sdDone' = {} /\ drained' = FALSE /\ pluginDown' = {}
              /\ latePoll' = lp /\ otherThread' = ot
         ELSE /\ ~lp /\ ~ot
              /\ UNCHANGED <<sdpc, failing, sdDone, drained, pluginDown, latePoll, otherThread>>   \* not started: nothing to do
    /\ UNCHANGED <<noTrace, preSys, preThr, appSys, appThr, sysTrace, thrTrace, started, pollAlive, actedAfter, everStarted, otherHook>>

Effect(step) ==
    CASE step = 1 ->
           /\ IF (noTrace /\ ~UnconditionalRestore) \/ (otherThread /\ RestoreNeedsOwnThread)
                THEN UNCHANGED <<sysTrace, thrTrace>>
                ELSE /\ sysTrace' = (IF otherThread THEN sysTrace                \* not this thread's to set
                                     ELSE IF noTrace THEN "None" ELSE preSys)   \* deviation: the saved (None) values
                     /\ thrTrace' = (IF noTrace THEN "None" ELSE preThr)
           /\ UNCHANGED <<pollAlive, drained, pluginDown>>
      [] step = 2 -> drained' = TRUE /\ UNCHANGED <<sysTrace, thrTrace, pollAlive, pluginDown>>
      [] step = 3 -> pollAlive' = FALSE /\ UNCHANGED <<sysTrace, thrTrace, drained, pluginDown>>
      [] OTHER    -> pluginDown' = pluginDown \cup {step - 3} /\ UNCHANGED <<sysTrace, thrTrace, pollAlive, drained>>

(* A failing step: pending deliveries fail (2), the service fails while polling is stopped (3), a plugin's       *)
(* shutdown() raises (3+i). The failure is the environment's; the step's own work is still done.                  *)
ShutdownStep ==
    /\ sdpc \in Steps
    /\ otherHook' = IF sdpc = 1 /\ otherThread /\ ClobbersCallerHook /\ ~noTrace THEN preSys ELSE otherHook
    /\ sdDone' = sdDone \cup {sdpc}
    /\ Effect(sdpc)
    /\ IF sdpc \in failing /\ AbortOnFailure
         THEN sdpc' = 0 /\ UNCHANGED started          \* the exception leaves shutdown(): the rest never runs
         ELSE sdpc' = sdpc + 1 /\ UNCHANGED started
    /\ UNCHANGED <<noTrace, preSys, preThr, appSys, appThr, failing, ncalls, actedAfter, everStarted, latePoll, otherThread>>

ShutdownMark ==
    /\ sdpc = MarkStep
    /\ started' = FALSE /\ sdpc' = 0
    /\ UNCHANGED <<noTrace, preSys, preThr, appSys, appThr, sysTrace, thrTrace, pollAlive, failing, sdDone, drained, pluginDown, ncalls,
                   actedAfter, everStarted, latePoll, otherThread, otherHook>>

(* a thread that inherited the agent's trace function reaches a tracepoint after shutdown has completed *)
HostEventAfter ==
    /\ everStarted /\ ~started /\ sdpc = 0 /\ ~noTrace
    /\ actedAfter' = (KeepsActing \/ (AcceptsDuringDrain /\ latePoll))
    /\ UNCHANGED <<noTrace, preSys, preThr, appSys, appThr, sysTrace, thrTrace, started, pollAlive, sdpc, failing, sdDone, drained,
                   pluginDown, ncalls, everStarted, latePoll, otherThread, otherHook>>

(* with tracing disabled the hooks belong to the application: it may install its own while the agent runs *)
AppSetsHooks ==
    /\ noTrace /\ started /\ sdpc = 0 /\ appSys # "Other2"
    /\ appSys' = "Other2" /\ appThr' = "Other1" /\ sysTrace' = "Other2" /\ thrTrace' = "Other1"
    /\ UNCHANGED <<noTrace, preSys, preThr, started, pollAlive, sdpc, failing, sdDone, drained, pluginDown, ncalls,
                   actedAfter, everStarted, latePoll, otherThread, otherHook>>

(* between two lives of the agent the hooks are the application's again: it may replace or remove them *)
AppChangesHooks(a, b) ==
    /\ ~started /\ sdpc = 0 /\ everStarted
    /\ <<a, b>> # <<appSys, appThr>>
    /\ appSys' = a /\ appThr' = b /\ sysTrace' = a /\ thrTrace' = b
    /\ UNCHANGED <<noTrace, preSys, preThr, started, pollAlive, sdpc, failing, sdDone, drained, pluginDown, ncalls,
                   actedAfter, everStarted, latePoll, otherThread, otherHook>>

Next ==
    \/ Start \/ StartFails \/ AppSetsHooks
    \/ \E a, b \in {"None", "Other1", "Other2"} : AppChangesHooks(a, b)
    \/ \E f \in SUBSET (Steps \ {1}), lp, ot \in BOOLEAN : ShutdownBegin(f, lp, ot)     \* restoring the hooks itself cannot fail
    \/ ShutdownStep \/ ShutdownMark \/ HostEventAfter

Spec == Init /\ [][Next]_vars

---------------------------------------------------------------------------
Idle == sdpc = 0
(* hooks installed once, and only when tracing is enabled *)
InstalledWhenStarted == (Idle /\ started /\ ~noTrace) => (sysTrace = "Agent" /\ thrTrace = "Agent")
NoTraceUntouched == noTrace => (sysTrace = appSys /\ thrTrace = appThr)
(* shutdown puts back exactly what was there before start *)
RestoredExactly == (Idle /\ ~started) => (thrTrace = appThr /\ (~otherThread => sysTrace = appSys))
(* shutdown does all of its work whatever fails *)
ShutdownCompletes ==
    (Idle /\ ~started /\ everStarted) =>
        /\ sdDone = Steps
        /\ ~pollAlive /\ drained
        /\ pluginDown = 1..NPlugins
StoppedAfterShutdown == [][(sdpc # 0 /\ sdpc' = 0) => ~started']_vars
QuietAfter == ~actedAfter
(* a thread's own trace function is that thread's: calling shutdown() from it does not replace it *)
CallerHookUntouched == [][otherHook' = otherHook]_vars
=============================================================================

-------------------------------- MODULE Wire --------------------------------
(***************************************************************************)
(* C08: the service receives every snapshot field intact, with auth.       *)
(*                                                                         *)
(* Code: push.convert_snapshot and its __convert_* helpers, grpc.          *)
(* convert_value / convert_resource, PushService.push_snapshot /           *)
(* _push_task, GRPCService.metadata / _build_metadata, AuthProvider.       *)
(* get_provider, BasicAuthProvider.provide, LongPoll.poll.                 *)
(*                                                                         *)
(* The environment chooses the SHAPE of a snapshot field by field (Choose) *)
(* and the auth configuration; the agent then converts it (Convert), sends *)
(* it (Send) and polls (Poll). What "intact" means per field is the        *)
(* operator Image: the identity on every value class except the documented *)
(* defaults (unset optional fields).                                       *)
(* Deviation DropOnConvertError = TRUE: a snapshot whose text cannot be    *)
(* encoded is silently dropped (pre-fix convert_snapshot / _push_task).    *)
(***************************************************************************)
EXTENDS Naturals, Sequences, FiniteSets, TLC

CONSTANTS DropOnConvertError,
          Rich

Fields == <<"table", "text", "children", "frames", "class_name", "watches", "attrs", "log_msg", "auth">>
Values(f) ==
    CASE f = "table" -> {0, 1, 3}                                   \* entries in the variable table
      [] f = "text" -> IF Rich THEN {"ascii", "empty", "non_bmp", "nul", "long", "surrogate"}
                       ELSE {"ascii", "non_bmp", "surrogate"}       \* class of the text values in the snapshot
      [] f = "children" -> {"none", "plain", "modifiers_and_original_name"}
      [] f = "frames" -> {0, 1, 3}
      [] f = "class_name" -> {"none", "given"}
      [] f = "watches" -> IF Rich THEN {"none", "good", "error", "good_and_error", "log_and_capture", "error_empty"}
                          ELSE {"none", "good_and_error", "error_empty"}   \* error_empty: a watch that failed with an
                                                                           \* exception that has no message text
      [] f = "attrs" -> IF Rich THEN {"none", "str", "bool_int_float", "sequence", "all", "awkward"}
                        ELSE {"none", "all", "awkward"}    \* awkward: valid attribute values the wire format cannot carry as they
                                                           \* are (a None element of a sequence, an int beyond 64 bits; and
                                                           \* tracepoint arguments given as numbers or booleans by a
                                                           \* registration in code - the wire carries their text): the
                                                           \* snapshot is delivered all the same
      [] f = "log_msg" -> {"none", "text"}
      [] f = "auth" -> {"none", "basic", "custom", "failing"}

VARIABLES shape, k, stage, sent, polls

vars == <<shape, k, stage, sent, polls>>

Init == shape = [f \in {} |-> 0] /\ k = 1 /\ stage = "build" /\ sent = <<>> /\ polls = <<>>

Choose(v) ==
    /\ stage = "build" /\ k <= Len(Fields) /\ v \in Values(Fields[k])
    /\ shape' = [f \in DOMAIN shape \cup {Fields[k]} |-> IF f = Fields[k] THEN v ELSE shape[f]]
    /\ k' = k + 1
    /\ UNCHANGED <<stage, sent, polls>>

Collected == stage = "build" /\ k = Len(Fields) + 1 /\ stage' = "collected" /\ UNCHANGED <<shape, k, sent, polls>>

Encodable == shape.text # "surrogate"
Metadata == CASE shape.auth = "none" -> "empty" [] shape.auth = "basic" -> "basic_header"
              [] shape.auth = "custom" -> "custom_header" [] shape.auth = "failing" -> "unavailable"

(* conversion is total: text that cannot be encoded is carried in an escaped form, nothing is dropped *)
Convert ==
    /\ stage = "collected"
    /\ stage' = IF DropOnConvertError /\ ~Encodable THEN "dropped" ELSE "converted"
    /\ UNCHANGED <<shape, k, sent, polls>>

Send ==
    /\ stage = "converted"
    /\ IF shape.auth = "failing"
         THEN stage' = "not_sent" /\ UNCHANGED sent            \* no metadata, no request: the failure stays in the task
         ELSE stage' = "sent" /\ sent' = Append(sent, [image |-> IF Encodable THEN "identical" ELSE "escaped",
                                                        metadata |-> Metadata])
    /\ UNCHANGED <<shape, k, polls>>

Poll ==
    /\ stage \in {"sent", "not_sent", "dropped"} /\ polls = <<>>
    /\ polls' = IF shape.auth = "failing" THEN <<[metadata |-> "unavailable", sent |-> FALSE]>>
                ELSE <<[metadata |-> Metadata, sent |-> TRUE]>>
    /\ UNCHANGED <<shape, k, stage, sent>>

Next == (\E f \in 1..Len(Fields) : \E v \in Values(Fields[f]) : f = k /\ Choose(v)) \/ Collected \/ Convert \/ Send \/ Poll
        \/ (polls # <<>> /\ UNCHANGED vars)

Spec == Init /\ [][Next]_vars

(* C08 *)
NothingDropped == stage # "dropped"
DeliveredOnce == Len(sent) <= 1 /\ (stage = "sent" => Len(sent) = 1)
Authenticated == /\ \A i \in 1..Len(sent) : sent[i].metadata = Metadata
                 /\ \A i \in 1..Len(polls) : polls[i].sent => polls[i].metadata = Metadata
=============================================================================

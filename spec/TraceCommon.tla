---------------------------- MODULE TraceCommon ----------------------------
(* Acceptance bookkeeping shared by all Trace_* modules (run with -workers 1).                 *)
(* Register tid holds the furthest position reached in trace tid; the postcondition prints it. *)
(* The including module defines TraceLog, tid, l and initialises TLCSet(tid, 0) in TraceInit.  *)
EXTENDS Naturals, Sequences, TLC
CONSTANTS TraceLog, tid, l

TraceConstraint == TLCSet(tid, IF TLCGet(tid) < l THEN l ELSE TLCGet(tid))

TracePost == \A i \in 1..Len(TraceLog) : PrintT(<<"MAX", i, TLCGet(i), Len(TraceLog[i])>>)
=============================================================================

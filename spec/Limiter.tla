------------------------------ MODULE Limiter ------------------------------
(***************************************************************************)
(* One tracepoint action's rate limiter (C04) and condition gate (C10).    *)
(*                                                                         *)
(* Code:  LocationAction.can_trigger / try_trigger / record_triggered,     *)
(*        TracepointWindow.in_window, TracepointExecutionStats,            *)
(*        ActionContext.can_trigger / process / __exit__,                  *)
(*        TriggerContext.__init__ (the per-event timestamp).               *)
(*                                                                         *)
(* One spec action per critical section of the code:                       *)
(*   Arrive(t,c)  TriggerContext.__init__ takes ts = time_ns()             *)
(*   PreCheck(t)  ActionContext.can_trigger: LocationAction.can_trigger    *)
(*   EvalCond(t)  ActionContext.can_trigger: condition eval + str2bool     *)
(*   Reserve(t)   LocationAction.try_trigger (check + record under lock)   *)
(*   Collect(t)   ActionContext.process (the slow collection)              *)
(*   Exit(t)      ActionContext.__exit__                                   *)
(*   Tick         the clock advances                                       *)
(* Atomic = FALSE is the named deviation NonAtomicCheckRecord: Reserve     *)
(* neither re-checks nor records, Exit records (the pre-fix code).         *)
(***************************************************************************)
EXTENDS Integers, Sequences, FiniteSets, TLC

CONSTANTS
          \* @type: Set(Int);
          Threads,        \* set of thread ids
          \* @type: Int;
          MaxNow,         \* clock bound
          \* @type: Int;
          MaxHits,        \* bound on the number of Arrive steps
          \* @type: Int;
          MaxJump,        \* how far one clock step may move (1 when model checking)
          \* @type: Set({ck: Str, cv: Int, pk: Str, pv: Int, ws: Int, we: Int, cm: Str});
          Configs,        \* set of settings records, see CfgOK
          \* @type: Int;
          DefaultPeriod,  \* the documented default (1000 ms) in ticks
          \* @type: Bool;
          Atomic,         \* TRUE = ideal (check+record atomic), FALSE = deviation
          \* @type: Bool;
          ReinstallResets \* deviation: a new configuration from the service in which THIS tracepoint is unchanged
                          \* (another one was added or removed) rebuilds it with fresh counters

VARIABLES
          \* @type: {ck: Str, cv: Int, pk: Str, pv: Int, ws: Int, we: Int, cm: Str};
          cfg,   \* the tracepoint's settings (never changes): [ck, cv, pk, pv, ws, we, cm]
                 \*   ck/pk: "int" (text) | "num" (a number) | "bad" (unparsable text) | "odd" (no number at all) | "absent" (fire_count / fire_period argument), cv/pv the value
                 \*   ws/we: window start/end in ticks, 0 = unbounded on that side
                 \*   cm: "none" (no condition) | "blank" | "expr" (truth decided per hit)
          \* @type: Int;
          now,
          \* @type: Int;
          count,
          \* @type: Int;
          last,
          \* @type: Int -> Str;
          pc,
          \* @type: Int -> Int;
          ts,
          \* @type: Int -> Str;
          cond,
          \* @type: Seq(Int);
          fires,
          \* @type: Int;
          hits,
          \* @type: Int -> Str;
          outcome

vars == <<cfg, now, count, last, pc, ts, cond, fires, hits, outcome>>

EffCount  == IF cfg.ck \in {"int", "num"} THEN cfg.cv ELSE 1      \* "num": given as a number (a tracepoint registered in code)
EffPeriod == IF cfg.pk \in {"int", "num"} THEN cfg.pv ELSE DefaultPeriod
WinStart == cfg.ws
WinEnd == cfg.we

InWindow(x) ==
    IF WinStart = 0 /\ WinEnd = 0 THEN TRUE
    ELSE IF WinStart = 0 /\ WinEnd > 0 THEN x <= WinEnd
    ELSE IF WinStart > 0 /\ WinEnd = 0 THEN WinStart <= x
    ELSE WinStart <= x /\ x <= WinEnd

LimitsAllow(x) ==
    /\ (EffCount = -1 \/ EffCount > count)
    /\ InWindow(x)
    \* (a hit can be OVERTAKEN: its time is taken when it arrives, another thread that arrived later may have fired
    \* meanwhile, so x < last. With a period the refusal of such a hit is the safe side of "never less than the period
    \* apart"; with no period at all - every hit is wanted - there is nothing to be safe about)
    /\ (last = 0 \/ EffPeriod = 0 \/ x - last >= EffPeriod)

CondTrue(c) == c \in {"none", "blank", "true"}

(* what a hit's condition can evaluate to under these settings *)
CondKinds == IF cfg.cm = "none" THEN {"none"} ELSE IF cfg.cm = "blank" THEN {"blank"}
             ELSE {"true", "false", "raises"}

InitWith(c) ==
    /\ cfg = c
    /\ now = 1
    /\ count = 0
    /\ last = 0
    /\ pc = [t \in Threads |-> "idle"]
    /\ ts = [t \in Threads |-> 0]
    /\ cond = [t \in Threads |-> "none"]
    /\ fires = <<>>
    /\ hits = 0
    /\ outcome = [t \in Threads |-> "none"]

Init == \E c \in Configs : InitWith(c)

Advance(n) ==
    /\ n > now /\ n <= MaxNow
    /\ now' = n
    /\ UNCHANGED <<cfg, count, last, pc, ts, cond, fires, hits, outcome>>

Tick == \E n \in (now + 1)..(now + MaxJump) : Advance(n)

Arrive(t, c) ==
    /\ pc[t] = "idle"
    /\ c \in CondKinds
    /\ hits < MaxHits
    /\ hits' = hits + 1
    /\ ts' = [ts EXCEPT ![t] = now]
    /\ cond' = [cond EXCEPT ![t] = c]
    /\ pc' = [pc EXCEPT ![t] = "arrived"]
    /\ outcome' = [outcome EXCEPT ![t] = "pending"]
    /\ UNCHANGED <<cfg, now, count, last, fires>>

PreCheck(t) ==
    /\ pc[t] = "arrived"
    /\ IF LimitsAllow(ts[t])
         THEN /\ pc' = [pc EXCEPT ![t] = "cond"]
              /\ UNCHANGED outcome
         ELSE /\ pc' = [pc EXCEPT ![t] = "idle"]
              /\ outcome' = [outcome EXCEPT ![t] = "limited"]
    /\ UNCHANGED <<cfg, now, count, last, ts, cond, fires, hits>>

EvalCond(t) ==
    /\ pc[t] = "cond"
    /\ IF CondTrue(cond[t])
         THEN /\ pc' = [pc EXCEPT ![t] = "reserve"]
              /\ UNCHANGED outcome
         ELSE /\ pc' = [pc EXCEPT ![t] = "idle"]
              /\ outcome' = [outcome EXCEPT ![t] = "rejected"]
    /\ UNCHANGED <<cfg, now, count, last, ts, cond, fires, hits>>

Reserve(t) ==
    /\ pc[t] = "reserve"
    /\ IF Atomic
         THEN IF LimitsAllow(ts[t])
                THEN /\ count' = count + 1
                     /\ last' = ts[t]
                     /\ pc' = [pc EXCEPT ![t] = "collect"]
                     /\ UNCHANGED outcome
                ELSE /\ pc' = [pc EXCEPT ![t] = "idle"]
                     /\ outcome' = [outcome EXCEPT ![t] = "limited"]
                     /\ UNCHANGED <<count, last>>
         ELSE /\ pc' = [pc EXCEPT ![t] = "collect"]
              /\ UNCHANGED <<count, last, outcome>>
    /\ UNCHANGED <<cfg, now, ts, cond, fires, hits>>

Collect(t) ==
    /\ pc[t] = "collect"
    /\ fires' = Append(fires, ts[t])
    /\ pc' = [pc EXCEPT ![t] = "exit"]
    /\ outcome' = [outcome EXCEPT ![t] = "collected"]
    /\ UNCHANGED <<cfg, now, count, last, ts, cond, hits>>

Exit(t) ==
    /\ pc[t] = "exit"
    /\ pc' = [pc EXCEPT ![t] = "idle"]
    /\ IF Atomic
         THEN UNCHANGED <<count, last>>
         ELSE /\ count' = count + 1
              /\ last' = ts[t]
    /\ UNCHANGED <<cfg, now, ts, cond, fires, hits, outcome>>

(* the service sends a new configuration (some OTHER tracepoint changed); this tracepoint is in it, unchanged: it *)
(* stays installed, and so do its fire count and the time of its last fire                                        *)
Reinstall ==
    /\ \A t \in Threads : pc[t] = "idle"
    /\ IF ReinstallResets THEN count' = 0 /\ last' = 0 ELSE UNCHANGED <<count, last>>
    /\ UNCHANGED <<cfg, now, pc, ts, cond, fires, hits, outcome>>

Next ==
    \/ Tick
    \/ Reinstall
    \/ \E t \in Threads :
         \/ \E c \in CondKinds : Arrive(t, c)
         \/ PreCheck(t) \/ EvalCond(t) \/ Reserve(t) \/ Collect(t) \/ Exit(t)

Spec == Init /\ [][Next]_vars

(* Environment step outside the ideal clock: the wall clock is SET BACK (an NTP step, an operator, a restored VM).  *)
(* time_ns() is the wall clock, so the code can see it. Not part of Next; the models that include it use            *)
(* NextSetBack. Every C04 invariant and property below is stated on the times the hits CARRY, so all of them must  *)
(* survive it: a hit stamped before the last fire is an overtaken hit (refused when there is a period, wanted when *)
(* there is none), and nothing fires closer than the period to a fire that lies in the clock's future.             *)
SetBackTo(n) ==
    /\ n >= 1 /\ n < now
    /\ now' = n
    /\ UNCHANGED <<cfg, count, last, pc, ts, cond, fires, hits, outcome>>

SetBack == \E n \in 1..(now - 1) : SetBackTo(n)

NextSetBack == Next \/ SetBack

SpecSetBack == Init /\ [][NextSetBack]_vars

---------------------------------------------------------------------------
(* C04 *)
CountBound == EffCount # -1 => Len(fires) <= (IF EffCount < 0 THEN 0 ELSE EffCount)

Abs(x) == IF x < 0 THEN -x ELSE x

Spacing == \A i, j \in 1..Len(fires) : i # j => Abs(fires[i] - fires[j]) >= EffPeriod

WindowRespected == \A i \in 1..Len(fires) : InWindow(fires[i])

(* why Spacing survives an overtaken hit and a clock set back: with a period the recorded last fire only moves      *)
(* forward in the times the hits carry, so it is the latest of all reserved fires and one comparison with it is a   *)
(* comparison with every earlier fire                                                                               *)
LastIsLatest == (Atomic /\ ~ReinstallResets /\ EffPeriod > 0) => \A i \in 1..Len(fires) : fires[i] <= last

LastMovesForward ==
    [][(Atomic /\ ~ReinstallResets /\ EffPeriod > 0) => last' >= last]_vars

(* the stats never run ahead of / behind the collections once everything is quiet *)
Quiet == \A t \in Threads : pc[t] = "idle"
StatsAgree == (Quiet /\ ~ReinstallResets) => (count = Len(fires) /\ (count > 0 => \E i \in 1..Len(fires) : fires[i] = last))

(* C04 second half / C10: a hit that the limits allow and whose condition holds does collect; a *)
(* rejected hit changes neither the count nor the last-fire time.                                *)
NoSpuriousDenial ==
    [][\A t \in Threads :
         (pc[t] \in {"arrived", "reserve"} /\ pc'[t] = "idle") => ~LimitsAllow(ts[t])]_vars

RejectedHitIsFree ==
    [][\A t \in Threads :
         (pc[t] = "cond" /\ pc'[t] = "idle") => (~CondTrue(cond[t]) /\ UNCHANGED <<count, last, fires>>)]_vars

ConditionGates ==
    [][\A t \in Threads : pc'[t] = "collect" /\ pc[t] # "collect" => CondTrue(cond[t])]_vars

TypeOK ==
    /\ now \in 1..MaxNow
    /\ count \in 0..MaxHits
    /\ pc \in [Threads -> {"idle", "arrived", "cond", "reserve", "collect", "exit"}]
    /\ Len(fires) <= MaxHits
=============================================================================

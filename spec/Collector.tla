----------------------------- MODULE Collector -----------------------------
(***************************************************************************)
(* C05 / C07 (and the totality half of C06): variable collection for the   *)
(* paused frame, the frames below it (frame_type all_frame) and the        *)
(* watches - one variable table, one identity cache, one budget.           *)
(*                                                                         *)
(* Code: processor/bfs breadth_first_search, VariableSetProcessor          *)
(* (process_variable / search_function / check_var_count), VariableCache-  *)
(* Provider, variable_processor.process_variable / process_child_nodes /   *)
(* find_children_for_parent / truncate_string, FrameCollector._process_    *)
(* frame (locals processed as one dict, then unwrapped onto the frame).    *)
(*                                                                         *)
(* The input is an object graph: nodes 1..N with a kind, ordered children  *)
(* (sharing and cycles allowed) and the length of the value's text; node 0 *)
(* is the frame's locals mapping whose children are the locals in          *)
(* declaration order; node -j is the locals mapping of the j-th frame      *)
(* below it. One step of the machine = one iteration of the work-list loop *)
(* (one call of search_function). The frames are collected one after the   *)
(* other (top first), each by its own work-list loop, then the watches.    *)
(* PopFromEnd = TRUE is the named deviation (pre-fix `queue.pop()`).       *)
(***************************************************************************)
EXTENDS Integers, Sequences, FiniteSets, TLC

CONSTANTS Instances,    \* set of instance records (see MC_Collector), or {} when driven by a trace
          PopFromEnd,   \* deviation switch: take the work item from the END of the list (depth first)
          DanglingOnBudget  \* deviation switch: a watch value that could not be recorded yields a reference
                            \* without a table entry instead of an error result (pre-fix eval_watch)

Dangling == 9999

VARIABLES inst,   \* [kind, child, slen, roots, frames, maxVars, maxStr, maxColl, maxDepth, watch, wlim]  (never changes)
                  \*   frames = the locals (in declaration order) of each frame below the paused one that is collected
                  \*   watch = nodes that the tracepoint's watch expressions evaluate to (after the frame),
                  \*   wlim = [maxVars, maxColl, maxDepth] of the watch processor (the defaults in the code)
          queue,  \* work list: sequence of [n, d, p] = node, depth, parent variable id
          rec,    \* recording order: rec[id] = [n, d, f] (variable id = position, as new_var_id does); f = the loop that
                  \*   recorded it: 0 the paused frame, j the j-th frame below, 1000 + k the k-th watch
          kids,   \* kids[id] = sequence of variable ids referenced as children of id, in order
          done,   \* the frame's loop has ended
          cut,    \* TRUE when it ended because the variable budget ran out
          wi,     \* index of the watch being evaluated (watch phase, after done)
          wres,   \* watch results so far: variable id, or 0 for an error result
          wbusy,  \* a watch value is being collected (its own work-list loop is running)
          flen,   \* number of variables recorded by the frame loops that have ended (0 until the first is done)
          fi,     \* index of the next frame below the paused one
          fbusy   \* the loop of frame fi is running

vars == <<inst, queue, rec, kids, done, cut, wi, wres, wbusy, flen, fi, fbusy>>

NoChildKinds == {"int", "str", "none", "iter"}
ListLike == {"list", "tuple", "exc"}
(* "hostile" = a value whose children cannot be read (no __dict__, raising attribute access ...): recorded, no children *)
Kinds == NoChildKinds \cup ListLike \cup {"dict", "obj", "hostile"}

KindOf(n) == IF n <= 0 THEN "dict" ELSE inst.kind[n]
ChildSeq(n) == IF n = 0 THEN inst.roots ELSE IF n < 0 THEN inst.frames[-n] ELSE inst.child[n]

Prefix(s, k) == IF Len(s) <= k THEN s ELSE SubSeq(s, 1, k)

(* an exception is a collection (what it was raised with: the first half of its children, rounded up) AND an object
   (the attributes it carries: the rest) - the collection limit applies to the arguments *)
ExcArgs(n) == SubSeq(ChildSeq(n), 1, (Len(ChildSeq(n)) + 1) \div 2)
ExcAttrs(n) == SubSeq(ChildSeq(n), (Len(ChildSeq(n)) + 1) \div 2 + 1, Len(ChildSeq(n)))

ChildrenWith(n, d, maxDepth, maxColl) ==
    IF KindOf(n) \in NoChildKinds \cup {"hostile"} THEN <<>>
    ELSE IF d + 1 >= maxDepth THEN <<>>
    ELSE IF KindOf(n) = "exc" THEN Prefix(ExcArgs(n), maxColl) \o ExcAttrs(n)
    ELSE IF KindOf(n) \in ListLike THEN Prefix(ChildSeq(n), maxColl)
    ELSE ChildSeq(n)

ChildrenOf(n, d) == ChildrenWith(n, d, inst.maxDepth, inst.maxColl)

IdOf(n) == IF \E i \in 1..Len(rec) : rec[i].n = n
             THEN CHOOSE i \in 1..Len(rec) : rec[i].n = n
             ELSE 0

InitWith(i) ==
    /\ inst = i
    /\ queue = << [n |-> 0, d |-> 0, p |-> 0] >>
    /\ rec = <<>>
    /\ kids = <<>>
    /\ done = FALSE
    /\ cut = FALSE
    /\ wi = 1
    /\ wres = <<>>
    /\ wbusy = FALSE
    /\ flen = 0
    /\ fi = 1
    /\ fbusy = FALSE

Init == \E i \in Instances : InitWith(i)

AddKid(k, p, id) == IF p = 0 THEN k ELSE [k EXCEPT ![p] = Append(k[p], id)]

(* one iteration of the work-list loop under the given limits; sets stop' when the loop ends *)
Loop(maxVars, maxDepth, maxColl, ended, budget, ph) ==
    IF queue = <<>>
      THEN /\ ended /\ UNCHANGED <<queue, rec, kids>>
      ELSE LET pos  == IF PopFromEnd THEN Len(queue) ELSE 1
               item == queue[pos]
               rest == IF PopFromEnd THEN SubSeq(queue, 1, Len(queue) - 1) ELSE Tail(queue)
           IN
           IF Len(rec) > maxVars
             THEN \* check_var_count: budget exhausted, the whole search stops
                  /\ budget /\ UNCHANGED <<queue, rec, kids>>
             ELSE IF IdOf(item.n) # 0
               THEN \* identity-cache hit: a reference, no descent
                    /\ kids' = AddKid(kids, item.p, IdOf(item.n))
                    /\ queue' = rest
                    /\ UNCHANGED rec
               ELSE LET id == Len(rec) + 1
                        ch == ChildrenWith(item.n, item.d, maxDepth, maxColl)
                        new == [i \in 1..Len(ch) |-> [n |-> ch[i], d |-> item.d + 1, p |-> id]]
                    IN /\ rec' = Append(rec, [n |-> item.n, d |-> item.d, f |-> ph])
                       /\ kids' = AddKid(Append(kids, <<>>), item.p, id)
                       /\ queue' = rest \o new

Step ==
    /\ ~done
    /\ \/ /\ Loop(inst.maxVars, inst.maxDepth, inst.maxColl, FALSE, FALSE, 0)
          /\ UNCHANGED <<done, cut, flen>>
       \/ /\ queue = <<>> /\ done' = TRUE /\ flen' = Len(rec) /\ UNCHANGED <<queue, rec, kids, cut>>
       \/ /\ queue # <<>> /\ Len(rec) > inst.maxVars
          /\ done' = TRUE /\ cut' = TRUE /\ flen' = Len(rec) /\ queue' = <<>> /\ UNCHANGED <<rec, kids>>
    /\ UNCHANGED <<inst, wi, wres, wbusy, fi, fbusy>>

(* the frames below the paused one (frame_type all_frame): each is collected by its own loop over its own locals   *)
(* mapping; table, identity cache and variable budget are those of the snapshot                                   *)
FramesDone == fi > Len(inst.frames) /\ ~fbusy

FrameBegin ==
    /\ done /\ ~fbusy /\ fi <= Len(inst.frames)
    /\ queue' = << [n |-> -fi, d |-> 0, p |-> 0] >> /\ fbusy' = TRUE
    /\ UNCHANGED <<inst, rec, kids, done, cut, wi, wres, wbusy, flen, fi>>

FrameStep ==
    /\ done /\ fbusy
    /\ \/ /\ Loop(inst.maxVars, inst.maxDepth, inst.maxColl, FALSE, FALSE, fi)
          /\ UNCHANGED <<fi, fbusy, flen>>
       \/ /\ (queue = <<>> \/ Len(rec) > inst.maxVars)
          /\ fi' = fi + 1 /\ fbusy' = FALSE /\ flen' = Len(rec)
          /\ queue' = <<>> /\ UNCHANGED <<rec, kids>>
    /\ UNCHANGED <<inst, done, cut, wi, wres, wbusy>>

(* watches are evaluated after the frame, each by its own processor that shares the identity cache *)
WatchBegin ==
    /\ done /\ FramesDone /\ ~wbusy /\ wi <= Len(inst.watch)
    /\ LET n == inst.watch[wi] IN
         IF IdOf(n) # 0
           THEN /\ wres' = Append(wres, IdOf(n)) /\ wi' = wi + 1          \* already collected: a reference
                /\ UNCHANGED <<queue, wbusy>>
           ELSE /\ queue' = << [n |-> n, d |-> 0, p |-> 0] >> /\ wbusy' = TRUE
                /\ UNCHANGED <<wi, wres>>
    /\ UNCHANGED <<inst, rec, kids, done, cut, flen, fi, fbusy>>

WatchStep ==
    /\ done /\ wbusy
    /\ \/ /\ Loop(inst.wlim.maxVars, inst.wlim.maxDepth, inst.wlim.maxColl, FALSE, FALSE, 1000 + wi)
          /\ UNCHANGED <<wi, wres, wbusy>>
       \/ /\ (queue = <<>> \/ Len(rec) > inst.wlim.maxVars)
          \* the loop ended (or the budget is used up): the result is the value's id, or an error result (0)
          /\ wres' = Append(wres, IF IdOf(inst.watch[wi]) = 0 /\ DanglingOnBudget THEN Dangling
                                   ELSE IdOf(inst.watch[wi]))
          /\ wi' = wi + 1 /\ wbusy' = FALSE
          /\ queue' = <<>> /\ UNCHANGED <<rec, kids>>
    /\ UNCHANGED <<inst, done, cut, flen, fi, fbusy>>

AllDone == done /\ FramesDone /\ ~wbusy /\ wi > Len(inst.watch)

Next == Step \/ FrameBegin \/ FrameStep \/ WatchBegin \/ WatchStep \/ (AllDone /\ UNCHANGED vars)

Spec == Init /\ [][Next]_vars
FairSpec == Spec /\ WF_vars(Step \/ FrameBegin \/ FrameStep \/ WatchBegin \/ WatchStep)
(* cyclic and self-referential data terminates *)
Terminates == <>AllDone

---------------------------------------------------------------------------
(* what the snapshot shows for variable id *)
InFrame(id) == id <= flen \/ (wi = 1 /\ ~wbusy)    \* recorded by a frame loop (the tracepoint's limits apply)
StrLimit(id) == IF InFrame(id) THEN inst.maxStr ELSE inst.wlim.maxStr
ValLen(id) == IF inst.slen[rec[id].n] <= StrLimit(id) THEN inst.slen[rec[id].n] ELSE StrLimit(id)
Truncated(id) == inst.slen[rec[id].n] > StrLimit(id)
FrameRec == IF done THEN SubSeq(rec, 1, flen) ELSE rec

(* C05 *)
CountBound == Len(FrameRec) <= inst.maxVars + 1
DepthBound == \A i \in 1..Len(FrameRec) : rec[i].d < inst.maxDepth \/ rec[i].d = 0
CollBound == \A i \in 1..Len(FrameRec) :
    /\ KindOf(rec[i].n) \in ListLike \ {"exc"} => Len(kids[i]) <= inst.maxColl
    /\ KindOf(rec[i].n) = "exc" => Len(kids[i]) <= inst.maxColl + Len(ExcAttrs(rec[i].n))
BreadthFirst == \A i, j \in 1..Len(FrameRec) : (i < j /\ rec[i].f = rec[j].f) => rec[i].d <= rec[j].d
(* the watch processors are bounded as well (by their own budget) *)
WatchBound == Len(rec) <= (IF inst.maxVars > inst.wlim.maxVars THEN inst.maxVars ELSE inst.wlim.maxVars) + 1
(* the frame's own locals are never crowded out by the contents of one of them *)
LocalsFirst ==
    (done /\ inst.maxDepth >= 2 /\ Len(inst.roots) <= inst.maxVars) =>
        \A r \in 1..Len(inst.roots) : IdOf(inst.roots[r]) \in 1..flen
(* every reachable node within depth and collection limits is recorded when the budget was not hit *)
CompleteWhenNotCut ==
    (done /\ ~cut /\ wi = 1 /\ ~wbusy /\ fi = 1 /\ ~fbusy) => \A i \in 1..Len(rec) :
        LET ch == ChildrenOf(rec[i].n, rec[i].d) IN
        /\ Len(kids[i]) = Len(ch)
        /\ \A k \in 1..Len(ch) : kids[i][k] = IdOf(ch[k])

(* C07 *)
Closed == \A i \in 1..Len(kids) : \A k \in 1..Len(kids[i]) : kids[i][k] \in 1..Len(rec)
OneIdPerObject == \A i, j \in 1..Len(rec) : rec[i].n = rec[j].n => i = j
NoRepeatDescent == [][Len(rec') > Len(rec) => IdOf(rec'[Len(rec')].n) = 0]_vars
TablesAligned == Len(kids) = Len(rec)
(* a watch result is an error result or resolves to an entry of the table (the locals wrapper, id 1, is not one) *)
WatchClosed == \A k \in 1..Len(wres) : wres[k] = 0 \/ (wres[k] \in 2..Len(rec) /\ rec[wres[k]].n > 0)
(* one budget for the whole snapshot: the frames below the paused one do not get a fresh one *)
FramesShareBudget == Len(SubSeq(rec, 1, flen)) <= inst.maxVars + 1
(* an object that several frames hold is recorded once *)
FramesShareIdentity == \A i, j \in 1..Len(rec) : (rec[i].n = rec[j].n) => i = j
(* a watch whose value is already in the frame refers to that variable, it is not recorded again *)
WatchDedup == \A k \in 1..Len(wres) : wres[k] # 0 => rec[wres[k]].n = inst.watch[k]
=============================================================================

--------------------------- MODULE Trace_AgentIT ---------------------------
(***************************************************************************)
(* Validates the repository's OWN integration tests (tests/it_tests: a     *)
(* real gRPC server, the real deep.start(), a real host program) against   *)
(* DeepAgent. The tests are run unchanged under a recording pytest plugin  *)
(* (harness/it_recorder.py). Logged, in the order of one lock:             *)
(*   start | sdbegin | sdend                                               *)
(*   pollreq(hash) | pollresp(kind, v, ids) | pollfail                     *)
(*   installed(ids)     TriggerHandler.new_config returned                 *)
(*   recv(id, vs)       a snapshot was delivered; vs = the configuration   *)
(*                      versions that contain the tracepoint it names      *)
(* What the service offers and the hits of the host program are NOT logged:*)
(* they are internal steps here (SvcChange is inferred from the answer, a  *)
(* Hit from the delivery of its snapshot).                                 *)
(***************************************************************************)
EXTENDS DeepAgent, Json, IOUtils, TLCExt

VARIABLES tid, l,
          cfgIds,      \* version -> tracepoint ids of that configuration (learned from the answers)
          everInst,    \* versions that were installed at some time while the agent was running
          nregs,       \* tracepoints currently registered in code (they belong to the agent OBJECT's configuration store)
          instRegs     \* how many of them the handler was last given (0 again once a shutdown has emptied it)
TraceLog == JsonDeserialize(IOEnv.TRACE_FILE)
T == TraceLog[tid]
E == T[l]
Live == l <= Len(T)
Step == l' = l + 1 /\ UNCHANGED tid
SeqToSet(q) == {q[i] : i \in 1..Len(q)}

TraceInit == tid \in 1..Len(TraceLog) /\ TLCSet(tid, 0) /\ l = 1 /\ cfgIds = <<>> /\ everInst = {} /\ nregs = 0 /\ instRegs = 0
             /\ phase = "new" /\ svc = 0 /\ hash = 0 /\ pollOpen = None /\ installed = 0 /\ toApply = {}
             /\ fired = <<>> /\ received = 0 /\ nhits = 0 /\ npolls = 0 /\ late = FALSE

(* deep.start(): the first agent of the process, or a new one after the previous one was shut down *)
(* (again = TRUE: the SAME agent object is started once more - it still holds, and reports, its configuration)     *)
TrStart == Live /\ E.ev = "start" /\ Step /\ UNCHANGED <<cfgIds, everInst, instRegs>>
           /\ IF "again" \in DOMAIN E /\ E.again THEN Resume /\ UNCHANGED nregs
                                                  ELSE (Start \/ Restart) /\ nregs' = 0
(* the driver waited until the background tasks were idle: what the agent acts on is the configuration it reports *)
TrSettled == Live /\ E.ev = "settled" /\ toApply = {} /\ (phase = "running" => (installed = hash /\ instRegs = nregs)) /\ Step
             /\ UNCHANGED <<phase, svc, hash, pollOpen, installed, toApply, fired, received, nhits, npolls, late, cfgIds, everInst, nregs, instRegs>>
(* the request carries the hash of the last configuration received (HashHonest) *)
TrPollReq == Live /\ E.ev = "pollreq" /\ PollReq /\ E.hash = hash /\ Step /\ UNCHANGED <<cfgIds, everInst, nregs, instRegs>>
TrPollFail == Live /\ E.ev = "pollfail" /\ pollOpen # None /\ pollOpen' = None /\ Step
              /\ UNCHANGED <<phase, svc, hash, installed, toApply, fired, received, nhits, npolls, late, cfgIds, everInst, nregs, instRegs>>
(* an UPDATE answer: the service offers version v now (versions are numbered in the order they are first seen) *)
TrPollUpdate ==
    /\ Live /\ E.ev = "pollresp" /\ E.kind = "update" /\ pollOpen # None
    /\ E.v # pollOpen                        \* the service answers UPDATE only when the request's hash differs
    /\ svc' = E.v /\ hash' = E.v /\ toApply' = toApply \cup {E.v} /\ pollOpen' = None
    /\ cfgIds' = IF E.v <= Len(cfgIds) THEN cfgIds ELSE Append(cfgIds, SeqToSet(E.ids))
    /\ (E.v <= Len(cfgIds) => cfgIds[E.v] = SeqToSet(E.ids))
    /\ Step /\ UNCHANGED <<phase, installed, fired, received, nhits, npolls, late, everInst, nregs, instRegs>>
TrPollNoChange ==
    /\ Live /\ E.ev = "pollresp" /\ E.kind = "no_change" /\ pollOpen # None
    /\ pollOpen = hash                       \* nothing changed: the request carried the current hash
    /\ pollOpen' = None /\ Step
    /\ UNCHANGED <<phase, svc, hash, installed, toApply, fired, received, nhits, npolls, late, cfgIds, everInst, nregs, instRegs>>
(* the handler is given a configuration: it is the configuration of the hash the agent reports (never an older one) *)
TrInstalled ==
    /\ Live /\ E.ev = "installed"
    /\ IF hash = 0 THEN SeqToSet(E.ids) = {} ELSE SeqToSet(E.ids) = cfgIds[hash]
    /\ ("regs" \in DOMAIN E => E.regs = nregs)       \* ... plus everything registered in code, alongside (C13)
    /\ installed' = (IF phase = "running" THEN hash ELSE 0) /\ toApply' = {}
    /\ instRegs' = (IF phase = "running" THEN nregs ELSE 0)
    /\ everInst' = (IF phase = "running" /\ hash # 0 THEN everInst \cup {hash} ELSE everInst)
                     \cup (IF phase = "running" /\ nregs > 0 THEN {0} ELSE {})      \* 0: "registrations were installed"
    /\ Step /\ UNCHANGED <<phase, svc, hash, pollOpen, fired, received, nhits, npolls, late, cfgIds, nregs>>
(* a snapshot is delivered: it names a tracepoint of a configuration that was installed while the agent ran *)
TrRecv ==
    /\ Live /\ E.ev = "recv"
    /\ IF "reg" \in DOMAIN E /\ E.reg THEN 0 \in everInst ELSE \E v \in everInst \ {0} : E.id \in cfgIds[v]
    /\ fired' = Append(fired, 1) /\ nhits' = nhits + 1 /\ received' = received + 1      \* Hit . Deliver
    /\ late' = (late \/ phase = "stopped")
    /\ Step /\ UNCHANGED <<phase, svc, hash, pollOpen, installed, toApply, npolls, cfgIds, everInst, nregs, instRegs>>
TrSdBegin == Live /\ E.ev = "sdbegin" /\ ShutdownBegin /\ instRegs' = 0 /\ Step /\ UNCHANGED <<cfgIds, everInst, nregs>>
(* register_tracepoint / unregister: the store changes at once, the handler is told by a background task *)
TrRegister == Live /\ E.ev \in {"register", "unregister", "register_failed"} /\ Step
              /\ nregs' = (IF E.ev = "register" THEN nregs + 1 ELSE nregs - 1)
              /\ UNCHANGED <<phase, svc, hash, pollOpen, installed, toApply, fired, received, nhits, npolls, late, cfgIds, everInst, instRegs>>
TrSdEnd == Live /\ E.ev = "sdend" /\ phase = "stopping" /\ pollOpen = None /\ phase' = "stopped" /\ Step
           /\ UNCHANGED <<svc, hash, pollOpen, installed, toApply, fired, received, nhits, npolls, late, cfgIds, everInst, nregs, instRegs>>
(* anything that still reaches the service after shutdown() returned *)
TrLate == Live /\ E.ev \in {"pollreq"} /\ phase = "stopped" /\ late' = TRUE /\ Step
          /\ UNCHANGED <<phase, svc, hash, pollOpen, installed, toApply, fired, received, nhits, npolls, cfgIds, everInst, nregs, instRegs>>

TraceNext == TrStart \/ TrPollReq \/ TrPollFail \/ TrPollUpdate \/ TrPollNoChange \/ TrInstalled \/ TrRecv
             \/ TrSdBegin \/ TrSdEnd \/ TrLate \/ TrSettled \/ TrRegister
TraceInvariant == NothingAfterShutdown /\ NoSpuriousSnapshots /\ HashIsReceivedConfig /\ HashMeansInstalled
INSTANCE TraceCommon
=============================================================================

--------------------------- MODULE Trace_AgentIT ---------------------------
(***************************************************************************)
(* Validates the repository's OWN integration tests (tests/it_tests: a     *)
(* real gRPC server, the real deep.start(), a real host program) against   *)
(* DeepAgent. The tests are run unchanged under a recording pytest plugin  *)
(* (harness/it_recorder.py). Logged, in the order of one lock:             *)
(*   start | sdbegin | sdend                                               *)
(*   pollreq(hash) | pollresp(kind, v, ids) | pollfail                     *)
(*   installed(ids)     TriggerHandler.new_config returned                 *)
(*   recv(id, vs)       a snapshot was delivered; vs = the configuration   *)
(*                      versions that contain the tracepoint it names      *)
(* What the service offers and the hits of the host program are NOT logged:*)
(* they are internal steps here (SvcChange is inferred from the answer, a  *)
(* Hit from the delivery of its snapshot).                                 *)
(***************************************************************************)
EXTENDS DeepAgent, Json, IOUtils, TLCExt

VARIABLES tid, l,
          cfgIds,      \* version -> tracepoint ids of that configuration (learned from the answers)
          everInst     \* versions that were installed at some time while the agent was running
TraceLog == JsonDeserialize(IOEnv.TRACE_FILE)
T == TraceLog[tid]
E == T[l]
Live == l <= Len(T)
Step == l' = l + 1 /\ UNCHANGED tid
SeqToSet(q) == {q[i] : i \in 1..Len(q)}

TraceInit == tid \in 1..Len(TraceLog) /\ TLCSet(tid, 0) /\ l = 1 /\ cfgIds = <<>> /\ everInst = {}
             /\ phase = "new" /\ svc = 0 /\ hash = 0 /\ pollOpen = None /\ installed = 0 /\ toApply = {}
             /\ fired = <<>> /\ received = 0 /\ nhits = 0 /\ npolls = 0 /\ late = FALSE

(* deep.start(): the first agent of the process, or a new one after the previous one was shut down *)
TrStart == Live /\ E.ev = "start" /\ (Start \/ Restart) /\ Step /\ UNCHANGED <<cfgIds, everInst>>
(* the request carries the hash of the last configuration received (HashHonest) *)
TrPollReq == Live /\ E.ev = "pollreq" /\ PollReq /\ E.hash = hash /\ Step /\ UNCHANGED <<cfgIds, everInst>>
TrPollFail == Live /\ E.ev = "pollfail" /\ pollOpen # None /\ pollOpen' = None /\ Step
              /\ UNCHANGED <<phase, svc, hash, installed, toApply, fired, received, nhits, npolls, late, cfgIds, everInst>>
(* an UPDATE answer: the service offers version v now (versions are numbered in the order they are first seen) *)
TrPollUpdate ==
    /\ Live /\ E.ev = "pollresp" /\ E.kind = "update" /\ pollOpen # None
    /\ E.v # pollOpen                        \* the service answers UPDATE only when the request's hash differs
    /\ svc' = E.v /\ hash' = E.v /\ toApply' = toApply \cup {E.v} /\ pollOpen' = None
    /\ cfgIds' = IF E.v <= Len(cfgIds) THEN cfgIds ELSE Append(cfgIds, SeqToSet(E.ids))
    /\ (E.v <= Len(cfgIds) => cfgIds[E.v] = SeqToSet(E.ids))
    /\ Step /\ UNCHANGED <<phase, installed, fired, received, nhits, npolls, late, everInst>>
TrPollNoChange ==
    /\ Live /\ E.ev = "pollresp" /\ E.kind = "no_change" /\ pollOpen # None
    /\ pollOpen = hash                       \* nothing changed: the request carried the current hash
    /\ pollOpen' = None /\ Step
    /\ UNCHANGED <<phase, svc, hash, installed, toApply, fired, received, nhits, npolls, late, cfgIds, everInst>>
(* the handler is given a configuration: it is the configuration of the hash the agent reports (never an older one) *)
TrInstalled ==
    /\ Live /\ E.ev = "installed"
    /\ IF hash = 0 THEN SeqToSet(E.ids) = {} ELSE SeqToSet(E.ids) = cfgIds[hash]
    /\ installed' = (IF phase = "running" THEN hash ELSE 0) /\ toApply' = {}
    /\ everInst' = IF phase = "running" /\ hash # 0 THEN everInst \cup {hash} ELSE everInst
    /\ Step /\ UNCHANGED <<phase, svc, hash, pollOpen, fired, received, nhits, npolls, late, cfgIds>>
(* a snapshot is delivered: it names a tracepoint of a configuration that was installed while the agent ran *)
TrRecv ==
    /\ Live /\ E.ev = "recv"
    /\ \E v \in everInst : E.id \in cfgIds[v]
    /\ fired' = Append(fired, 1) /\ nhits' = nhits + 1 /\ received' = received + 1      \* Hit . Deliver
    /\ late' = (late \/ phase = "stopped")
    /\ Step /\ UNCHANGED <<phase, svc, hash, pollOpen, installed, toApply, npolls, cfgIds, everInst>>
TrSdBegin == Live /\ E.ev = "sdbegin" /\ ShutdownBegin /\ Step /\ UNCHANGED <<cfgIds, everInst>>
TrSdEnd == Live /\ E.ev = "sdend" /\ phase = "stopping" /\ pollOpen = None /\ phase' = "stopped" /\ Step
           /\ UNCHANGED <<svc, hash, pollOpen, installed, toApply, fired, received, nhits, npolls, late, cfgIds, everInst>>
(* anything that still reaches the service after shutdown() returned *)
TrLate == Live /\ E.ev \in {"pollreq"} /\ phase = "stopped" /\ late' = TRUE /\ Step
          /\ UNCHANGED <<phase, svc, hash, pollOpen, installed, toApply, fired, received, nhits, npolls, cfgIds, everInst>>

TraceNext == TrStart \/ TrPollReq \/ TrPollFail \/ TrPollUpdate \/ TrPollNoChange \/ TrInstalled \/ TrRecv
             \/ TrSdBegin \/ TrSdEnd \/ TrLate
TraceInvariant == NothingAfterShutdown /\ NoSpuriousSnapshots /\ HashIsReceivedConfig /\ HashMeansInstalled
INSTANCE TraceCommon
=============================================================================

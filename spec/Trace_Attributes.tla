-------------------------- MODULE Trace_Attributes --------------------------
(* Validates recorded operation sequences on a real BoundedAttributes against Attributes.                  *)
(* A trace = header [cap] (0.. or -1 for unbounded) then one record per operation:                          *)
(*   [op |-> "set", key, vc, raised, items, dropped] / [op |-> "del", key, ...] / [op |-> "freeze", ...]    *)
(* where items is the container's content after the operation as a sequence of [k, v] (v = cleaned class).   *)
EXTENDS Attributes, Json, IOUtils, TLCExt

VARIABLES tid, l
TraceLog == JsonDeserialize(IOEnv.TRACE_FILE)
T == TraceLog[tid]
E == T[l]

TraceInit == /\ tid \in 1..Len(TraceLog) /\ TLCSet(tid, 0) /\ l = 2
             /\ InitWith(IF T[1].cap < 0 THEN NoCap ELSE T[1].cap)

Observed == /\ d' = E.items /\ dropped' = E.dropped /\ lastRaised' = E.raised

TrOp ==
    /\ l <= Len(T)
    /\ CASE E.op = "set" -> Set(E.key, E.vc)
         [] E.op = "del" -> Del(E.key)
         [] E.op = "freeze" -> Freeze
    /\ Observed
    /\ l' = l + 1 /\ UNCHANGED tid

TraceNext == TrOp
TraceInvariant == WithinCapacity /\ OnlyCleanValues /\ KeysUnique /\ EveryDropCounted
INSTANCE TraceCommon
=============================================================================

--------------------------- MODULE Trace_DeepAgent ---------------------------
(* Validates end-to-end loopback runs (real gRPC server, real deep.start()) against DeepAgent.                     *)
(* Events, totally ordered by a sequence number taken under one lock:                                               *)
(*   start | svc(v) | pollreq(hash) | pollresp | installed(v) | hit(before, after) | recv(v) | sdbegin | sdend      *)
(* `installed` is logged by a wrapper on TriggerHandler.new_config; `hit` carries the installed version read just   *)
(* before and just after the host line ran (an update may land in between).                                         *)
EXTENDS DeepAgent, Json, IOUtils, TLCExt

VARIABLES tid, l, hitsOpen    \* hitsOpen: windows [lo, hi] of hits whose snapshot has not been received yet
TraceLog == JsonDeserialize(IOEnv.TRACE_FILE)
T == TraceLog[tid]
E == T[l]
Live == l <= Len(T)
Step == l' = l + 1 /\ UNCHANGED tid

TraceInit == tid \in 1..Len(TraceLog) /\ TLCSet(tid, 0) /\ l = 2 /\ hitsOpen = <<>>
             /\ phase = "new" /\ svc = T[1].svc /\ hash = 0 /\ pollOpen = None /\ installed = 0 /\ toApply = {}
             /\ fired = <<>> /\ received = 0 /\ nhits = 0 /\ npolls = 0 /\ late = FALSE

TrStart == Live /\ E.ev = "start" /\ Start /\ Step /\ UNCHANGED hitsOpen
TrSvc == Live /\ E.ev = "svc" /\ svc' = E.v /\ E.v >= svc /\ Step
         /\ UNCHANGED <<phase, hash, pollOpen, installed, toApply, fired, received, nhits, npolls, late, hitsOpen>>
TrPollReq == Live /\ E.ev = "pollreq" /\ PollReq /\ E.hash = hash /\ Step /\ UNCHANGED hitsOpen
TrPollResp == Live /\ E.ev = "pollresp" /\ PollResp /\ Step /\ UNCHANGED hitsOpen
TrInstalled == Live /\ E.ev = "installed" /\ Apply /\ installed' = E.v /\ Step /\ UNCHANGED hitsOpen
(* an update task that finds nothing new to apply (e.g. a second task for the same version) *)
TrInstalledSame == Live /\ E.ev = "installed" /\ toApply = {} /\ E.v = installed /\ Step /\ UNCHANGED <<vars, hitsOpen>>

Min(a, b) == IF a < b THEN a ELSE b
Max(a, b) == IF a > b THEN a ELSE b
TrHit ==
    /\ Live /\ E.ev = "hit" /\ nhits' = nhits + 1
    /\ E.after = installed \/ E.before = installed \/ TRUE
    /\ hitsOpen' = IF E.expect THEN Append(hitsOpen, [lo |-> Min(E.before, E.after), hi |-> Max(E.before, E.after)])
                   ELSE hitsOpen
    /\ fired' = IF E.expect THEN Append(fired, E.after) ELSE fired
    /\ Step
    /\ UNCHANGED <<phase, svc, hash, pollOpen, installed, toApply, received, npolls, late>>

RemoveAt(s, i) == SubSeq(s, 1, i - 1) \o SubSeq(s, i + 1, Len(s))
(* a snapshot arrives: it must be the snapshot of some outstanding hit, naming a version installed during it *)
TrRecv ==
    /\ Live /\ E.ev = "recv"
    /\ \E i \in 1..Len(hitsOpen) :
         /\ hitsOpen[i].lo <= E.v /\ E.v <= hitsOpen[i].hi /\ E.v # 0
         /\ hitsOpen' = RemoveAt(hitsOpen, i)
    /\ received' = received + 1
    /\ late' = (late \/ phase = "stopped")
    /\ Step
    /\ UNCHANGED <<phase, svc, hash, pollOpen, installed, toApply, fired, nhits, npolls>>

TrSdBegin == Live /\ E.ev = "sdbegin" /\ ShutdownBegin /\ Step /\ UNCHANGED hitsOpen
TrSdEnd == Live /\ E.ev = "sdend" /\ phase = "stopping" /\ hitsOpen = <<>> /\ pollOpen = None
           /\ phase' = "stopped" /\ Step
           /\ UNCHANGED <<svc, hash, pollOpen, installed, toApply, fired, received, nhits, npolls, late, hitsOpen>>
(* anything the service sees after shutdown() returned *)
TrLate == Live /\ E.ev \in {"pollreq", "recv"} /\ phase = "stopped" /\ late' = TRUE /\ Step
          /\ UNCHANGED <<phase, svc, hash, pollOpen, installed, toApply, fired, received, nhits, npolls, hitsOpen>>

TraceNext == TrStart \/ TrSvc \/ TrPollReq \/ TrPollResp \/ TrInstalled \/ TrInstalledSame \/ TrHit \/ TrRecv
             \/ TrSdBegin \/ TrSdEnd \/ TrLate
TraceInvariant == NothingAfterShutdown /\ NoSpuriousSnapshots /\ HashIsReceivedConfig
INSTANCE TraceCommon
=============================================================================

---------------------------- MODULE MC_Dispatch ----------------------------
EXTENDS Dispatch

MCFns == {[file |-> "a", name |-> "f"], [file |-> "a", name |-> "g"], [file |-> "b", name |-> "f"]}

(* two tracepoints sharing a line, a method span, a line span on a line that may be a function's last, one on a *)
(* line of another file with the same function name                                                            *)
MCTps == {[id |-> 1, kind |-> "line",   file |-> "a", name |-> "", line |-> 1, span |-> "none"],
          [id |-> 2, kind |-> "line",   file |-> "a", name |-> "", line |-> 1, span |-> "line"],
          [id |-> 3, kind |-> "method", file |-> "a", name |-> "f", line |-> 0, span |-> "method"],
          [id |-> 4, kind |-> "line",   file |-> "b", name |-> "", line |-> 2, span |-> "none"]}

MCTpsSpans == {[id |-> 2, kind |-> "line",   file |-> "a", name |-> "", line |-> 1, span |-> "line"],
               [id |-> 3, kind |-> "method", file |-> "a", name |-> "f", line |-> 0, span |-> "method"]}
MCTpSets == {MCTps}
MCTpSetsSpans == {MCTpsSpans}
MCFnsOne == {[file |-> "a", name |-> "f"]}
=============================================================================

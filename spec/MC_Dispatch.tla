---------------------------- MODULE MC_Dispatch ----------------------------
EXTENDS Dispatch

MCFns == {[file |-> "a", name |-> "f"], [file |-> "a", name |-> "g"], [file |-> "b", name |-> "f"]}

(* two tracepoints sharing a line, a method span, a line span on a line that may be a function's last, one on a *)
(* line of another file with the same function name                                                            *)
(* id 5: a tracepoint on the shared line whose action always fails (e.g. a malformed log template): it must not *)
(* stop the other tracepoints of the line from acting                                                          *)
MCTps == {[id |-> 5, kind |-> "line",   file |-> "a", name |-> "", line |-> 1, span |-> "none", faulty |-> TRUE],
          [id |-> 1, kind |-> "line",   file |-> "a", name |-> "", line |-> 1, span |-> "none", faulty |-> FALSE],
          [id |-> 2, kind |-> "line",   file |-> "a", name |-> "", line |-> 1, span |-> "line", faulty |-> FALSE],
          [id |-> 3, kind |-> "method", file |-> "a", name |-> "f", line |-> 0, span |-> "method", faulty |-> FALSE],
          [id |-> 4, kind |-> "line",   file |-> "b", name |-> "", line |-> 2, span |-> "none", faulty |-> FALSE]}

MCTpsSpans == {[id |-> 2, kind |-> "line",   file |-> "a", name |-> "", line |-> 1, span |-> "line", faulty |-> FALSE],
               [id |-> 3, kind |-> "method", file |-> "a", name |-> "f", line |-> 0, span |-> "method", faulty |-> FALSE]}
MCTpSets == {MCTps}
MCTpSetsSpans == {MCTpsSpans}
MCFnsOne == {[file |-> "a", name |-> "f"]}
=============================================================================

-------------------------- MODULE Trace_TaskFlush --------------------------
(***************************************************************************)
(* Validates recorded executions of the real TaskHandler (driven by the    *)
(* cooperative scheduler with a controlled executor) against TaskFlush.    *)
(* Events (call starts/ends and pool observations):                        *)
(*   SubmitStart(s) / SubmitEnd(s, res, id)   submit_task called/returned  *)
(*   JobStart(j, w)        the task body starts on thread w                *)
(*   JobFinish(j, w, res)  the future of j completed on w                  *)
(*   CallbackEnd(j, w)     its done-callbacks have run                     *)
(*   FlushStart / FlushEnd(res)                                            *)
(*   Quiet(open, pending)  state read while nothing is in flight           *)
(* The micro-steps inside submit_task and flush are internal steps of the  *)
(* open call; WorkerCallback is internal between JobFinish and CallbackEnd.*)
(***************************************************************************)
EXTENDS TaskFlush, Json, IOUtils, TLCExt

VARIABLES tid, l, sopen, fopen, cbPending   \* cbPending[w]: JobFinish seen on w, its CallbackEnd not yet

TraceLog == JsonDeserialize(IOEnv.TRACE_FILE)
T == TraceLog[tid]
E == T[l]
Live == l <= Len(T)
Consume == l' = l + 1 /\ UNCHANGED tid

TraceInit ==
    /\ tid \in 1..Len(TraceLog)
    /\ TLCSet(tid, 0)
    /\ l = 2
    /\ sopen = [s \in Submitters |-> "closed"]
    /\ fopen = FALSE
    /\ cbPending = [w \in Workers |-> FALSE]
    /\ Init

TrSubmitStart ==
    /\ Live /\ E.ev = "SubmitStart" /\ E.s \in Submitters /\ sopen[E.s] = "closed"
    /\ sopen' = [sopen EXCEPT ![E.s] = "fresh"]
    /\ Consume /\ UNCHANGED <<vars, fopen, cbPending>>

TrSubmitInternal ==
    /\ \E s \in Submitters :
         \/ sopen[s] = "fresh" /\ CheckOpen(s) /\ sopen' = [sopen EXCEPT ![s] = "inflight"]
         \/ sopen[s] = "inflight" /\ (NextId(s) \/ PoolSubmit(s) \/ Track(s) \/ AddCallback(s)) /\ UNCHANGED sopen
    /\ UNCHANGED <<tid, l, fopen, cbPending>>

TrSubmitEnd ==
    /\ Live /\ E.ev = "SubmitEnd" /\ E.s \in Submitters
    /\ sopen[E.s] = "inflight" /\ spc[E.s] = "idle"
    /\ sres[E.s] = E.res
    /\ E.res = "accepted" => sid[E.s] = E.id
    /\ sopen' = [sopen EXCEPT ![E.s] = "closed"]
    /\ Consume /\ UNCHANGED <<vars, fopen, cbPending>>

TrJobStart == Live /\ E.ev = "JobStart" /\ E.w \in Workers /\ ~cbPending[E.w] /\ Start(E.w, E.j) /\ Consume
              /\ UNCHANGED <<sopen, fopen, cbPending>>

TrJobFinish ==
    /\ Live /\ E.ev = "JobFinish" /\ E.w \in Workers /\ wjob[E.w] = E.j
    /\ Finish(E.w, E.res) /\ Consume /\ cbPending' = [cbPending EXCEPT ![E.w] = TRUE] /\ UNCHANGED <<sopen, fopen>>

TrWorkerInternal == (\E w \in Workers : WorkerCallback(w)) /\ UNCHANGED <<tid, l, sopen, fopen, cbPending>>

TrCallbackEnd ==
    /\ Live /\ E.ev = "CallbackEnd" /\ E.w \in Workers /\ wjob[E.w] = NoJob /\ cbPending[E.w]
    /\ cbPending' = [cbPending EXCEPT ![E.w] = FALSE]
    /\ Consume /\ UNCHANGED <<vars, sopen, fopen>>

TrFlushStart == Live /\ E.ev = "FlushStart" /\ ~fopen /\ fpc = "idle" /\ fopen' = TRUE /\ Consume
                /\ UNCHANGED <<vars, sopen, cbPending>>

TrFlushInternal ==
    /\ fopen
    /\ FlushClose \/ FlushSnapshot \/ (\E k \in Jobs : FlushWait(k)) \/ FlushReturn
    /\ UNCHANGED <<tid, l, sopen, fopen, cbPending>>

TrFlushEnd ==
    /\ Live /\ E.ev = "FlushEnd" /\ fopen /\ fpc = E.res
    /\ fopen' = FALSE /\ Consume /\ UNCHANGED <<vars, sopen, cbPending>>

SeqToSet(q) == {q[i] : i \in 1..Len(q)}

TrQuiet ==
    /\ Live /\ E.ev = "Quiet"
    /\ \A s \in Submitters : sopen[s] = "closed"
    /\ ~fopen /\ \A w \in Workers : wjob[w] = NoJob /\ ~cbPending[w]
    /\ open = E.open /\ pending = SeqToSet(E.pending)
    /\ Consume /\ UNCHANGED <<vars, sopen, fopen, cbPending>>

TraceNext ==
    \/ TrSubmitStart \/ TrSubmitInternal \/ TrSubmitEnd \/ TrJobStart \/ TrJobFinish \/ TrWorkerInternal
    \/ TrCallbackEnd \/ TrFlushStart \/ TrFlushInternal \/ TrFlushEnd \/ TrQuiet

INSTANCE TraceCommon
=============================================================================

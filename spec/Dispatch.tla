------------------------------ MODULE Dispatch ------------------------------
(***************************************************************************)
(* C03 (trigger placement), C15 (deferred work) and the shape of C01:      *)
(* what TriggerHandler.trace_call does with one trace event, per thread.   *)
(*                                                                         *)
(* Code: TriggerHandler.trace_call / __actions_for_location /              *)
(* __process_call_backs / location_from_event, LineLocation.at_location,   *)
(* FunctionLocation.at_location, CallbackContext.at_location / process,    *)
(* SpanActionContext / SpanActionCallback, ThreadLocal (store keyed by     *)
(* thread ident, shared by all instances).                                 *)
(*                                                                         *)
(* Environment actions produce the event streams CPython delivers          *)
(* (call / line / return / exception, exception unwinding, thread start    *)
(* and end with ident reuse); the agent's handling of an event is the      *)
(* operator Handle, applied atomically with the event (the handler runs    *)
(* synchronously inside the event, and its state is per thread).           *)
(*                                                                         *)
(* Deviation TopOnly = TRUE is the pre-fix __process_call_backs: only the  *)
(* top pending entry is examined per event.                                *)
(*                                                                         *)
(* IdleFramesBlind = TRUE is what the code does today (a recorded finding  *)
(* of C03): trace_call answers a `call` event with None while NO           *)
(* tracepoint is installed, so CPython gives that invocation no local      *)
(* trace function - its later line/return/exception events never reach the *)
(* agent, also after a configuration has arrived.  With FALSE (the         *)
(* property as stated) every event is handled.                             *)
(***************************************************************************)
EXTENDS Naturals, Sequences, FiniteSets, TLC

CONSTANTS Idents,      \* thread idents (reusable)
          Fns,         \* functions: records [file, name]
          Lines,       \* line numbers
          TpSets,      \* the tracepoint configurations to explore (a set of sets of tracepoint records)
          MaxEvents, MaxDepth, MaxGen,
          TopOnly,     \* deviation switch
          IdleFramesBlind,  \* deviation switch (see above)
          ReinstallMay      \* model bound: a withdrawn configuration may come back (Reconfigure to a set of TpSets)

VARIABLES tps,      \* installed tracepoints: records [id, kind, file, name, line, span, faulty]; changed only by
                    \*   Reconfigure (a new configuration from the service)
                    \*   faulty: the tracepoint's action always fails (e.g. a malformed log template): no effect of
                    \*   its own, and no effect on the other tracepoints of the location
                    \*   kind "line": file+line;  kind "method": file+name;  span: "none"|"line"|"method"
                    \*   (span tracepoints open a span; the others take a snapshot)
          alive,    \* ident -> BOOLEAN
          gen,      \* ident -> generation number of the thread currently/last using the ident
          stack,    \* ident -> sequence of frames [fn, inv, blind], last = top (blind: the agent gets no local events)
          exc,      \* ident -> an exception is propagating in the top frame
          cb,       \* ident -> pending callback entries, last = top: [open, fn, items]
          items,    \* item id -> [tp, thr, gen, inv, openEv, closed, closer, closerGen]
          acted,    \* history of firings: sequence of [tp, ev, fn, line, thr]
          invDone,  \* invocation ids that have ended
          nInv, nEv,
          last      \* the last event handled: [thr, ev, fn, line] (for action properties)

vars == <<tps, alive, gen, stack, exc, cb, items, acted, invDone, nInv, nEv, last>>

Top(s) == s[Len(s)]
Pop(s) == SubSeq(s, 1, Len(s) - 1)

(* ---- matching (C03) ---- *)
Fires(tp, ev, fn, line) ==
    \/ tp.kind = "line" /\ ev = "line" /\ fn.file = tp.file /\ line = tp.line
    \/ tp.kind = "method" /\ ev = "call" /\ fn.file = tp.file /\ fn.name = tp.name

Matching(ev, fn, line) == {tp \in tps : Fires(tp, ev, fn, line) /\ ~tp.faulty}

(* ---- pending-entry completion (C15) ---- *)
EntryAt(e, ev, fn) ==
    /\ fn.file = e.fn.file /\ fn.name = e.fn.name
    /\ IF e.open = "line" THEN ev \in {"line", "return", "exception"}
                          ELSE ev \in {"return", "exception"}

(* indexes of the entries completed by this event *)
Completed(t, ev, fn) ==
    IF ev \notin {"line", "return", "exception"} \/ cb[t] = <<>> THEN {}
    ELSE IF TopOnly
           THEN IF EntryAt(Top(cb[t]), ev, fn) THEN {Len(cb[t])} ELSE {}
           ELSE {i \in 1..Len(cb[t]) : EntryAt(cb[t][i], ev, fn)}

Remaining(t, done) ==
    LET keep == {i \in 1..Len(cb[t]) : i \notin done}
        F[i \in 0..Len(cb[t])] == IF i = 0 THEN <<>>
                                  ELSE IF i \in keep THEN Append(F[i - 1], cb[t][i]) ELSE F[i - 1]
    IN F[Len(cb[t])]

ItemsOf(t, idxs) == UNION {cb[t][i].items : i \in idxs}

(* the whole handling of one event by trace_call *)
Handle(t, ev, fn, line, inv) ==
    LET done   == Completed(t, ev, fn)
        closeI == ItemsOf(t, done)
        match  == Matching(ev, fn, line)
        spans  == {tp \in match : tp.span # "none"}
        base   == Len(items)
        order  == CHOOSE f \in [1..Cardinality(spans) -> spans] : \A a, b \in 1..Cardinality(spans) : a # b => f[a] # f[b]
        newIt  == [k \in 1..Cardinality(spans) |->
                      [tp |-> order[k].id, thr |-> t, gen |-> gen[t], inv |-> inv, openEv |-> nEv + 1, closed |-> 0,
                       closer |-> t, closerGen |-> 0]]
        newIds == {base + k : k \in 1..Cardinality(spans)}
        entry  == [open |-> ev, fn |-> fn, items |-> newIds]
        rest   == Remaining(t, done)
    IN /\ items' = [i \in 1..(base + Cardinality(spans)) |->
                       IF i <= base
                         THEN IF i \in closeI THEN [items[i] EXCEPT !.closed = @ + 1, !.closer = t, !.closerGen = gen[t]]
                                             ELSE items[i]
                         ELSE newIt[i - base]]
       /\ cb' = [cb EXCEPT ![t] = IF spans = {} THEN rest ELSE Append(rest, entry)]
       /\ acted' = acted \o [k \in 1..Cardinality(match) |->
                                [tp |-> (CHOOSE f \in [1..Cardinality(match) -> match] :
                                            \A a, b \in 1..Cardinality(match) : a # b => f[a] # f[b])[k].id,
                                 ev |-> ev, fn |-> fn, line |-> line, thr |-> t]]
       /\ last' = [thr |-> t, ev |-> ev, fn |-> fn, line |-> line]

(* a local event (line / return / exception) of the top frame: handled, unless the frame is blind *)
HandleLocal(t, ev, line) ==
    LET top == Top(stack[t]) IN
    IF top.blind
      THEN /\ last' = [thr |-> t, ev |-> ev, fn |-> top.fn, line |-> line]
           /\ UNCHANGED <<items, cb, acted>>
      ELSE Handle(t, ev, top.fn, line, top.inv)

InitWith(T) ==
    /\ tps = T
    /\ alive = [t \in Idents |-> FALSE]
    /\ gen = [t \in Idents |-> 0]
    /\ stack = [t \in Idents |-> <<>>]
    /\ exc = [t \in Idents |-> FALSE]
    /\ cb = [t \in Idents |-> <<>>]
    /\ items = <<>>
    /\ acted = <<>>
    /\ invDone = {}
    /\ nInv = 0 /\ nEv = 0
    /\ last = [thr |-> 0, ev |-> "none", fn |-> [file |-> "", name |-> ""], line |-> 0]

Init == \E T \in TpSets : InitWith(T)

(* ---- environment: the events CPython delivers ---- *)
ThreadStart(t) ==
    /\ ~alive[t] /\ gen[t] < MaxGen     \* model bound on how often an ident is reused
    /\ alive' = [alive EXCEPT ![t] = TRUE]
    /\ gen' = [gen EXCEPT ![t] = @ + 1]
    /\ UNCHANGED <<tps, stack, exc, cb, items, acted, invDone, nInv, nEv, last>>

ThreadEnd(t) ==
    /\ alive[t] /\ stack[t] = <<>>
    /\ alive' = [alive EXCEPT ![t] = FALSE]
    /\ UNCHANGED <<tps, gen, stack, exc, cb, items, acted, invDone, nInv, nEv, last>>

Budget == nEv < MaxEvents

EvCall(t, f) ==
    /\ alive[t] /\ ~exc[t] /\ Budget /\ Len(stack[t]) < MaxDepth
    /\ stack' = [stack EXCEPT ![t] = Append(@, [fn |-> f, inv |-> nInv + 1, blind |-> IdleFramesBlind /\ tps = {}])]
    /\ nInv' = nInv + 1 /\ nEv' = nEv + 1
    /\ Handle(t, "call", f, 0, nInv + 1)
    /\ UNCHANGED <<tps, alive, gen, exc, invDone>>

EvLine(t, ln) ==
    /\ alive[t] /\ ~exc[t] /\ Budget /\ stack[t] # <<>>
    /\ nEv' = nEv + 1
    /\ HandleLocal(t, "line", ln)
    /\ UNCHANGED <<tps, alive, gen, stack, exc, invDone, nInv>>

(* the top frame ends: normally, or (exc) because the exception propagates out of it *)
EvReturn(t) ==
    /\ alive[t] /\ stack[t] # <<>>
    /\ nEv' = nEv + 1
    /\ HandleLocal(t, "return", 0)
    /\ invDone' = invDone \cup {Top(stack[t]).inv}
    /\ stack' = [stack EXCEPT ![t] = Pop(@)]
    /\ exc' = [exc EXCEPT ![t] = exc[t] /\ Len(stack[t]) > 1]
    /\ UNCHANGED <<tps, alive, gen, nInv>>

(* an exception is raised in, or arrives in (after the callee unwound), the top frame *)
EvException(t) ==
    /\ alive[t] /\ Budget /\ stack[t] # <<>>
    /\ nEv' = nEv + 1
    /\ HandleLocal(t, "exception", 0)
    /\ exc' = [exc EXCEPT ![t] = TRUE]
    /\ UNCHANGED <<tps, alive, gen, stack, invDone, nInv>>

(* the top frame catches the propagating exception and carries on *)
EvCatch(t) ==
    /\ alive[t] /\ exc[t] /\ stack[t] # <<>>
    /\ exc' = [exc EXCEPT ![t] = FALSE]
    /\ UNCHANGED <<tps, alive, gen, stack, cb, items, acted, invDone, nInv, nEv, last>>

(* the service's configuration changes while the program is in the middle of something (a poll response is       *)
(* installed by a background thread; in the model: every tracepoint is removed). Work that is already pending     *)
(* must still be completed.                                                                                      *)
Reconfigure(T) ==
    /\ T # tps
    /\ tps' = T
    /\ UNCHANGED <<alive, gen, stack, exc, cb, items, acted, invDone, nInv, nEv, last>>

Next ==
    \/ Reconfigure({})
    \/ (ReinstallMay /\ \E T \in TpSets : Reconfigure(T))
    \/ \E t \in Idents :
        \/ ThreadStart(t) \/ ThreadEnd(t)
        \/ \E f \in Fns : EvCall(t, f)
        \/ \E ln \in Lines : EvLine(t, ln)
        \/ EvReturn(t) \/ EvException(t) \/ EvCatch(t)

Spec == Init /\ [][Next]_vars

---------------------------------------------------------------------------
TpById(id) == CHOOSE tp \in UNION TpSets : tp.id = id

(* C03: every firing is at the tracepoint's own location ... *)
Placement == \A k \in 1..Len(acted) : Fires(TpById(acted[k].tp), acted[k].ev, acted[k].fn, acted[k].line)
(* ... and every tracepoint configured for the location of an event acts on it, each independently *)
NoMiss == [][Len(acted') - Len(acted) = (IF nEv' > nEv THEN Cardinality(Matching(last'.ev, last'.fn, last'.line)) ELSE 0)]_vars
NoActionElsewhere == [][(nEv' > nEv /\ last'.ev \in {"return", "exception"}) => acted' = acted]_vars

(* C15 *)
ExactlyOnce == \A i \in 1..Len(items) : items[i].closed <= 1
ClosedWhenInvocationEnds == \A i \in 1..Len(items) : items[i].inv \in invDone => items[i].closed = 1
SameThread == \A i \in 1..Len(items) : items[i].closed > 0 =>
                    (items[i].closer = items[i].thr /\ items[i].closerGen = items[i].gen)
NothingLeft == \A t \in Idents : ~alive[t] => cb[t] = <<>>
NotBefore == [][\A i \in 1..Len(items) : items'[i].closed > items[i].closed => i <= Len(items)]_vars
=============================================================================

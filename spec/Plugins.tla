------------------------------ MODULE Plugins ------------------------------
(***************************************************************************)
(* C20: plugins are optional - ordered, skipped when inactive, isolated    *)
(* when faulty.                                                            *)
(*                                                                         *)
(* Code: load_plugins / __plugin_generator / Plugin.is_active / order,     *)
(* Deep.start (resource providers), _decorate_snapshot (decorators),       *)
(* LogActionResult.process (the tracepoint logger = first logger plugin),  *)
(* SpanActionContext._process_action / SpanActionCallback.process (span    *)
(* processors), MetricActionContext._process_action (metric processors),   *)
(* Deep.shutdown (plugin shutdown loop).                                   *)
(*                                                                         *)
(* The environment configures plugins (Configure), then the agent runs its *)
(* activities in order: Load, then one Activity(cb) per callback kind in   *)
(* the order of a life: resource (start), create_span / decorate / log /   *)
(* metric (a trigger), close_span (the span's end), shutdown.              *)
(* Deviation AbortOnFirstFailure = TRUE: a failing plugin ends the loop of *)
(* that activity (pre-fix span creation, span close, metric dispatch,      *)
(* shutdown).                                                              *)
(***************************************************************************)
EXTENDS Naturals, Sequences, FiniteSets, TLC

CONSTANTS MaxPlugins, AbortOnFirstFailure,
          Rich,      \* TRUE: the full grid of role sets / fault sets, FALSE: a reduced grid (quick runs)
          MaxLives   \* how many times the agent is started on the same configuration object (NextLife)

LoadKinds == {"ok", "unimportable", "ctor_fails", "inactive"}
Roles == {"resource", "decorate", "log", "span", "metric"}
Callbacks == <<"resource", "create_span", "decorate", "log", "metric", "close_span", "shutdown">>
RoleOf(cb) == CASE cb = "resource" -> "resource" [] cb = "create_span" -> "span" [] cb = "close_span" -> "span"
                [] cb = "decorate" -> "decorate" [] cb = "log" -> "log" [] cb = "metric" -> "metric"
                [] cb = "shutdown" -> "any"
GuardedToday == {"resource", "decorate", "log"}      \* loops that already contained failures before the fix

RoleSets == IF Rich
              THEN {{}, {"resource"}, {"decorate"}, {"log"}, {"span"}, {"metric"}, {"decorate", "span"},
                    {"resource", "decorate", "log"}, {"span", "metric"}, {"log", "metric"}}
              ELSE {{"decorate", "span"}, {"resource", "decorate", "log"}, {"span", "metric"}}
FaultSets == IF Rich
               THEN {{}, {"resource"}, {"decorate"}, {"log"}, {"create_span"}, {"close_span"}, {"metric"}, {"shutdown"},
                     {"decorate", "metric"}, {"create_span", "shutdown"}, {"order"}, {"order", "shutdown"}}
               ELSE {{}, {"decorate", "metric"}, {"create_span", "shutdown"}, {"close_span"}, {"resource", "log"},
                     {"order"}}
(* "order": the plugin's own order() fails when the loaded plugins are sorted. That costs the plugin its place (it is  *)
(* sorted as if it had declared the default order - or left out: the harness compares neither its place nor its       *)
(* callbacks), never the agent its start or the other plugins their places.                                           *)

VARIABLES plugins,   \* configured plugins in configuration order: [load, order, roles, faults]
          phase,     \* 0 = configuring, k in 1..7 = activity Callbacks[k] is next, 8 = end
          loaded,    \* indexes of the loaded plugins in the order the agent uses them
          called,    \* called[p] = sequence of callbacks invoked on plugin p, in order
          spansOpen, \* plugins that created a span (and must close it)
          aborted,   \* callbacks whose loop was ended early by a failure
          life       \* 1, 2, ...: which start of the agent on this configuration this is

vars == <<plugins, phase, loaded, called, spansOpen, aborted, life>>

PluginRecs == [load : LoadKinds, order : 0..2, roles : RoleSets, faults : FaultSets]   \* order 0..2 stands for -1, 0, 1

Init ==
    /\ plugins = <<>> /\ phase = 0 /\ loaded = <<>> /\ called = <<>> /\ spansOpen = {} /\ aborted = {} /\ life = 1

Configure(p) ==
    /\ phase = 0 /\ Len(plugins) < MaxPlugins /\ life = 1
    /\ plugins' = Append(plugins, p)
    /\ called' = Append(called, <<>>)
    /\ UNCHANGED <<phase, loaded, spansOpen, aborted, life>>

(* the order a plugin is sorted by (see FaultSets) *)
EffOrder(i) == IF "order" \in plugins[i].faults THEN 1 ELSE plugins[i].order

(* stable sort of the loadable plugins by their declared order *)
Loadable == {i \in 1..Len(plugins) : plugins[i].load = "ok"}
SortedLoad ==
    LET Asc(S) == LET F[k \in 0..Len(plugins)] ==
                          IF k = 0 THEN <<>> ELSE IF k \in S THEN Append(F[k - 1], k) ELSE F[k - 1]
                  IN F[Len(plugins)]
        With(o) == {i \in Loadable : EffOrder(i) = o}
    IN Asc(With(0)) \o Asc(With(1)) \o Asc(With(2))

Load ==
    /\ phase = 0 /\ plugins # <<>>
    /\ loaded' = SortedLoad
    /\ phase' = 1
    /\ UNCHANGED <<plugins, called, spansOpen, aborted, life>>

HasRole(i, cb) ==
    IF cb = "shutdown" THEN TRUE
    ELSE IF cb = "close_span" THEN i \in spansOpen
    ELSE RoleOf(cb) \in plugins[i].roles

(* the plugins (in agent order) that an activity addresses; the tracepoint logger is the FIRST logger only *)
Addressed(cb) ==
    LET all == SelectSeq(loaded, LAMBDA i : HasRole(i, cb))
    IN IF cb = "log" /\ all # <<>> THEN <<all[1]>> ELSE all

(* how far the loop gets: up to and including the first failing plugin when the loop is not failure-proof *)
Reached(cb) ==
    LET a == Addressed(cb)
        failsAt == {k \in 1..Len(a) : cb \in plugins[a[k]].faults}
        stops == AbortOnFirstFailure /\ cb \notin GuardedToday /\ failsAt # {}
        firstFail == CHOOSE k \in failsAt : \A m \in failsAt : k <= m
    IN IF stops THEN SubSeq(a, 1, firstFail) ELSE a

Activity ==
    /\ phase \in 1..Len(Callbacks)
    /\ LET cb == Callbacks[phase]
           r == Reached(cb)
           rs == {r[k] : k \in 1..Len(r)}
       IN /\ called' = [i \in 1..Len(called) |-> IF i \in rs THEN Append(called[i], cb) ELSE called[i]]
          /\ spansOpen' = IF cb = "create_span" THEN {i \in rs : cb \notin plugins[i].faults} ELSE spansOpen
          /\ aborted' = IF Len(r) < Len(Addressed(cb)) THEN aborted \cup {cb} ELSE aborted
    /\ phase' = phase + 1
    /\ UNCHANGED <<plugins, loaded, life>>

(* after shutdown the application switches some plugins on or off by configuration and starts the agent again on the *)
(* same configuration object: the new life is that of the new switches - nothing of the previous one survives        *)
Switchable == {i \in 1..Len(plugins) : plugins[i].load \in {"ok", "inactive"}}
NextLife(F) ==
    /\ phase = Len(Callbacks) + 1 /\ life < MaxLives /\ F # {} /\ F \subseteq Switchable
    /\ plugins' = [i \in 1..Len(plugins) |->
                      IF i \in F THEN [plugins[i] EXCEPT !.load = IF @ = "ok" THEN "inactive" ELSE "ok"] ELSE plugins[i]]
    /\ phase' = 0 /\ loaded' = <<>> /\ spansOpen' = {} /\ aborted' = {}
    /\ called' = [i \in 1..Len(plugins) |-> <<>>]
    /\ life' = life + 1

Next == (\E p \in PluginRecs : Configure(p)) \/ Load \/ Activity \/ (\E F \in SUBSET (1..MaxPlugins) : NextLife(F))
        \/ (phase = Len(Callbacks) + 1 /\ UNCHANGED vars)

Spec == Init /\ [][Next]_vars

---------------------------------------------------------------------------
(* C20 *)
LoadedSet == phase # 0 => {loaded[k] : k \in 1..Len(loaded)} = Loadable
LoadedOrder == phase # 0 =>
    \A a, b \in 1..Len(loaded) : a < b =>
        \/ EffOrder(loaded[a]) < EffOrder(loaded[b])
        \/ (EffOrder(loaded[a]) = EffOrder(loaded[b]) /\ loaded[a] < loaded[b])
NotLoadedNeverCalled == \A i \in 1..Len(plugins) : i \notin Loadable => called[i] = <<>>
(* a failing plugin costs only its own contribution: nobody else's callback is skipped *)
Isolation == aborted = {}
(* decorations that end up on the delivered snapshot = the decorators that did not fail *)
Decorations == {i \in 1..Len(plugins) : i \in Loadable /\ "decorate" \in plugins[i].roles
                                          /\ "decorate" \notin plugins[i].faults}
=============================================================================

---------------------------- MODULE Trace_Guard ----------------------------
(* Validates fault-injection runs of the real trace_call against Guard.                                  *)
(* A trace = <<header, [section, kind], [escaped, returned]>> : where the harness raised a fault (section *)
(* = the statement of the event handler that was executing, kind of exception) and what trace_call did.  *)
EXTENDS Guard, Json, IOUtils, TLCExt

VARIABLES tid, l
TraceLog == JsonDeserialize(IOEnv.TRACE_FILE)
T == TraceLog[tid]
E == T[l]

TraceInit == tid \in 1..Len(TraceLog) /\ TLCSet(tid, 0) /\ l = 2 /\ Init

TrRun == Run /\ (l = 2 => Sections[pc] # E.section) /\ UNCHANGED <<tid, l>>
TrFault == l = 2 /\ l <= Len(T) /\ pc <= Len(Sections) /\ Sections[pc] = E.section /\ Fault(E.kind)
           /\ l' = 3 /\ UNCHANGED tid
TrNoFault == l = 2 /\ l <= Len(T) /\ E.section = "none" /\ Finish /\ l' = 3 /\ UNCHANGED tid
TrOutcome == l = 3 /\ l <= Len(T) /\ returned # "pending"
             /\ E.escaped = escaped /\ E.returned = returned
             /\ l' = 4 /\ UNCHANGED <<vars, tid>>
TraceNext == TrRun \/ TrFault \/ TrNoFault \/ TrOutcome

INSTANCE TraceCommon
=============================================================================

---------------------------- MODULE TriggerTable ----------------------------
(***************************************************************************)
(* C11: how a tracepoint's arguments are interpreted, one tracepoint at a  *)
(* time, and how a response (a list of tracepoints) is installed.          *)
(*                                                                         *)
(* Code: build_trigger, build_snapshot_action, build_log_action,           *)
(* build_metric_action, build_span_action, Location.Position.from_stage,   *)
(* LocationAction.fire_count / fire_period (__get_int), convert_response   *)
(* (group by location id, merge actions).                                  *)
(*                                                                         *)
(* This is a transcribed decision table. A row is built field by field     *)
(* (action Choose) so that TLC can both enumerate the whole table and      *)
(* sample it; when the row is complete the derived operators say what the  *)
(* tracepoint must do. A response is up to MaxTps rows (action NextTp).    *)
(* Deviation PoisonsResponse = TRUE: a tracepoint that cannot be           *)
(* interpreted loses the whole response (pre-fix convert_response).        *)
(***************************************************************************)
EXTENDS Naturals, Sequences, FiniteSets, TLC

CONSTANTS MaxTps, PoisonsResponse,
          Grid      \* "full": every value class of every key; "small": a reduced grid; "tiny": only the keys
                    \* that decide interpretability and location (for multi-tracepoint responses)

Fields == <<"stage", "method_name", "span", "snapshot", "log_msg", "condition", "fire_count", "fire_period",
            "frame_type", "watches", "metrics", "loc">>

Rich == Grid = "full"
Tiny == Grid = "tiny"
Values(f) ==
    CASE f = "stage" -> IF Rich THEN {"absent", "line_start", "line_end", "line_capture", "method_start", "method_end",
                                      "method_capture", "bogus"}
                        ELSE IF Tiny THEN {"absent", "bogus", "method_start"}
                        ELSE {"absent", "line_end", "method_start", "bogus"}
      [] f = "method_name" -> {"absent", "present"}
      [] f = "span" -> IF Rich THEN {"absent", "line", "method", "bogus"} ELSE IF Tiny THEN {"absent"}
                       ELSE {"absent", "line", "method"}
      [] f = "snapshot" -> IF Rich THEN {"absent", "collect", "no_collect", "bogus"} ELSE IF Tiny THEN {"absent"}
                           ELSE {"absent", "no_collect"}
      [] f = "log_msg" -> IF Tiny THEN {"present"} ELSE {"absent", "present"}
      [] f = "condition" -> IF Rich THEN {"absent", "blank", "true", "false"} ELSE IF Tiny THEN {"absent"}
                            ELSE {"absent", "false"}
      [] f = "fire_count" -> IF Rich THEN {"absent", "2", "-1", "bad"} ELSE IF Tiny THEN {"2"} ELSE {"absent", "2"}
      [] f = "fire_period" -> IF Rich THEN {"absent", "0", "bad"} ELSE IF Tiny THEN {"0"} ELSE {"absent", "0"}
      [] f = "frame_type" -> IF Rich THEN {"absent", "all_frame", "no_frame", "bogus"} ELSE IF Tiny THEN {"absent"}
                             ELSE {"absent", "no_frame"}
      [] f = "watches" -> IF Tiny THEN {1} ELSE {0, 1}
      [] f = "metrics" -> IF Tiny THEN {0, 1} ELSE {0, 1, 2, 7}   \* 7: one definition of a metric TYPE this agent does
                                                                   \* not know (the wire enum is open): uninterpretable
      [] f = "loc" -> {"L1", "L2"}             \* which of two source locations the tracepoint is placed on

VARIABLES row,     \* the tracepoint being built: field -> value (partial)
          k,       \* index of the next field to choose
          resp,    \* completed tracepoints of the response, in order
          exp      \* what each completed tracepoint means (derived, kept so that a behaviour carries its expectation)

vars == <<row, k, resp, exp>>

Init == row = [f \in {} |-> 0] /\ k = 1 /\ resp = <<>> /\ exp = <<>>

Choose(v) ==
    /\ k <= Len(Fields) /\ Len(resp) < MaxTps
    /\ v \in Values(Fields[k])
    /\ row' = [f \in DOMAIN row \cup {Fields[k]} |-> IF f = Fields[k] THEN v ELSE row[f]]
    /\ k' = k + 1
    /\ UNCHANGED <<resp, exp>>

---------------------------------------------------------------------------
(* what one tracepoint means *)
LineStages == {"line_start", "line_end", "line_capture"}
MethodStages == {"method_start", "method_end", "method_capture"}

EffStage(r) ==
    IF r.stage # "absent" THEN r.stage
    ELSE IF r.span = "method" THEN "method_start"
    ELSE IF r.method_name = "present" THEN "method_start"
    ELSE "line_start"

LocKind(r) ==
    IF EffStage(r) \in LineStages THEN "line"
    ELSE IF EffStage(r) \in MethodStages THEN (IF r.method_name = "present" THEN "method" ELSE "method_unnamed")
    ELSE "uninterpretable"

KnownMetrics(r) == r.metrics \in {0, 1, 2}
Interpretable(r) == LocKind(r) \in {"line", "method"} /\ KnownMetrics(r)

Collects(r) == r.snapshot # "no_collect"
Effects(r) ==
    (IF Collects(r) THEN {"snapshot"} ELSE {})
      \cup (IF r.log_msg = "present" THEN {"log"} ELSE {})
      \cup (IF r.metrics \in {1, 2} THEN {"metric1"} ELSE {}) \cup (IF r.metrics = 2 THEN {"metric2"} ELSE {})
      \cup (IF r.span # "absent" THEN {"span"} ELSE {})

Deferred(r) == Collects(r) /\ r.stage \in {"line_capture", "method_capture"}
EffCount(r) == IF r.fire_count = "2" THEN 2 ELSE IF r.fire_count = "-1" THEN 99 ELSE 1
EffPeriodZero(r) == r.fire_period = "0"
CondHolds(r) == r.condition # "false"

(* three hits of the location: two at the same instant, a third one default period later *)
FiresAt(r, h) ==
    /\ CondHolds(r)
    /\ CASE h = 1 -> EffCount(r) >= 1
         [] h = 2 -> EffCount(r) >= 2 /\ EffPeriodZero(r)
         [] h = 3 -> IF EffPeriodZero(r) THEN EffCount(r) >= 3 ELSE EffCount(r) >= 2

(* what installing a response means: every interpretable tracepoint, each with all of its own effects *)
Installed(rs) ==
    IF PoisonsResponse /\ \E i \in 1..Len(rs) : ~Interpretable(rs[i])
      THEN {}
      ELSE {i \in 1..Len(rs) : Interpretable(rs[i])}

NextTp ==
    /\ k = Len(Fields) + 1
    /\ resp' = Append(resp, row)
    /\ exp' = Append(exp, [kind |-> LocKind(row), interp |-> Interpretable(row), effects |-> Effects(row),
                           fires |-> {h \in 1..3 : FiresAt(row, h)}, deferred |-> Deferred(row)])
    /\ row' = [f \in {} |-> 0] /\ k' = 1

Next == (k <= Len(Fields) /\ \E v \in Values(Fields[k]) : Choose(v)) \/ NextTp
        \/ (Len(resp) = MaxTps /\ UNCHANGED vars)

Spec == Init /\ [][Next]_vars

Complete(r) == DOMAIN r = {Fields[i] : i \in 1..Len(Fields)}

(* C11 sanity of the table itself *)
SnapshotUnlessSwitchedOff == \A i \in 1..Len(resp) : ("snapshot" \in Effects(resp[i])) <=> (resp[i].snapshot # "no_collect")
LogWhenGiven == \A i \in 1..Len(resp) : ("log" \in Effects(resp[i])) <=> (resp[i].log_msg = "present")
OneMetricPerDefinition == \A i \in 1..Len(resp) :
                              Cardinality(Effects(resp[i]) \cap {"metric1", "metric2"})
                                  = (IF KnownMetrics(resp[i]) THEN resp[i].metrics ELSE 0)
SpanWhenRequested == \A i \in 1..Len(resp) : ("span" \in Effects(resp[i])) <=> (resp[i].span # "absent")
PlacedByStage == \A i \in 1..Len(resp) :
                     /\ (resp[i].stage \in LineStages => LocKind(resp[i]) = "line")
                     /\ (resp[i].stage \in MethodStages /\ resp[i].method_name = "present" => LocKind(resp[i]) = "method")
OnlyItself == \A i \in 1..Len(resp) : Interpretable(resp[i]) => i \in Installed(resp)
=============================================================================

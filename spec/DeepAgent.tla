------------------------------ MODULE DeepAgent ------------------------------
(***************************************************************************)
(* Composition: one agent process end to end - start, poll, install, hit,  *)
(* deliver, shutdown - as seen from outside (the service's side of the     *)
(* wire, the application's calls, the host thread's hits).                 *)
(* It ties together what ConfigSync (C12), Dispatch (C03), Limiter (C04),  *)
(* TaskFlush (C09), Wire (C08) and Lifecycle (C14) say separately, and is  *)
(* used to validate end-to-end loopback runs (a real gRPC server, the real *)
(* deep.start()).                                                          *)
(*                                                                         *)
(* Service configurations are versions 1, 2, ...; version v carries one    *)
(* tracepoint "cfg-v" on the host's line (unlimited fire count).           *)
(***************************************************************************)
EXTENDS Naturals, Sequences, FiniteSets, TLC

CONSTANTS MaxVersion, MaxHits, MaxPolls,
          ForgetsOnResume,    \* deviation: an agent OBJECT that is started again keeps reporting the hash it holds
                              \* but its handler, emptied by the shutdown, is never given that configuration again
          SharedConfigStore   \* deviation (pre-fix ConfigService): every agent of the process shares ONE tracepoint
                              \* configuration store - a second agent starts with the first one's hash

VARIABLES phase,      \* "new" | "running" | "stopping" | "stopped"
          svc,        \* version the service currently offers
          hash,       \* version hash the agent reports (0 = none)
          pollOpen,   \* a poll request is in flight: its hash, or 99 when none
          installed,  \* version the trace handler acts on (0 = nothing)
          toApply,    \* versions received and not yet applied by a background task (set)
          fired,      \* snapshots produced by hits: sequence of versions (the tracepoint that fired)
          received,   \* how many of them the service has received
          nhits, npolls,
          late        \* something reached the service after shutdown() had returned

vars == <<phase, svc, hash, pollOpen, installed, toApply, fired, received, nhits, npolls, late>>

None == 99

Init == /\ phase = "new" /\ svc \in 0..1 /\ hash = 0 /\ pollOpen = None /\ installed = 0 /\ toApply = {}
        /\ fired = <<>> /\ received = 0 /\ nhits = 0 /\ npolls = 0 /\ late = FALSE

Start == phase = "new" /\ phase' = "running"
         /\ UNCHANGED <<svc, hash, pollOpen, installed, toApply, fired, received, nhits, npolls, late>>

SvcChange == svc < MaxVersion /\ svc' = svc + 1
             /\ UNCHANGED <<phase, hash, pollOpen, installed, toApply, fired, received, nhits, npolls, late>>

PollReq == phase \in {"running", "stopping"} /\ pollOpen = None /\ npolls < MaxPolls
           /\ pollOpen' = hash /\ npolls' = npolls + 1
           /\ UNCHANGED <<phase, svc, hash, installed, toApply, fired, received, nhits, late>>

(* the service answers with its current version unless the request already carries it *)
PollResp ==
    /\ pollOpen # None
    /\ IF pollOpen = svc \/ svc = 0
         THEN UNCHANGED <<hash, toApply>>
         ELSE hash' = svc /\ toApply' = toApply \cup {svc}
    /\ pollOpen' = None
    /\ UNCHANGED <<phase, svc, installed, fired, received, nhits, npolls, late>>

(* a background task applies the CURRENT configuration (C12) *)
Apply == toApply # {} /\ installed' = hash /\ toApply' = {}
         /\ UNCHANGED <<phase, svc, hash, pollOpen, fired, received, nhits, npolls, late>>

(* the host thread reaches the line: the tracepoint of the installed version fires (C03) *)
Hit == /\ nhits < MaxHits /\ nhits' = nhits + 1
       /\ fired' = IF phase \in {"running"} /\ installed # 0 THEN Append(fired, installed) ELSE fired
       /\ UNCHANGED <<phase, svc, hash, pollOpen, installed, toApply, received, npolls, late>>

(* delivery happens on a background worker (C09), in order of submission per worker - here: any order *)
Deliver == /\ received < Len(fired)
           /\ received' = received + 1
           /\ late' = (late \/ phase = "stopped")
           /\ UNCHANGED <<phase, svc, hash, pollOpen, installed, toApply, fired, nhits, npolls>>

ShutdownBegin == phase = "running" /\ phase' = "stopping" /\ installed' = 0
                 /\ UNCHANGED <<svc, hash, pollOpen, toApply, fired, received, nhits, npolls, late>>

(* shutdown() returns only when delivery is drained and polling has stopped (C14, C09) *)
ShutdownEnd == /\ phase = "stopping" /\ received = Len(fired) /\ pollOpen = None
               /\ phase' = "stopped"
               /\ UNCHANGED <<svc, hash, pollOpen, installed, toApply, fired, received, nhits, npolls, late>>

(* the application starts the agent again in the same process (a NEW agent): it knows no configuration yet, so it *)
(* reports no hash and the service sends it the current configuration                                             *)
Restart == /\ phase = "stopped"
           /\ phase' = "running"
           /\ hash' = IF SharedConfigStore THEN hash ELSE 0
           /\ installed' = 0 /\ toApply' = {}
           /\ UNCHANGED <<svc, pollOpen, fired, received, nhits, npolls, late>>

(* the application starts the SAME agent object again (Deep.shutdown(); Deep.start()): its configuration store still *)
(* holds the last configuration and reports its hash - so the service will answer 'no change' - and the handler,  *)
(* which the shutdown emptied, has to be handed that configuration again                                          *)
Resume == /\ phase = "stopped"
          /\ phase' = "running"
          /\ toApply' = IF hash # 0 /\ ~ForgetsOnResume THEN {hash} ELSE {}
          /\ UNCHANGED <<svc, hash, pollOpen, installed, fired, received, nhits, npolls, late>>

Next == Start \/ Restart \/ Resume \/ SvcChange \/ PollReq \/ PollResp \/ Apply \/ Hit \/ Deliver \/ ShutdownBegin \/ ShutdownEnd
        \/ (phase = "stopped" /\ UNCHANGED vars)

Spec == Init /\ [][Next]_vars

(* end-to-end properties *)
NothingAfterShutdown == ~late
NoSpuriousSnapshots == received <= Len(fired)
OnlyOfferedVersions == \A i \in 1..Len(fired) : fired[i] \in 1..MaxVersion
HashIsReceivedConfig == hash <= svc
(* the hash the agent reports is the hash of a configuration it has, or is about to have, installed (C12) *)
HashMeansInstalled == (phase = "running" /\ hash # 0) => (installed = hash \/ toApply # {})
QuietWhenStopped == phase = "stopped" => (received = Len(fired) /\ pollOpen = None)
=============================================================================

------------------------- MODULE HandlerIsolation -------------------------
(***************************************************************************)
(* C09, several task handlers in one process (two agents, an agent per     *)
(* sub-application, a reloader): every handler numbers its jobs from 1 and *)
(* keeps its own table of pending jobs; flush(h) waits for the jobs h      *)
(* accepted - whatever other handlers do with jobs of the same number.     *)
(*                                                                         *)
(* Code: deep.task.TaskHandler (_job_id, _pending, submit_task, the done   *)
(* callback, flush, open).  TaskFlush.tla has the steps inside ONE handler *)
(* at the grain of the code's interleavings; this module abstracts each    *)
(* call to one step and looks at what is shared between handlers.          *)
(*                                                                         *)
(* Deviation (must give a counterexample): SharedTable - the pending table *)
(* is one per process, keyed by the job number only.                       *)
(***************************************************************************)
EXTENDS Naturals, FiniteSets, TLC

CONSTANTS Handlers, MaxJobs, SharedTable

VARIABLES nextId,      \* [Handlers -> Nat]   the handler's job counter
          table,       \* key -> job          pending tables (key = <<h, id>>, or <<"*", id>> when shared)
          running,     \* set of jobs <<h, id>> accepted and not finished
          isOpen,      \* [Handlers -> BOOLEAN]
          waited,      \* [Handlers -> SUBSET jobs]   what the last flush of h waited for (history)
          missed,      \* [Handlers -> SUBSET jobs]   own unfinished jobs the last flush of h did NOT wait for
          last         \* the step just taken, <<name, handler, job number>> (read by the replay harness)
vars == <<nextId, table, running, isOpen, waited, missed, last>>

Key(h, id) == IF SharedTable THEN <<"*", id>> ELSE <<h, id>>
Visible(h) == {k \in DOMAIN table : SharedTable \/ k[1] = h}     \* the entries h's flush iterates over

Init == /\ nextId = [h \in Handlers |-> 0]
        /\ table = << >>
        /\ running = {}
        /\ isOpen = [h \in Handlers |-> TRUE]
        /\ waited = [h \in Handlers |-> {}]
        /\ missed = [h \in Handlers |-> {}]
        /\ last = <<"Init", "", 0>>

Submit(h) ==
    /\ isOpen[h]
    /\ nextId[h] < MaxJobs
    /\ LET id == nextId[h] + 1 IN
       /\ nextId' = [nextId EXCEPT ![h] = id]
       /\ table' = [k \in DOMAIN table \cup {Key(h, id)} |-> IF k = Key(h, id) THEN <<h, id>> ELSE table[k]]
       /\ running' = running \cup {<<h, id>>}
       /\ last' = <<"Submit", h, id>>
    /\ UNCHANGED <<isOpen, waited, missed>>

(* a submit on a closed handler raises and changes nothing *)
Refused(h) == /\ ~isOpen[h]
              /\ last' = <<"Refused", h, 0>>
              /\ UNCHANGED <<nextId, table, running, isOpen, waited, missed>>

(* the job ends; its done callback deletes the entry under its key - whoever put it there *)
Finish(h, id) ==
    /\ <<h, id>> \in running
    /\ running' = running \ {<<h, id>>}
    /\ table' = [k \in DOMAIN table \ {Key(h, id)} |-> table[k]]
    /\ last' = <<"Finish", h, id>>
    /\ UNCHANGED <<nextId, isOpen, waited, missed>>

Flush(h) ==
    /\ isOpen' = [isOpen EXCEPT ![h] = FALSE]
    /\ LET w == {table[k] : k \in Visible(h)} \cap running IN
       /\ waited' = [waited EXCEPT ![h] = w]
       /\ missed' = [missed EXCEPT ![h] = {j \in running : j[1] = h} \ w]
    /\ last' = <<"Flush", h, 0>>
    /\ UNCHANGED <<nextId, table, running>>

Reopen(h) ==
    /\ ~isOpen[h]
    /\ isOpen' = [isOpen EXCEPT ![h] = TRUE]
    /\ last' = <<"Reopen", h, 0>>
    /\ UNCHANGED <<nextId, table, running, waited, missed>>

Next == \E h \in Handlers : \/ Submit(h) \/ Refused(h) \/ Flush(h) \/ Reopen(h)
                            \/ \E id \in 1..MaxJobs : Finish(h, id)

Spec == Init /\ [][Next]_vars

(* flush(h) waits for every job h accepted that has not finished *)
FlushCoversOwn == \A h \in Handlers : missed[h] = {}
(* every unfinished job is in its handler's table (what flush reads) *)
PendingAccurate == \A j \in running : Key(j[1], j[2]) \in DOMAIN table /\ table[Key(j[1], j[2])] = j
(* a handler's flush is not held by another handler's jobs *)
WaitsOnlyOwn == \A h \in Handlers : \A j \in waited[h] : j[1] = h
=============================================================================

----------------------------- MODULE ConfigSync -----------------------------
(***************************************************************************)
(* C12 (installed tracepoints converge to the service's latest             *)
(* configuration) and C13 (registration handles).                          *)
(*                                                                         *)
(* Code: LongPoll.poll, TracepointConfigService.update_new_config /        *)
(* update_no_change / __trigger_update / update_listeners / add_custom /   *)
(* remove_custom, Deep.register_tracepoint, TracepointRegistration,        *)
(* TracepointHandlerUpdateListener.config_change, TriggerHandler.new_config*)
(* and the 2-worker TaskHandler pool that applies the updates.             *)
(*                                                                         *)
(* Service configurations are versions 1, 2, ... (hash = version).         *)
(* Actions, one per critical section:                                      *)
(*   SvcChange          the service gets a new configuration               *)
(*   PollSend           poll(): the request carries current_hash           *)
(*   PollAnswer(kind)   the response is handled: update -> hash and config *)
(*                      stored, an update task submitted; no_change; error;*)
(*                      malformed (conversion raises, nothing changes)     *)
(*   Register / Unregister(r)   in-code registrations, each submits a task *)
(*   Take(w), Apply(w)  a pool worker takes the next task / runs           *)
(*                      update_listeners (which assigns the handler's list)*)
(* Deviations (pre-fix code):                                              *)
(*   CapturedConfig     Apply installs the polled configuration captured   *)
(*                      when the task was submitted, not the current one   *)
(*   HandleIsLocation   the handle returned by Register is the location id:*)
(*                      Unregister removes the FIRST registration there    *)
(***************************************************************************)
EXTENDS Naturals, Sequences, FiniteSets, TLC

CONSTANTS Workers, MaxVersion, MaxRegs, MaxPolls, Locations,
          CapturedConfig, HandleIsLocation

VARIABLES svc,        \* the service's current configuration version (0 = empty configuration, hash 0)
          hash,       \* TracepointConfigService._current_hash (0 = None)
          polled,     \* version of TracepointConfigService._tracepoint_config
          custom,     \* sequence of live registrations [r, loc] in registration order (_custom)
          nreg,       \* registrations made so far
          regloc,     \* regloc[r] = location registration r was made at (what its handle knows)
          jobs,       \* FIFO pool queue of update tasks: [cfg] = polled version captured at submit time
          wjob,       \* worker -> task it is running, or None
          installed,  \* what the trace handler matches: [cfg, regs]  (TriggerHandler._tp_config)
          pollpc,     \* "idle" | "sent"
          reqHash,    \* hash carried by the request in flight
          npoll,
          lastGood,   \* version of the last configuration received intact
          removed     \* history: registrations removed by an Unregister call, as <<handle, removed r>> pairs

vars == <<svc, hash, polled, custom, nreg, regloc, jobs, wjob, installed, pollpc, reqHash, npoll, lastGood, removed>>

None == [cfg |-> 99]
Regs(c) == {c[i].r : i \in 1..Len(c)}

Init ==
    /\ svc = 0 /\ hash = 0 /\ polled = 0
    /\ custom = <<>> /\ nreg = 0 /\ regloc = <<>>
    /\ jobs = <<>> /\ wjob = [w \in Workers |-> None]
    /\ installed = [cfg |-> 0, regs |-> {}]
    /\ pollpc = "idle" /\ reqHash = 0 /\ npoll = 0
    /\ lastGood = 0
    /\ removed = {}

SubmitWith(v) == jobs' = Append(jobs, [cfg |-> v])    \* the task captures the polled configuration

SvcChange ==
    /\ svc < MaxVersion
    /\ svc' = svc + 1
    /\ UNCHANGED <<hash, polled, custom, nreg, regloc, jobs, wjob, installed, pollpc, reqHash, npoll, lastGood, removed>>

PollSend ==
    /\ pollpc = "idle" /\ npoll < MaxPolls
    /\ pollpc' = "sent" /\ reqHash' = hash /\ npoll' = npoll + 1
    /\ UNCHANGED <<svc, hash, polled, custom, nreg, regloc, jobs, wjob, installed, lastGood, removed>>

PollAnswer(kind) ==
    /\ pollpc = "sent"
    /\ pollpc' = "idle"
    /\ CASE kind = "update" ->
              /\ reqHash # svc               \* the service only sends a configuration when the hash differs
              /\ hash' = svc /\ polled' = svc /\ lastGood' = svc
              /\ SubmitWith(svc)
         [] kind = "no_change" ->
              /\ reqHash = svc
              /\ UNCHANGED <<hash, polled, lastGood, jobs>>
         [] kind \in {"error", "malformed", "unknown_type"} ->     \* unknown_type: an answer of a response type this
                                                                   \* agent does not know (the wire enum is open)
              UNCHANGED <<hash, polled, lastGood, jobs>>
    /\ UNCHANGED <<svc, custom, nreg, regloc, wjob, installed, reqHash, npoll, removed>>

Register(loc) ==
    /\ nreg < MaxRegs
    /\ nreg' = nreg + 1
    /\ custom' = Append(custom, [r |-> nreg + 1, loc |-> loc])
    /\ regloc' = Append(regloc, loc)
    /\ SubmitWith(polled)
    /\ UNCHANGED <<svc, hash, polled, wjob, installed, pollpc, reqHash, npoll, lastGood, removed>>

RemoveAt(c, i) == SubSeq(c, 1, i - 1) \o SubSeq(c, i + 1, Len(c))

(* the application calls unregister() on the handle of registration r *)
Unregister(r) ==
    /\ r \in 1..nreg
    /\ LET loc == regloc[r]
           idxs == IF HandleIsLocation
                     THEN {i \in 1..Len(custom) : custom[i].loc = loc}     \* first registration at that location
                     ELSE {i \in 1..Len(custom) : custom[i].r = r}
       IN IF idxs = {}
            THEN UNCHANGED <<custom, jobs, removed>>                         \* doing it twice is harmless
            ELSE LET i == CHOOSE k \in idxs : \A m \in idxs : k <= m
                 IN /\ custom' = RemoveAt(custom, i)
                    /\ removed' = removed \cup {<<r, custom[i].r>>}
                    /\ SubmitWith(polled)
    /\ UNCHANGED <<svc, hash, polled, nreg, regloc, wjob, installed, pollpc, reqHash, npoll, lastGood>>

Take(w) ==
    /\ wjob[w] = None /\ jobs # <<>>
    /\ wjob' = [wjob EXCEPT ![w] = Head(jobs)]
    /\ jobs' = Tail(jobs)
    /\ UNCHANGED <<svc, hash, polled, custom, nreg, regloc, installed, pollpc, reqHash, npoll, lastGood, removed>>

Apply(w) ==
    /\ wjob[w] # None
    /\ installed' = [cfg |-> IF CapturedConfig THEN wjob[w].cfg ELSE polled, regs |-> Regs(custom)]
    /\ wjob' = [wjob EXCEPT ![w] = None]
    /\ UNCHANGED <<svc, hash, polled, custom, nreg, regloc, jobs, pollpc, reqHash, npoll, lastGood, removed>>

Next ==
    \/ SvcChange \/ PollSend
    \/ \E k \in {"update", "no_change", "error", "malformed", "unknown_type"} : PollAnswer(k)
    \/ \E loc \in Locations : Register(loc)
    \/ \E r \in 1..MaxRegs : Unregister(r)
    \/ \E w \in Workers : Take(w) \/ Apply(w)

Spec == Init /\ [][Next]_vars

---------------------------------------------------------------------------
Quiescent == jobs = <<>> /\ (\A w \in Workers : wjob[w] = None) /\ pollpc = "idle"

(* C12 *)
Converged == Quiescent => (installed.cfg = polled /\ installed.regs = Regs(custom))
LastGoodInForce == polled = lastGood /\ hash = lastGood
NeverOlder == [][installed'.cfg >= installed.cfg]_vars
HashHonest == Quiescent => installed.cfg = hash
NoChangeIsNoop == [][(pollpc = "sent" /\ pollpc' = "idle" /\ reqHash = svc)
                        => UNCHANGED <<hash, polled, installed, jobs>>]_vars

(* C13 *)
RemovesExactlyIt == \A p \in removed : p[1] = p[2]
HandlesUnique == \A i, j \in 1..Len(custom) : custom[i].r = custom[j].r => i = j
AlongsideService == Quiescent => installed.regs = Regs(custom)

TypeOK == /\ svc \in 0..MaxVersion /\ hash \in 0..MaxVersion /\ polled \in 0..MaxVersion
          /\ Len(custom) <= MaxRegs /\ Len(jobs) <= MaxVersion + 2 * MaxRegs + 2
=============================================================================

---------------------------- MODULE LogTemplate ----------------------------
(***************************************************************************)
(* C16: a log tracepoint emits the template with every field evaluated in  *)
(* place.                                                                  *)
(*                                                                         *)
(* Code: LogActionContext.process_log (string.Formatter subclass whose     *)
(* get_field evaluates the field as a LOG watch), LogActionResult.process  *)
(* (delivery to the tracepoint logger), SnapshotActionContext.             *)
(* _process_action (log message + LOG watches recorded on the snapshot).   *)
(*                                                                         *)
(* A template is a sequence of tokens. The environment appends tokens      *)
(* (AddToken); the formatter then scans them one at a time (Scan),         *)
(* appending to the output and, for a field, to the watch list; Emit hands *)
(* the message to the logger with the tracepoint id and the trigger        *)
(* context id in their own slots.                                          *)
(* Deviation SwappedIds = TRUE: the two ids are passed in each other's     *)
(* place (pre-fix LogActionResult.process).                                *)
(***************************************************************************)
EXTENDS Naturals, Sequences, TLC

CONSTANTS MaxTokens, SwappedIds

Lits == {"lit_a", "lit_space", "lit_unicode", "lit_percent"}   \* lit_percent: text with printf directives ("9% %s %d")
Braces == {"lbrace2", "rbrace2"}              \* the escapes {{ and }}
FieldOk == {"f_local", "f_attr", "f_index", "f_call", "f_percent",
            "f_global",             \* a module global: a value that is NOT among the variables of the collected frame
            "f_neq", "f_colon",     \* expressions that hold '!' or ':' outside brackets (a != 9, a lambda, a slice
                                     \* in a call, a dict display): the field is the WHOLE text between the braces
            "f_braces",             \* an expression that holds braces itself (a set display inside a call): the field ends
                                     \* at ITS closing brace
            "f_zero", "f_empty"}     \* fields whose value is falsy (0, the empty string): still values, rendered as text
            \* f_percent: the value text holds "%s"
FieldBad == {"f_missing", "f_raises",
             "f_badconv"}   \* `{a!x}`: not an expression, and a conversion string.Formatter refuses only while it FORMATS
Tokens == Lits \cup Braces \cup FieldOk \cup FieldBad

VARIABLES tpl,      \* the template (token sequence)
          pos,      \* scanner position (0 = still building the template)
          out,      \* output pieces so far: "lit:<tok>" | "brace:{" | "brace:}" | "val:<field>" | "err:<field>"
          watches,  \* LOG watch results in order: [field, ok]
          sent      \* what the logger received: [msg, tp_slot, ctx_slot]; the slots are "none" until Emit

vars == <<tpl, pos, out, watches, sent>>

Init == tpl = <<>> /\ pos = 0 /\ out = <<>> /\ watches = <<>> /\ sent = [msg |-> <<>>, tp_slot |-> "none", ctx_slot |-> "none"]

AddToken(t) == pos = 0 /\ Len(tpl) < MaxTokens /\ tpl' = Append(tpl, t) /\ UNCHANGED <<pos, out, watches, sent>>
Start == pos = 0 /\ pos' = 1 /\ UNCHANGED <<tpl, out, watches, sent>>

Piece(t) == IF t \in Lits THEN <<"lit", t>>
            ELSE IF t = "lbrace2" THEN <<"brace", "{">>
            ELSE IF t = "rbrace2" THEN <<"brace", "}">>
            ELSE IF t \in FieldOk THEN <<"val", t>>
            ELSE <<"err", t>>

Scan ==
    /\ pos \in 1..Len(tpl)
    /\ out' = Append(out, Piece(tpl[pos]))
    /\ watches' = IF tpl[pos] \in FieldOk \cup FieldBad
                    THEN Append(watches, [field |-> tpl[pos], ok |-> tpl[pos] \in FieldOk])
                    ELSE watches
    /\ pos' = pos + 1
    /\ UNCHANGED <<tpl, sent>>

Emit ==
    /\ pos = Len(tpl) + 1 /\ sent.tp_slot = "none"
    /\ sent' = [msg |-> out,
                tp_slot |-> IF SwappedIds THEN "ctx_id" ELSE "tp_id",
                ctx_slot |-> IF SwappedIds THEN "tp_id" ELSE "ctx_id"]
    /\ UNCHANGED <<tpl, pos, out, watches>>

Next == (\E t \in Tokens : AddToken(t)) \/ Start \/ Scan \/ Emit \/ (sent.tp_slot # "none" /\ UNCHANGED vars)

Spec == Init /\ [][Next]_vars

Fields(s) == SelectSeq(s, LAMBDA t : t \in FieldOk \cup FieldBad)

(* C16 *)
Done == sent.tp_slot # "none"
EveryTokenRendered == Done => (Len(sent.msg) = Len(tpl) /\ \A i \in 1..Len(tpl) : sent.msg[i] = Piece(tpl[i]))
FailingFieldLocal == Done => \A i \in 1..Len(tpl) : (tpl[i] \in FieldBad => sent.msg[i][1] = "err")
OneWatchPerField == Done => (Len(watches) = Len(Fields(tpl))
                             /\ \A i \in 1..Len(watches) : watches[i].field = Fields(tpl)[i])
IdsInPlace == Done => (sent.tp_slot = "tp_id" /\ sent.ctx_slot = "ctx_id")
=============================================================================

"""C07 - the variable table is closed and de-duplicated by object identity (spec/Collector.tla)."""
import contextlib
import random
import sys

from .. import core, tlc
from .. import graphs as G
from .. import rig as R
from . import c05

W_SMALL = dict(n=2, kinds=('int', 'list', 'obj'), max_child=2, max_roots=2, vars_set=(1, 3), str_set=(2,),
               coll_set=(2,), depth_set=(2, 3), max_watch=2, wvars_set=(1, 3))
W_MED = dict(n=3, kinds=('int', 'list'), max_child=2, max_roots=1, vars_set=(3,), str_set=(2,), coll_set=(2,),
             depth_set=(3,), max_watch=2, wvars_set=(2,))


@contextlib.contextmanager
def watch_budget(n):
    """The watch processors use the default VariableProcessorConfig instance; make its variable budget small."""
    from deep.processor.variable_set_processor import VariableSetProcessor
    cfg = VariableSetProcessor.__init__.__defaults__[0]
    old = cfg.max_variables
    cfg.max_variables = n
    try:
        yield
    finally:
        cfg.max_variables = old


def with_watches(rng, inst, built_nodes):
    n = len(inst['kind'])
    inst = dict(inst)
    inst['watch'] = [rng.randint(1, n) for _ in range(rng.randint(1, 3))]
    return inst


def run_instances_budget(c, insts, wd, kind, budget):
    traces, meta, skipped = c05.run_instances(c, insts, wd, kind)
    for tr in traces:
        tr[0]['wlim'] = dict(tr[0]['wlim'], maxVars=budget)
    return traces, meta, skipped


HOST = '''
class Wide:
    __slots__ = tuple('s%d' % i for i in range(48)) + ('tag',)

    def __init__(self, tag):
        self.tag = tag

    def __str__(self):
        return 'Wide#%d' % self.tag


class Plain:
    def __init__(self, tag):
        self.tag = tag

    def __str__(self):
        return 'Plain#%d' % self.tag


def fresh(a, b):
    shared = [a, b]
    alias = shared
    return a  # TP:fresh
'''


def temporaries_leg(c, wd):
    """Watches that create fresh values of the same shape: each result must be its own value (no id reuse)."""
    mod, path, marks = R.write_host(wd, HOST)
    base = path.rsplit('/', 1)[-1]
    sets = [["['w1', a]", "['w2', b]", "['w3', a]"], ["(a, 'x' * 3)", "(b, 'y' * 3)"], ["a + 100000", "b + 200000"],
            ["shared", "alias", "[shared]"], ["{'k': a}", "{'k': b}", "{'k': a}"], ["str(a) * 2", "str(b) * 2"]]
    for ws in sets:
        rg = R.Rig()
        try:
            rg.install([{'id': 't', 'path': base, 'line': marks['fresh'], 'args': {}, 'watches': ws}])
            res = rg.run(mod.fresh, 7, 9, only_file=path)
            bad = None
            snaps = rg.snapshots()
            if res != ('ok', 7) or rg.escaped or len(snaps) != 1:
                bad = 'no snapshot / host changed %r %r' % (res, rg.escaped)
            else:
                s = snaps[0]
                env = {'a': 7, 'b': 9}
                env['shared'] = [7, 9]
                env['alias'] = env['shared']
                for w in s.watches:
                    want = eval(w.expression, {}, env)
                    if w.error is not None or w.result is None or w.result.vid not in s.var_lookup:
                        bad = 'watch %s does not resolve: %s' % (w.expression, w.__dict__)
                        break
                    v = s.var_lookup[w.result.vid]
                    text = G.text_of(type(want).__name__, want) if isinstance(want, (list, tuple, dict)) else str(want)
                    if v.type != type(want).__name__ or v.value != text:
                        bad = 'watch %s shows %s %r, its value is %s %r' % (w.expression, v.type, v.value,
                                                                            type(want).__name__, text)
                        break
                    if isinstance(want, (list, tuple)):
                        got = [s.var_lookup[ch.vid].value for ch in v.children if ch.vid in s.var_lookup]
                        exp = [G.text_of(type(x).__name__, x) if isinstance(x, (list, tuple, dict)) else str(x)
                               for x in want]
                        if got != exp:
                            bad = 'watch %s children %s, its value has %s (another object\'s entry was reused)' % (
                                w.expression, got, exp)
                            break
                    if isinstance(want, dict):
                        got = [s.var_lookup[ch.vid].value for ch in v.children if ch.vid in s.var_lookup]
                        if got != [str(x) for x in want.values()]:
                            bad = 'watch %s children %s, expected %s' % (w.expression, got, list(want.values()))
                            break
                # shared/alias must be one id
                if not bad and ws[0] == 'shared':
                    ids = [w.result.vid for w in s.watches[:2]]
                    fv = {v.name: v.vid for v in s.frames[0].variables}
                    if len(set(ids)) != 1 or ids[0] != fv['shared'] or fv['shared'] != fv['alias']:
                        bad = 'one object reached by two names has ids %s / frame %s' % (ids, fv)
            c.traces_validated += 1
            c.note_case(key=('temporaries', str(ws)), nontrivial=True)
            if bad:
                p_ = c.save_replay({'direction': 'C2S', 'kind': 'temporaries', 'watches': ws, 'what': bad})
                c.violation('watches %s: %s' % (ws, bad), p_, signature={'watches': 'fresh-temporaries'})
        finally:
            rg.close()
    # many watches that each create a fresh value of one shape: every result must be its own object's entry
    for cls, n in (('Wide', 40), ('Plain', 40)):
        rg = R.Rig()
        try:
            ws = ['%s(%d)' % (cls, i) for i in range(n)] + ['[a, %d]' % i for i in range(10)]
            rg.install([{'id': 't', 'path': base, 'line': marks['fresh'], 'args': {}, 'watches': ws}])
            res = rg.run(mod.fresh, 7, 9, only_file=path)
            bad = None
            snaps = rg.snapshots()
            if res != ('ok', 7) or rg.escaped or len(snaps) != 1:
                bad = 'no snapshot / host changed %r %r' % (res, rg.escaped)
            else:
                s = snaps[0]
                ids = []
                for i, w in enumerate(s.watches):
                    if w.error is not None or w.result is None or w.result.vid not in s.var_lookup:
                        bad = 'watch %s does not resolve' % w.expression
                        break
                    v = s.var_lookup[w.result.vid]
                    ids.append(w.result.vid)
                    if i < n and v.value != '%s#%d' % (cls, i):
                        bad = 'watch %s shows %r: it refers to the entry of another (released) object' % (w.expression,
                                                                                                         v.value)
                        break
                    if i >= n:
                        kids = [s.var_lookup[ch.vid].value for ch in v.children if ch.vid in s.var_lookup]
                        if kids != ['7', str(i - n)]:
                            bad = 'watch %s children %s' % (w.expression, kids)
                            break
                if not bad and len(set(ids)) != len(ids):
                    bad = 'different watch values share a variable id'
            c.traces_validated += 1
            c.note_case(key=('temporaries-many', cls), nontrivial=True)
            if bad:
                p_ = c.save_replay({'direction': 'C2S', 'kind': 'temporaries-many', 'class': cls, 'what': bad})
                c.violation('%d watches creating fresh %s objects: %s' % (n, cls, bad), p_,
                            signature={'watches': 'fresh-temporaries'})
        finally:
            rg.close()
    # several actions on one event: every snapshot's references resolve in its own table
    for tps in ([{'id': 'a', 'args': {}, 'watches': ['shared', 'a + 1']}, {'id': 'b', 'args': {}, 'watches': ['shared', 'b']}],
                [{'id': 'l', 'args': {'log_msg': 'v={shared} {a}', 'snapshot': 'no_collect'}, 'watches': []},
                 {'id': 's', 'args': {}, 'watches': ['alias']}],
                [{'id': 's', 'args': {'log_msg': 'w={shared}'}, 'watches': ['alias']},
                 {'id': 't', 'args': {'frame_type': 'all_frame'}, 'watches': []}]):
        rg = R.Rig(plugins=[R.role_plugin('lg', {'log'})])
        try:
            rg.install([dict(t, path=base, line=marks['fresh']) for t in tps])
            box = {}
            import threading
            # in a fresh thread: the frames below the host function are the interpreter's thread bootstrap, not the
            # harness (whose frames hold references to frame-locals mappings, the listed known finding)
            th = threading.Thread(target=lambda: box.update(res=rg.run(mod.fresh, 7, 9, only_file=path)))
            th.start()
            th.join(60)
            res = box.get('res')
            bad = None
            nsnap = sum(1 for t in tps if t['args'].get('snapshot') != 'no_collect')
            if res != ('ok', 7) or rg.escaped or len(rg.snapshots()) != nsnap:
                bad = 'host changed / %d snapshots for %d collecting tracepoints' % (len(rg.snapshots()), nsnap)
            for s in rg.snapshots():
                refs = [('frame %d' % fi, v.vid) for fi, f in enumerate(s.frames) for v in f.variables]
                refs += [('child of %s' % k, ch.vid) for k, v in s.var_lookup.items() for ch in v.children]
                refs += [('watch %s' % w.expression, w.result.vid) for w in s.watches if w.result is not None]
                for where, vid in refs:
                    if vid not in s.var_lookup:
                        bad = 'snapshot of %s: %s refers to id %r which is not in its table' % (s.tracepoint.id, where, vid)
                        break
                names = sorted(v.name for v in s.frames[0].variables)
                if not bad and names != ['a', 'alias', 'b', 'shared']:
                    bad = 'snapshot of %s: top frame variables %s' % (s.tracepoint.id, names)
                if bad:
                    break
            c.traces_validated += 1
            c.note_case(key=('two-actions', str([t['id'] for t in tps])), nontrivial=True)
            if bad:
                p_ = c.save_replay({'direction': 'C2S', 'kind': 'two-actions', 'tps': tps, 'what': bad})
                c.violation('tracepoints %s on one line: %s' % ([t['id'] for t in tps], bad), p_)
        finally:
            rg.close()
    # the frame's own locals() mapping as a watch value
    rg = R.Rig()
    try:
        rg.install([{'id': 't', 'path': base, 'line': marks['fresh'], 'args': {}, 'watches': ['locals()']}])
        rg.run(mod.fresh, 1, 2, only_file=path)
        s = rg.snapshots()[0]
        w = s.watches[0]
        c.traces_validated += 1
        c.note_case(key=('temporaries', 'locals()'), nontrivial=True)
        if w.error is None and (w.result is None or w.result.vid not in s.var_lookup):
            p_ = c.save_replay({'direction': 'C2S', 'kind': 'locals-watch', 'what': 'dangling id %r' % w.result.vid})
            c.violation("watch 'locals()' refers to variable id %r which is not in the table" % w.result.vid, p_,
                        signature={'watch': 'locals()'})
    finally:
        rg.close()
        sys.modules.pop(mod.__name__, None)


def run(c):
    quick = c.tier == 'quick'
    rng = random.Random(c.seed)
    wd = tlc.scratch('c07_')
    c.rule = ('cases = object-graph instances with sharing/cycles and 1-3 watches whose value is already in the frame or '
              'new, run on the real agent with the normal and with a tiny watch budget, projected table + watch results '
              'validated by Trace_Collector (Closed, OneIdPerObject, WatchClosed, WatchDedup on every state); the same for '
              'objects shared by several frames of the stack (all_frame); plus watches '
              'creating fresh same-shaped temporaries and aliases; non-trivial = at least 3 variables recorded')
    c.assumptions = ['object identity is CPython id() for objects alive during the event']
    c.mc('MC_Collector', c05.mc_cfg(W_SMALL, live=True), label='graphs with watches, 2 nodes', must_cover=['Step'])
    c.mc('MC_Collector', c05.mc_cfg(W_MED), label='graphs with watches, 3 nodes', timeout=1800)
    c.mc_expect_violation('MC_Collector', c05.mc_cfg(dict(W_SMALL, dangling=True), invs=['WatchClosed']),
                          'deviation DanglingOnBudget', what='WatchClosed')
    # real code, default budget
    base = [G.random_instance(rng, max_nodes=8, kinds=('int', 'str', 'list', 'tuple', 'dict', 'obj', 'exc'))
            for _ in range(400 if quick else 30000)]
    insts = [with_watches(rng, i, None) for i in base]
    for i in insts:
        i['maxVars'] = rng.choice([1, 2, 3, 5, 1000])
    traces, meta, sk = c05.run_instances(c, insts, wd, 'watches')
    c05.validate(c, traces, meta)
    # real code, watch budget of 3 variables: watches evaluated after the budget is used up
    with watch_budget(3):
        insts2 = [with_watches(rng, G.random_instance(rng, max_nodes=8, kinds=('int', 'list', 'dict', 'obj')), None)
                  for _ in range(300 if quick else 20000)]
        for i in insts2:
            i['maxVars'] = rng.choice([2, 3, 5, 8])
        traces, meta, sk = run_instances_budget(c, insts2, wd, 'watches-small-budget', 3)
    c05.validate(c, traces, meta)
    # objects held by several frames of the stack (frame_type all_frame): recorded once, referred to from every frame
    fr = []
    for _ in range(100 if quick else 10000):
        inst = G.random_instance(rng, max_nodes=5, kinds=('int', 'str', 'list', 'dict', 'obj'))
        inst['maxVars'] = rng.choice([3, 5, 1000])
        n = len(inst['kind'])
        inst['frames'] = [[rng.choice(inst['roots'] + [rng.randint(1, n)]) for _ in range(rng.randint(1, 3))]
                          for _ in range(rng.randint(1, 2))]
        fr.append(inst)
    traces, meta, sk = c05.run_frame_instances(c, fr, wd, 'shared-across-frames')
    c05.validate(c, traces, meta)
    temporaries_leg(c, wd)


if __name__ == '__main__':
    core.main('C07', run)

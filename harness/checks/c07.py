"""C07 - the variable table is closed and de-duplicated by object identity (spec/Collector.tla)."""
import contextlib
import random
import sys

from .. import core, tlc
from .. import graphs as G
from .. import rig as R
from . import c05

W_SMALL = dict(n=2, kinds=('int', 'list', 'obj'), max_child=2, max_roots=2, vars_set=(1, 3), str_set=(2,),
               coll_set=(2,), depth_set=(2, 3), max_watch=2, wvars_set=(1, 3))
W_MED = dict(n=3, kinds=('int', 'list'), max_child=2, max_roots=1, vars_set=(3,), str_set=(2,), coll_set=(2,),
             depth_set=(3,), max_watch=2, wvars_set=(2,))


@contextlib.contextmanager
def watch_budget(n):
    """The watch processors use the default VariableProcessorConfig instance; make its variable budget small."""
    from deep.processor.variable_set_processor import VariableSetProcessor
    cfg = VariableSetProcessor.__init__.__defaults__[0]
    old = cfg.max_variables
    cfg.max_variables = n
    try:
        yield
    finally:
        cfg.max_variables = old


def with_watches(rng, inst, built_nodes):
    n = len(inst['kind'])
    inst = dict(inst)
    inst['watch'] = [rng.randint(1, n) for _ in range(rng.randint(1, 3))]
    return inst


def run_instances_budget(c, insts, wd, kind, budget):
    traces, meta, skipped = c05.run_instances(c, insts, wd, kind)
    for tr in traces:
        tr[0]['wlim'] = dict(tr[0]['wlim'], maxVars=budget)
    return traces, meta, skipped


HOST = '''
class Wide:
    __slots__ = tuple('s%d' % i for i in range(48)) + ('tag',)

    def __init__(self, tag):
        self.tag = tag

    def __str__(self):
        return 'Wide#%d' % self.tag


class Plain:
    def __init__(self, tag):
        self.tag = tag

    def __str__(self):
        return 'Plain#%d' % self.tag


def fresh(a, b):
    shared = [a, b]
    alias = shared
    return a  # TP:fresh
'''


CLOSURE_HOST = '''
class Cancel(BaseException):
    pass


class BadStr:
    def __str__(self):
        raise Cancel()


class BadStrExc:
    def __str__(self):
        raise ValueError('no text')


class Obj:
    def __init__(self, tag):
        self.tag = tag

    def __str__(self):
        return 'Obj#' + self.tag


def held(first, second, bad, bad2):
    shared = [first, second]
    pair = [shared, bad]
    out = [second, first, shared]
    return out  # TP:held


GB = None
GB2 = None
GS = None


def held2(first, second):
    shared = [first, second]
    return shared  # TP:held2
'''


def table_problems(s, known):
    """Closure and identity of one snapshot's table. known: name -> real object (the harness made them)."""
    look = s.var_lookup
    by_hash = {}
    for vid, v in look.items():
        if v.hash in by_hash:
            return 'ids %s and %s are both for the object with hash %s' % (by_hash[v.hash], vid, v.hash)
        by_hash[v.hash] = vid
        for ch in v.children:
            if ch.vid not in look:
                return 'child %s of variable %s refers to id %r which is not in the table' % (ch.name, vid, ch.vid)
    ids = {str(id(o)): n for n, o in known.items()}
    for fr in s.frames[:1]:
        for fv in fr.variables:
            if fv.vid not in look:
                return 'frame variable %s refers to id %r which is not in the table' % (fv.name, fv.vid)
            if fv.name in known and look[fv.vid].hash != str(id(known[fv.name])):
                return 'frame variable %s resolves to the entry of %s (%s %r)' % (
                    fv.name, ids.get(look[fv.vid].hash, 'another object'), look[fv.vid].type, look[fv.vid].value)
    for w in s.watches:
        if w.error is None and (w.result is None or w.result.vid not in look):
            return 'watch %s refers to id %r which is not in the table' % (w.expression, w.result.vid if w.result else None)
    for vid, v in look.items():
        name = ids.get(v.hash)
        if name is not None and v.type != type(known[name]).__name__:
            return 'the entry of %s (id %s) has type %s' % (name, vid, v.type)
    return None


def closure_leg(c, wd):
    """Watches that fail half way through their value (a member whose str() raises, also a BaseException) followed by
    watches reaching the members collected before the failure; and deferred snapshots whose captured result holds
    objects of the frame. Every reference resolves, every object has one id, every id one object."""
    mod, path, marks = R.write_host(wd, CLOSURE_HOST)
    base = path.rsplit('/', 1)[-1]
    watch_sets = [['[shared, bad]', 'shared', 'shared[0]'], ['pair', 'shared', '[bad, first]', 'first'],
                  ["{'a': first, 'b': bad2, 'c': second}", 'second', 'first'], ['[first, bad, second]', '[second]', 'out'],
                  ['(shared, bad2, bad)', '[shared]', 'pair[0]']]
    cases = [('watches', {}, ws) for ws in watch_sets]
    cases += [('line_capture', {'stage': 'line_capture'}, []), ('line_capture+watches', {'stage': 'line_capture'},
                                                                    ['[out, first]', 'pair'])]
    cases += [('method_capture', {'stage': 'method_capture', 'method_name': 'held'}, ['shared'])]
    # a snapshot that also logs: the fields of the message are collected into the SAME table under the same identities
    cases += [('snapshot+log', {'log_msg': 'a {first} b {shared} c {pair}'}, []),
              ('snapshot+log+watches', {'log_msg': '{out} and {second}'}, ['shared', '[first, out]']),
              ('snapshot+log-fresh', {'log_msg': '{[second, first]} {len(shared)} {first}'}, ['second'])]
    # the failing member is reachable through the watch only (a module global), not from the frame
    cases += [('global-watches', {}, ws) for ws in (['[shared, GB]', 'shared', 'first'], ['[first, GB2, GB]', 'first', 'shared'],
                                                    ["{'a': second, 'b': GB}", '[second]', 'second'],
                                                    ['[GS, GB]', 'GS', 'GS[0]'], ["{'k': GS, 'b': GB2, 'c': GB}", '[GS]'])]
    for label, args, ws in cases:
        first, second = mod.Obj('first'), mod.Obj('second')
        bad, bad2 = mod.BadStr(), mod.BadStrExc()
        mod.GB, mod.GB2 = bad, bad2
        mod.GS = [mod.Obj('g1'), mod.Obj('g2')]
        known = {'first': first, 'second': second, 'bad': bad, 'bad2': bad2}
        rg = R.Rig()
        try:
            two = label == 'global-watches'
            rg.install([{'id': 't', 'path': base, 'line': 0 if 'method' in label else marks['held2' if two else 'held'],
                         'args': args, 'watches': ws}])
            if two:
                res = rg.run(mod.held2, first, second, only_file=path)
            else:
                res = rg.run(mod.held, first, second, bad, bad2, only_file=path)
            snaps = rg.snapshots()
            what = None
            if res[0] != 'ok' or rg.escaped or len(snaps) != 1:
                what = 'no snapshot / host changed %r %r (%d snapshots)' % (res, rg.escaped, len(snaps))
            else:
                what = table_problems(snaps[0], known)
                if what is None and 'capture' in label:
                    caps = [w for w in snaps[0].watches if w.source == 'CAPTURE']
                    if len(caps) != 1 or caps[0].error is not None or caps[0].result.vid not in snaps[0].var_lookup:
                        what = 'captured result missing: %s' % [w.__dict__ for w in caps]
                    else:
                        v = snaps[0].var_lookup[caps[0].result.vid]
                        hashes = [snaps[0].var_lookup[ch.vid].hash for ch in v.children]
                        if hashes[:2] != [str(id(second)), str(id(first))]:
                            what = 'the captured list [second, first, shared] shows %s' % [
                                (snaps[0].var_lookup[ch.vid].type, snaps[0].var_lookup[ch.vid].value) for ch in v.children]
            c.traces_validated += 1
            c.note_case(key=('closure', label, str(ws)), nontrivial=True)
            if what:
                p_ = c.save_replay({'direction': 'C2S', 'kind': 'closure', 'case': label, 'watches': ws, 'what': what})
                c.violation('%s %s: %s' % (label, ws, what), p_)
        finally:
            rg.close()
    import sys
    sys.modules.pop(mod.__name__, None)


def temporaries_leg(c, wd):
    """Watches that create fresh values of the same shape: each result must be its own value (no id reuse)."""
    mod, path, marks = R.write_host(wd, HOST)
    base = path.rsplit('/', 1)[-1]
    sets = [["['w1', a]", "['w2', b]", "['w3', a]"], ["(a, 'x' * 3)", "(b, 'y' * 3)"], ["a + 100000", "b + 200000"],
            ["shared", "alias", "[shared]"], ["{'k': a}", "{'k': b}", "{'k': a}"], ["str(a) * 2", "str(b) * 2"],
            # fresh values WITHOUT children (floats, big numbers, text, bytes): the interpreter reuses the address of a
            # released float / string at once
            ["a * 1.5", "b * 1.5", "a * 2.5", "b * 2.5", "a / 4", "b / 4"],
            ["a ** 30", "b ** 30", "a ** 31"], ["'n=%d' % a", "'n=%d' % b", "'m=%d' % a"],
            ["bytes([a, a])", "bytes([b, b])"], ["complex(a, 1)", "complex(b, 1)", "complex(a, 2)"]]
    for ws in sets:
        rg = R.Rig()
        try:
            rg.install([{'id': 't', 'path': base, 'line': marks['fresh'], 'args': {}, 'watches': ws}])
            res = rg.run(mod.fresh, 7, 9, only_file=path)
            bad = None
            snaps = rg.snapshots()
            if res != ('ok', 7) or rg.escaped or len(snaps) != 1:
                bad = 'no snapshot / host changed %r %r' % (res, rg.escaped)
            else:
                s = snaps[0]
                env = {'a': 7, 'b': 9}
                env['shared'] = [7, 9]
                env['alias'] = env['shared']
                for w in s.watches:
                    want = eval(w.expression, {}, env)
                    if w.error is not None or w.result is None or w.result.vid not in s.var_lookup:
                        bad = 'watch %s does not resolve: %s' % (w.expression, w.__dict__)
                        break
                    v = s.var_lookup[w.result.vid]
                    text = G.text_of(type(want).__name__, want) if isinstance(want, (list, tuple, dict)) else str(want)
                    if v.type != type(want).__name__ or v.value != text:
                        bad = 'watch %s shows %s %r, its value is %s %r' % (w.expression, v.type, v.value,
                                                                            type(want).__name__, text)
                        break
                    if isinstance(want, (list, tuple)):
                        got = [s.var_lookup[ch.vid].value for ch in v.children if ch.vid in s.var_lookup]
                        exp = [G.text_of(type(x).__name__, x) if isinstance(x, (list, tuple, dict)) else str(x)
                               for x in want]
                        if got != exp:
                            bad = 'watch %s children %s, its value has %s (another object\'s entry was reused)' % (
                                w.expression, got, exp)
                            break
                    if isinstance(want, dict):
                        got = [s.var_lookup[ch.vid].value for ch in v.children if ch.vid in s.var_lookup]
                        if got != [str(x) for x in want.values()]:
                            bad = 'watch %s children %s, expected %s' % (w.expression, got, list(want.values()))
                            break
                # shared/alias must be one id
                if not bad and ws[0] == 'shared':
                    ids = [w.result.vid for w in s.watches[:2]]
                    fv = {v.name: v.vid for v in s.frames[0].variables}
                    if len(set(ids)) != 1 or ids[0] != fv['shared'] or fv['shared'] != fv['alias']:
                        bad = 'one object reached by two names has ids %s / frame %s' % (ids, fv)
            c.traces_validated += 1
            c.note_case(key=('temporaries', str(ws)), nontrivial=True)
            if bad:
                p_ = c.save_replay({'direction': 'C2S', 'kind': 'temporaries', 'watches': ws, 'what': bad})
                c.violation('watches %s: %s' % (ws, bad), p_, signature={'watches': 'fresh-temporaries'})
        finally:
            rg.close()
    # many watches that each create a fresh value of one shape: every result must be its own object's entry
    for cls, n in (('Wide', 40), ('Plain', 40)):
        rg = R.Rig()
        try:
            ws = ['%s(%d)' % (cls, i) for i in range(n)] + ['[a, %d]' % i for i in range(10)]
            rg.install([{'id': 't', 'path': base, 'line': marks['fresh'], 'args': {}, 'watches': ws}])
            res = rg.run(mod.fresh, 7, 9, only_file=path)
            bad = None
            snaps = rg.snapshots()
            if res != ('ok', 7) or rg.escaped or len(snaps) != 1:
                bad = 'no snapshot / host changed %r %r' % (res, rg.escaped)
            else:
                s = snaps[0]
                ids = []
                for i, w in enumerate(s.watches):
                    if w.error is not None or w.result is None or w.result.vid not in s.var_lookup:
                        bad = 'watch %s does not resolve' % w.expression
                        break
                    v = s.var_lookup[w.result.vid]
                    ids.append(w.result.vid)
                    if i < n and v.value != '%s#%d' % (cls, i):
                        bad = 'watch %s shows %r: it refers to the entry of another (released) object' % (w.expression,
                                                                                                         v.value)
                        break
                    if i >= n:
                        kids = [s.var_lookup[ch.vid].value for ch in v.children if ch.vid in s.var_lookup]
                        if kids != ['7', str(i - n)]:
                            bad = 'watch %s children %s' % (w.expression, kids)
                            break
                if not bad and len(set(ids)) != len(ids):
                    bad = 'different watch values share a variable id'
            c.traces_validated += 1
            c.note_case(key=('temporaries-many', cls), nontrivial=True)
            if bad:
                p_ = c.save_replay({'direction': 'C2S', 'kind': 'temporaries-many', 'class': cls, 'what': bad})
                c.violation('%d watches creating fresh %s objects: %s' % (n, cls, bad), p_,
                            signature={'watches': 'fresh-temporaries'})
        finally:
            rg.close()
    # several actions on one event: every snapshot's references resolve in its own table
    for tps in ([{'id': 'a', 'args': {}, 'watches': ['shared', 'a + 1']}, {'id': 'b', 'args': {}, 'watches': ['shared', 'b']}],
                [{'id': 'l', 'args': {'log_msg': 'v={shared} {a}', 'snapshot': 'no_collect'}, 'watches': []},
                 {'id': 's', 'args': {}, 'watches': ['alias']}],
                [{'id': 's', 'args': {'log_msg': 'w={shared}'}, 'watches': ['alias']},
                 {'id': 't', 'args': {'frame_type': 'all_frame'}, 'watches': []}]):
        rg = R.Rig(plugins=[R.role_plugin('lg', {'log'})])
        try:
            rg.install([dict(t, path=base, line=marks['fresh']) for t in tps])
            box = {}
            import threading
            # in a fresh thread: the frames below the host function are the interpreter's thread bootstrap, not the
            # harness (whose frames hold references to frame-locals mappings, the listed known finding)
            th = threading.Thread(target=lambda: box.update(res=rg.run(mod.fresh, 7, 9, only_file=path)))
            th.start()
            th.join(60)
            res = box.get('res')
            bad = None
            nsnap = sum(1 for t in tps if t['args'].get('snapshot') != 'no_collect')
            if res != ('ok', 7) or rg.escaped or len(rg.snapshots()) != nsnap:
                bad = 'host changed / %d snapshots for %d collecting tracepoints' % (len(rg.snapshots()), nsnap)
            for s in rg.snapshots():
                refs = [('frame %d' % fi, v.vid) for fi, f in enumerate(s.frames) for v in f.variables]
                refs += [('child of %s' % k, ch.vid) for k, v in s.var_lookup.items() for ch in v.children]
                refs += [('watch %s' % w.expression, w.result.vid) for w in s.watches if w.result is not None]
                for where, vid in refs:
                    if vid not in s.var_lookup:
                        bad = 'snapshot of %s: %s refers to id %r which is not in its table' % (s.tracepoint.id, where, vid)
                        break
                names = sorted(v.name for v in s.frames[0].variables)
                if not bad and names != ['a', 'alias', 'b', 'shared']:
                    bad = 'snapshot of %s: top frame variables %s' % (s.tracepoint.id, names)
                if bad:
                    break
            c.traces_validated += 1
            c.note_case(key=('two-actions', str([t['id'] for t in tps])), nontrivial=True)
            if bad:
                p_ = c.save_replay({'direction': 'C2S', 'kind': 'two-actions', 'tps': tps, 'what': bad})
                c.violation('tracepoints %s on one line: %s' % ([t['id'] for t in tps], bad), p_)
        finally:
            rg.close()
    # the frame's own locals() mapping as a watch value
    rg = R.Rig()
    try:
        rg.install([{'id': 't', 'path': base, 'line': marks['fresh'], 'args': {}, 'watches': ['locals()']}])
        rg.run(mod.fresh, 1, 2, only_file=path)
        s = rg.snapshots()[0]
        w = s.watches[0]
        c.traces_validated += 1
        c.note_case(key=('temporaries', 'locals()'), nontrivial=True)
        if w.error is None and (w.result is None or w.result.vid not in s.var_lookup):
            p_ = c.save_replay({'direction': 'C2S', 'kind': 'locals-watch', 'what': 'dangling id %r' % w.result.vid})
            c.violation("watch 'locals()' refers to variable id %r which is not in the table" % w.result.vid, p_,
                        signature={'watch': 'locals()'})
    finally:
        rg.close()
        sys.modules.pop(mod.__name__, None)


DROPPED_HOST = '''
def work(items):
    items = None
    return tuple(range(50000, 100000))  # TP:leave


def go():
    return len(work(tuple(range(50000))))
'''


def dropped_local_leg(c, wd):
    """Two different objects never share an id - over the whole life of a DEFERRED snapshot: the function drops a local
    it was called with (its memory is free for the next object of that size) and returns a new object; the captured
    return value is that new object, not the entry of the dropped argument. (A second tracepoint fires while the
    function runs, as in any program with more than one tracepoint. Address reuse is up to the allocator: the history
    is repeated; the leg can miss a defect, it cannot raise a false alarm.)"""
    import sys
    mod, path, marks = R.write_host(wd, DROPPED_HOST)
    base = path.rsplit('/', 1)[-1]
    inf = {'fire_count': '-1', 'fire_period': '0'}
    rg = R.Rig(plugins=[R.role_plugin('rec', {'log'})])
    try:
        rg.install([dict(id='t-cap', path=base, line=0, args=dict(inf, stage='method_capture', method_name='work')),
                    dict(id='t-log', path=base, line=marks['leave'], args=dict(inf, snapshot='no_collect', log_msg='leaving'))])
        rounds = 12
        bad = None
        for _ in range(rounds):
            res = rg.run(mod.go, only_file=path)
            if res != ('ok', 50000) or rg.escaped:
                bad = 'host changed / handler raised: %r %r' % (res, rg.escaped)
                break
        snaps = rg.snapshots()
        if not bad and len(snaps) != rounds:
            bad = '%d deferred snapshots for %d invocations' % (len(snaps), rounds)
        wrong = 0
        for s_ in snaps if not bad else []:
            items = [v for v in s_.frames[0].variables if v.name == 'items']
            caps = [w for w in s_.watches if w.source == 'CAPTURE' and w.expression == 'return' and w.result is not None]
            if len(items) != 1 or len(caps) != 1 or caps[0].result.vid not in s_.var_lookup:
                bad = 'snapshot without the argument / the captured return value'
                break
            ret = s_.var_lookup[caps[0].result.vid]
            first = s_.var_lookup[ret.children[0].vid].value if ret.children else None
            if caps[0].result.vid == items[0].vid or first != '50000':
                wrong += 1
        if not bad and wrong:
            bad = ('in %d of %d deferred snapshots the captured return value (a new tuple starting at 50000) is shown as the '
                   'entry of the argument `items` (the dropped tuple starting at 0): two objects share an id' % (wrong, rounds))
    finally:
        rg.close()
    c.traces_validated += 1
    c.note_case(key=('dropped-local',), nontrivial=True)
    if bad:
        p_ = c.save_replay({'direction': 'C2S', 'kind': 'dropped-local', 'what': bad})
        c.violation('a local dropped while a deferred snapshot is pending: %s' % bad, p_)
    sys.modules.pop(mod.__name__, None)


def run(c):
    quick = c.tier == 'quick'
    rng = random.Random(c.seed)
    wd = tlc.scratch('c07_')
    c.rule = ('cases = object-graph instances with sharing/cycles and 1-3 watches whose value is already in the frame or '
              'new, run on the real agent with the normal and with a tiny watch budget, projected table + watch results '
              'validated by Trace_Collector (Closed, OneIdPerObject, WatchClosed, WatchDedup on every state); the same for '
              'objects shared by several frames of the stack (all_frame); plus watches '
              'creating fresh same-shaped temporaries and aliases; non-trivial = at least 3 variables recorded')
    c.assumptions = ['object identity is CPython id() for objects alive during the event']
    c.mc('MC_Collector', c05.mc_cfg(W_SMALL, live=True), label='graphs with watches, 2 nodes', must_cover=['Step'])
    c.mc('MC_Collector', c05.mc_cfg(W_MED), label='graphs with watches, 3 nodes', timeout=1800)
    c.mc_expect_violation('MC_Collector', c05.mc_cfg(dict(W_SMALL, dangling=True), invs=['WatchClosed']),
                          'deviation DanglingOnBudget', what='WatchClosed')
    # real code, default budget
    base = [G.random_instance(rng, max_nodes=8, kinds=('int', 'str', 'list', 'tuple', 'dict', 'obj', 'exc'))
            for _ in range(400 if quick else 30000)]
    insts = [with_watches(rng, i, None) for i in base]
    for i in insts:
        i['maxVars'] = rng.choice([1, 2, 3, 5, 1000])
    traces, meta, sk = c05.run_instances(c, insts, wd, 'watches')
    c05.validate(c, traces, meta)
    # real code, watch budget of 3 variables: watches evaluated after the budget is used up
    with watch_budget(3):
        insts2 = [with_watches(rng, G.random_instance(rng, max_nodes=8, kinds=('int', 'list', 'dict', 'obj')), None)
                  for _ in range(300 if quick else 20000)]
        for i in insts2:
            i['maxVars'] = rng.choice([2, 3, 5, 8])
        traces, meta, sk = run_instances_budget(c, insts2, wd, 'watches-small-budget', 3)
    c05.validate(c, traces, meta)
    # objects held by several frames of the stack (frame_type all_frame): recorded once, referred to from every frame
    fr = []
    for _ in range(100 if quick else 10000):
        inst = G.random_instance(rng, max_nodes=5, kinds=('int', 'str', 'list', 'dict', 'obj'))
        inst['maxVars'] = rng.choice([3, 5, 1000])
        n = len(inst['kind'])
        inst['frames'] = [[rng.choice(inst['roots'] + [rng.randint(1, n)]) for _ in range(rng.randint(1, 3))]
                          for _ in range(rng.randint(1, 2))]
        fr.append(inst)
    traces, meta, sk = c05.run_frame_instances(c, fr, wd, 'shared-across-frames')
    c05.validate(c, traces, meta)
    temporaries_leg(c, wd)
    dropped_local_leg(c, wd)
    closure_leg(c, wd)


if __name__ == '__main__':
    core.main('C07', run)

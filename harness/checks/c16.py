"""C16 - log tracepoints emit the template with every field evaluated in place (spec/LogTemplate.tla)."""
import random
import re
import sys

from .. import core, tlc
from .. import rig as R
from ..tlaparse import to_json

INVS = ['EveryTokenRendered', 'FailingFieldLocal', 'OneWatchPerField', 'IdsInPlace']

HOST = '''
class Person:
    def __init__(self):
        self.name = 'alice'


GV = 'from-the-module'


def greet(a):
    name = 'bob'
    items = [1, 2, 3]
    person = Person()
    query = "LIKE 'a%s' %d"
    zero = 0
    empty = ''
    return a  # TP:greet
'''

TEXT = {'lit_a': 'a', 'lit_space': ' ', 'lit_unicode': 'é中', 'lit_percent': '9% %s %d', 'lbrace2': '{{', 'rbrace2': '}}',
        'f_percent': '{query}', 'f_zero': '{zero}', 'f_empty': '{empty}',
        'f_local': '{name}', 'f_attr': '{person.name}', 'f_index': '{items[1]}', 'f_call': '{len(items)}',
        'f_missing': '{nope}', 'f_raises': '{a // 0}',
        'f_neq': '{a != 9}', 'f_colon': '{(lambda q: q + 1)(a)}', 'f_global': '{GV}',
        'f_braces': '{len({a, a + 1})}', 'f_badconv': '{a!x}'}
VALUE = {'f_braces': '2', 'f_neq': 'False', 'f_colon': '10', 'f_global': 'from-the-module', 'f_local': 'bob', 'f_attr': 'alice', 'f_index': '2', 'f_call': '3', 'f_percent': "LIKE 'a%s' %d", 'f_zero': '0',
         'f_empty': ''}
ERR_HINT = {'f_missing': 'nope', 'f_raises': 'zero', 'f_badconv': 'syntax'}
EXPR = {k: v[1:-1] for k, v in TEXT.items() if k.startswith('f_')}
UUID = re.compile(r'^[0-9a-f]{8}-[0-9a-f]{4}-[0-9a-f]{4}-[0-9a-f]{4}-[0-9a-f]{12}$')


def render(tokens):
    """Independent renderer: (list of exact pieces or error markers)."""
    out = []
    for t in tokens:
        if t in ('lit_a', 'lit_space', 'lit_unicode', 'lit_percent'):
            out.append(('text', TEXT[t]))
        elif t == 'lbrace2':
            out.append(('text', '{'))
        elif t == 'rbrace2':
            out.append(('text', '}'))
        elif t in VALUE:
            out.append(('text', VALUE[t]))
        else:
            out.append(('err', ERR_HINT[t]))
    return out


def match_message(msg, tokens):
    """msg must be '[deep] ' + pieces; error pieces are matched as non-empty text containing the hint."""
    if not msg.startswith('[deep] '):
        return 'message does not start with "[deep] ": %r' % msg
    pieces = render(tokens)
    pat = ''
    for kind, text in pieces:
        if kind == 'text':
            pat += re.escape(text)
        else:
            pat += r'(?P<e%d>[^{}]*?%s[^{}]*?)' % (len(pat), re.escape(text))
    if not re.match('^' + pat + '$', msg[len('[deep] '):], re.S):
        return 'message %r does not render template %r' % (msg, ''.join(TEXT[t] for t in tokens))
    return None


def run_default_logger(host, tokens):
    """The tracepoint logger shipped with the agent (PythonPlugin -> the 'deep' logger): one record per hit whose text is
    the message followed by the context id and the tracepoint id, each in its own place."""
    import logging as pylog
    from deep.api.plugin.python import PythonPlugin
    mod, path, marks = host
    base = path.rsplit('/', 1)[-1]
    got = []

    class Capture(pylog.Handler):
        def emit(self, record):
            try:
                got.append(('ok', record.getMessage()))
            except Exception as ex:          # what logging itself does with such a record: it is lost
                got.append(('lost', repr(ex)))
    lg = pylog.getLogger('deep')
    h = Capture(level=pylog.INFO)
    old_level = lg.level
    lg.addHandler(h)
    lg.setLevel(pylog.INFO)
    rg = R.Rig(plugins=[PythonPlugin()])
    template = ''.join(TEXT[t] for t in tokens)
    try:
        rg.install([{'id': 'tp-log', 'path': base, 'line': marks['greet'], 'args': {'log_msg': template}}])
        res = rg.run(mod.greet, 9, only_file=path)
        if res != ('ok', 9) or rg.escaped:
            return ['host changed / handler raised: %r %r' % (res, rg.escaped)]
        snaps = rg.snapshots()
        if len(snaps) != 1:
            return ['%d snapshots' % len(snaps)]
        msgs = [g for g in got if g[0] == 'lost' or g[1].startswith('[deep] ')]
        if len(msgs) != 1 or msgs[0][0] != 'ok':
            return ['the default tracepoint logger emitted %s for one permitted hit' % (msgs,)]
        want = '%s ctx=%s tracepoint=%s' % (snaps[0].log_msg, snaps[0].attributes.get('context'), 'tp-log')
        problems = []
        if msgs[0][1] != want:
            problems.append('the default tracepoint logger emitted %r, expected %r' % (msgs[0][1], want))
        m = match_message(snaps[0].log_msg, tokens)
        if m:
            problems.append(m)
        return problems
    finally:
        rg.close()
        lg.removeHandler(h)
        lg.setLevel(old_level)


def run_template(host, tokens, with_snapshot):
    mod, path, marks = host
    base = path.rsplit('/', 1)[-1]
    logger = R.role_plugin('lg', {'log'})
    rg = R.Rig(plugins=[logger])
    template = ''.join(TEXT[t] for t in tokens)
    args = {'log_msg': template}
    if not with_snapshot:
        args['snapshot'] = 'no_collect'
    # a collecting tracepoint also WATCHES the expression of its first field (and one more): the log fields are recorded
    # on the snapshot one by one all the same
    fields_ = [t for t in tokens if t.startswith('f_')]
    watched = ([EXPR[fields_[0]]] if fields_ else []) + ['a + 1'] if with_snapshot else []
    try:
        rg.install([{'id': 'tp-log', 'path': base, 'line': marks['greet'], 'args': args, 'watches': watched}])
        res = rg.run(mod.greet, 9, only_file=path)
        if res != ('ok', 9) or rg.escaped:
            return ['host changed / handler raised: %r %r' % (res, rg.escaped)]
        logs = [c_ for c_ in logger.calls if c_[0] == 'log']
        if len(logs) != 1:
            return ['%d log call(s) for one permitted hit' % len(logs)]
        _, msg, tp_id, ctx_id = logs[0]
        problems = []
        m = match_message(msg, tokens)
        if m:
            problems.append(m)
        if tp_id != 'tp-log':
            problems.append('logger received tp_id=%r (ctx_id=%r): the tracepoint id is not in its place' % (tp_id, ctx_id))
        if not UUID.match(str(ctx_id)):
            problems.append('logger received ctx_id=%r, not a trigger context id' % (ctx_id,))
        fields = [t for t in tokens if t.startswith('f_')]
        if with_snapshot:
            snaps = rg.snapshots()
            if len(snaps) != 1:
                return problems + ['%d snapshots' % len(snaps)]
            s = snaps[0]
            if s.log_msg != msg:
                problems.append('snapshot log message %r differs from the logged %r' % (s.log_msg, msg))
            if s.attributes.get('context') != ctx_id:
                problems.append('logger ctx_id %r is not the trigger context id %r' % (ctx_id, s.attributes.get('context')))
            if [w.expression for w in s.watches if w.source == 'WATCH'] != watched:
                problems.append('WATCH results %s, the tracepoint watches %s' % (
                    [w.expression for w in s.watches if w.source == 'WATCH'], watched))
            ws = [w for w in s.watches if w.source == 'LOG']
            if [w.expression for w in ws] != [EXPR[f] for f in fields]:
                problems.append('LOG watches %s, fields %s' % ([w.expression for w in ws], [EXPR[f] for f in fields]))
            else:
                for w, f in zip(ws, fields):
                    v = s.var_lookup.get(w.result.vid) if w.result is not None else None
                    if f in VALUE:
                        if w.error is not None or v is None or v.value != VALUE[f]:
                            problems.append('LOG watch %s = %s, expected %s' % (w.expression, v.value if v else w.error,
                                                                               VALUE[f]))
                    else:
                        ok_err = w.error is not None or (v is not None and v.type.endswith('Error'))
                        if not ok_err:
                            problems.append('LOG watch %s must be an error result' % w.expression)
        return problems
    finally:
        rg.close()


BIG_HOST = '''
def crowded(a):
    name = 'bob'
    big = {('k%d' % i): [i] for i in range(700)}
    return a  # TP:crowded
'''


def big_frame_leg(c, wd):
    """A field is replaced by the text of its value whatever the size of the frame: also when the variable budget
    of the snapshot is already used up when the field is evaluated."""
    host = R.write_host(wd, BIG_HOST)
    mod, path, marks = host
    base = path.rsplit('/', 1)[-1]
    for template, want, with_snapshot in (('n={name} u={name.upper()} s={a + 1}', '[deep] n=bob u=BOB s=10', True),
                                          ('{len(big)} {name} {name * 2}', '[deep] 700 bob bobbob', True),
                                          ('{big} {name.upper()}', None, False)):
        logger = R.role_plugin('lg', {'log'})
        rg = R.Rig(plugins=[logger])
        try:
            args = {'log_msg': template}
            if not with_snapshot:
                args['snapshot'] = 'no_collect'
            rg.install([{'id': 'tp-big', 'path': base, 'line': marks['crowded'], 'args': args}])
            res = rg.run(mod.crowded, 9, only_file=path)
            logs = [c_ for c_ in logger.calls if c_[0] == 'log']
            bad = None
            if res != ('ok', 9) or rg.escaped or len(logs) != 1:
                bad = 'host changed / %d log calls' % len(logs)
            elif want is not None and logs[0][1] != want:
                bad = 'message %r, expected %r' % (logs[0][1][:120], want)
            elif want is None and not logs[0][1].endswith(' BOB'):
                bad = 'message ends %r, expected the text of name.upper()' % logs[0][1][-40:]
            c.traces_validated += 1
            c.note_case(key=('big-frame', template), nontrivial=True)
            if bad:
                p_ = c.save_replay({'direction': 'S2C', 'module': 'LogTemplate', 'kind': 'big-frame', 'template': template,
                                    'what': bad})
                c.violation('template %r on a frame with >1000 variables: %s' % (template, bad), p_)
        finally:
            rg.close()
    sys.modules.pop(mod.__name__, None)


LOGGER_MOD = '''from deep.api.plugin import TracepointLogger, Plugin

SEEN = {'A': [], 'B': []}


class _Base(TracepointLogger):
    tag = '?'

    def __init__(self, config=None):
        Plugin.__init__(self, name='Logger' + self.tag, config=config)

    def is_active(self):
        return True

    def order(self):
        return -5

    def log_tracepoint(self, log_msg, tp_id, ctx_id):
        SEEN[self.tag].append((log_msg, tp_id, ctx_id))


class LoggerA(_Base):
    tag = 'A'


class LoggerB(_Base):
    tag = 'B'
'''


def configured_logger_leg(c, wd):
    """Agents configured one after the other in one process, each with its OWN tracepoint logger plugin (PLUGINS): an
    agent's message goes to the logger configured for that agent."""
    import importlib
    from deep.api.plugin import load_plugins
    from deep.config import ConfigService
    from deep.config.tracepoint_config import TracepointConfigService
    modname = 'vlogmods_%d' % (abs(hash(wd)) % 100000)
    with open('%s/%s.py' % (wd, modname), 'w') as fh:
        fh.write(LOGGER_MOD)
    sys.path.insert(0, wd)
    host = R.write_host(wd, HOST)
    mod, path, marks = host
    base = path.rsplit('/', 1)[-1]
    try:
        lm = importlib.import_module(modname)
        for life, tag in enumerate(['A', 'B', 'A', 'B'], 1):
            cfg = ConfigService({'PLUGINS': ['%s.Logger%s' % (modname, tag)]}, tracepoints=TracepointConfigService())
            plugins = load_plugins(cfg, cfg.PLUGINS)
            for k in lm.SEEN:
                del lm.SEEN[k][:]
            rg = R.Rig(plugins=plugins)
            bad = None
            try:
                rg.install([{'id': 'tp-own', 'path': base, 'line': marks['greet'],
                             'args': {'log_msg': 'agent %d says {a}' % life, 'snapshot': 'no_collect'}}])
                res = rg.run(mod.greet, 9, only_file=path)
                names = [type(p).__name__ for p in plugins if type(p).__name__.startswith('Logger')]
                other = 'B' if tag == 'A' else 'A'
                if res != ('ok', 9) or rg.escaped:
                    bad = 'host changed / handler raised: %r %r' % (res, rg.escaped)
                elif names != ['Logger' + tag]:
                    bad = 'agent %d (PLUGINS = [Logger%s]) loaded the logger plugins %s' % (life, tag, names)
                elif [m_[0] for m_ in lm.SEEN[tag]] != ['[deep] agent %d says 9' % life] or lm.SEEN[other]:
                    bad = 'agent %d (its logger: Logger%s): Logger%s received %s, Logger%s received %s' % (
                        life, tag, tag, lm.SEEN[tag], other, lm.SEEN[other])
            finally:
                rg.close()
            c.traces_validated += 1
            c.note_case(key=('configured-logger', life), nontrivial=True)
            if bad:
                p_ = c.save_replay({'direction': 'S2C', 'module': 'LogTemplate', 'kind': 'configured-logger', 'what': bad})
                c.violation('the tracepoint logger configured for an agent: %s' % bad, p_)
                break
    finally:
        sys.path.remove(wd)
        sys.modules.pop(modname, None)
        sys.modules.pop(mod.__name__, None)


def run(c):
    quick = c.tier == 'quick'
    rng = random.Random(c.seed)
    wd = tlc.scratch('c16_')
    c.rule = ('cases = token sequences of LogTemplate.tla (literal text incl. non-ASCII, doubled braces, fields naming a '
              'local / attribute / index / call / missing name / raising expression): every template of the bound in '
              'thorough, a sample in quick, plus longer random ones; each is installed as a log-only and as a '
              'snapshot+log tracepoint through convert_response and the logger call (message, tp id, ctx id), the '
              'snapshot log message and its LOG watches are compared with an independent renderer; non-trivial = at '
              'least one field')
    c.assumptions = ['field expressions do not contain string.Formatter meta characters (! : { }) and are not empty',
                     'error text wording is not compared (it must be in place and mention the failing name/cause)']
    r = c.mc('LogTemplate', dict(constants=dict(MaxTokens=3 if quick else 4, SwappedIds=False), invariants=INVS,
                                 deadlock=False), label='all templates up to the bound', dump=quick,
             must_cover=['Scan', 'Emit'])
    c.mc_expect_violation('LogTemplate', dict(constants=dict(MaxTokens=2, SwappedIds=True), invariants=['IdsInPlace'],
                                              deadlock=False), 'deviation SwappedIds', what='IdsInPlace')
    host = R.write_host(wd, HOST)
    templates = []
    if quick:
        finals = [st for st in r.graph.states.values() if st['sent']['tp_slot'] != 'none']
        templates = [list(st['tpl']) for st in finals]
        rng.shuffle(templates)
        templates = templates[:250]
    else:
        import itertools
        toks = sorted(TEXT)
        for n in range(0, 4):
            templates += [list(t) for t in itertools.product(toks, repeat=n)]
        four = [list(t) for t in itertools.product(toks, repeat=4)]       # and a third of the 4-token templates
        rng.shuffle(four)
        templates += four[:10000]
    for _ in range(40 if quick else 2000):
        templates.append([rng.choice(sorted(TEXT)) for _ in range(rng.randint(5, 30))])
    shown = 0
    for tokens in templates:
        for with_snapshot in (False, True, 'default-logger'):
            if with_snapshot == 'default-logger':
                if not (set(tokens) & {'lit_percent', 'f_percent', 'lbrace2'}) and len(tokens) > 2:
                    continue
                problems = run_default_logger(host, tokens)
            else:
                problems = run_template(host, tokens, with_snapshot)
            c.traces_validated += 1
            c.note_case(key=('template', tuple(tokens), with_snapshot), nontrivial=any(t.startswith('f_') for t in tokens))
            if problems:
                path = c.save_replay({'direction': 'S2C', 'module': 'LogTemplate', 'tokens': tokens,
                                      'template': ''.join(TEXT[t] for t in tokens), 'with_snapshot': with_snapshot,
                                      'problems': problems})
                if c.violation('template %r (%s): %s' % (''.join(TEXT[t] for t in tokens),
                                                          {False: 'log only', True: 'snapshot+log'}.get(with_snapshot, with_snapshot), problems[:2]),
                               path):
                    shown += 1
            if shown >= 8:
                break
        if shown >= 8:
            break
    big_frame_leg(c, wd)
    configured_logger_leg(c, wd)
    c.sample({'direction': 'S2C', 'module': 'LogTemplate', 'tokens': templates[0],
              'template': ''.join(TEXT[t] for t in templates[0])})
    sys.modules.pop(host[0].__name__, None)


if __name__ == '__main__':
    core.main('C16', run)

"""C06 - collection is total and per-tracepoint independent (Collector.tla 'hostile' kind, Snapshot.tla)."""
import collections
import datetime
import decimal
import enum
import fractions
import random
import sys
import threading

from .. import core, tlc
from .. import graphs as G
from .. import rig as R
from . import c02, c05


class Color(enum.Enum):
    RED = 1


class Slotted:
    __slots__ = ('a',)

    def __init__(self):
        self.a = 1


class RaisingStr:
    def __str__(self):
        raise ValueError('no str')


class RaisingStrBase:
    def __str__(self):
        raise KeyboardInterrupt()


class RaisingRepr:
    def __repr__(self):
        raise RuntimeError('no repr')


class RaisingLen:
    def __len__(self):
        raise RuntimeError('no len')


class RaisingGetattribute:
    def __getattribute__(self, name):
        raise RuntimeError('no attribute access: %s' % name)


class RaisingGetattr:
    def __getattr__(self, name):
        raise OSError('lazy attribute %s failed' % name)


class RaisingDictProperty:
    @property
    def __dict__(self):
        raise RuntimeError('no dict')


class DictSubclassRaising(dict):
    def keys(self):
        raise RuntimeError('no keys')


class ListSubclass(list):
    pass


class RaisingEq:
    """Equality written for its own kind only (`self.key == other.key`): comparing it with anything else raises."""
    key = 1

    def __eq__(self, other):
        return self.key == other.key

    def __ne__(self, other):
        return self.key != other.key

    __hash__ = object.__hash__


class Unhashable:
    def __eq__(self, other):
        return self is other

    __hash__ = None


class RaisingBool:
    def __bool__(self):
        raise ValueError('the truth value is ambiguous')


def _gen():
    yield 'first'
    yield 'second'


def catalogue():
    """(label, factory, post-check) - concrete values that real frames hold."""
    items = [
        ('bytes', lambda: b'\xff\x00abc'), ('bytearray', lambda: bytearray(b'ab')),
        ('deque', lambda: collections.deque([1, 2])), ('datetime', lambda: datetime.datetime(2020, 1, 2)),
        ('date', lambda: datetime.date(2020, 1, 2)), ('timedelta', lambda: datetime.timedelta(1)),
        ('enum', lambda: Color.RED), ('decimal', lambda: decimal.Decimal('1.5')),
        ('fraction', lambda: fractions.Fraction(1, 3)), ('complex', lambda: complex(1, 2)),
        ('range', lambda: range(3)), ('slice', lambda: slice(1, 2)), ('object', lambda: object()),
        ('int_key_dict', lambda: {1: 'a', 2: 'b'}), ('tuple_key_dict', lambda: {(1, 2): 'a'}),
        ('none_key_dict', lambda: {None: 1}), ('mixed_key_dict', lambda: {'a': 1, 5: 2, b'k': 3}),
        ('slotted', lambda: Slotted()), ('generator', _gen), ('map', lambda: map(str, [1, 2])),
        ('zip', lambda: zip([1], [2])), ('memoryview', lambda: memoryview(b'abc')),
        ('lone_surrogate', lambda: 'bad\udc80text'), ('surrogate_key_dict', lambda: {'k\udc80': 1}),
        ('nul_text', lambda: 'a\x00b'), ('raising_str', lambda: RaisingStr()),
        ('raising_str_base', lambda: RaisingStrBase()), ('raising_repr', lambda: RaisingRepr()),
        ('raising_len', lambda: RaisingLen()), ('raising_getattribute', lambda: RaisingGetattribute()),
        ('raising_getattr', lambda: RaisingGetattr()), ('raising_dict_property', lambda: RaisingDictProperty()),
        ('dict_subclass_raising', lambda: DictSubclassRaising(a=1)), ('list_subclass', lambda: ListSubclass([1])),
        ('function', lambda: catalogue), ('lambda', lambda: (lambda: 1)), ('builtin', lambda: len),
        ('class', lambda: Slotted), ('module', lambda: sys), ('ellipsis', lambda: Ellipsis),
        ('notimplemented', lambda: NotImplemented), ('nan', lambda: float('nan')),
        ('huge_int', lambda: 10 ** 5000), ('lock', lambda: threading.Lock()), ('frozenset', lambda: frozenset([1])),
        ('set_mixed', lambda: {1, 'a'}), ('exception_with_hostile_args', lambda: ValueError(RaisingStr(), b'x')),
        ('base_exception', lambda: KeyboardInterrupt('stop')), ('frame', lambda: sys._getframe()),
        ('named_like_a_builtin', lambda: type('list', (), {'x': 1})()),
        ('named_tuple_no_len', lambda: type('tuple', (), {'__len__': lambda self: 1 // 0})()),
        ('raising_eq', lambda: RaisingEq()), ('unhashable', lambda: Unhashable()),
        ('raising_bool', lambda: RaisingBool()),
        ('code', lambda: catalogue.__code__), ('weird_str_subclass', lambda: type('S', (str,), {})('abc')),
    ]
    return items


HOST = '''H = None


def holder(place):
    a = 1
    if place == 'local':
        h = H[0]
    elif place == 'in_list':
        h = [0, H[0], 2]
    elif place == 'in_dict':
        h = {'k': H[0]}
    elif place == 'in_obj':
        h = Box(H[0])
    else:
        h = None
    z = 'end'
    return a  # TP:holder


class Box:
    def __init__(self, v):
        self.inner = v
'''


FINGERPRINTED = {'bytearray', 'deque', 'int_key_dict', 'tuple_key_dict', 'none_key_dict', 'mixed_key_dict', 'list_subclass',
                 'set_mixed', 'surrogate_key_dict'}


def catalogue_leg(c, wd, ntp):
    from deep.push import convert_snapshot
    mod, path, marks = R.write_host(wd, HOST)
    base = path.rsplit('/', 1)[-1]
    for label, factory in catalogue():
        for place in ('local', 'in_list', 'in_dict', 'in_obj', 'watch'):
            value = factory()
            pristine = factory() if label in FINGERPRINTED else None
            mod.H = [value]
            rg = R.Rig()
            try:
                watches = ['H[0]', 'a + 1'] if place == 'watch' else ['a + 1']
                rg.install([{'id': 'tp-%d' % i, 'path': base, 'line': marks['holder'], 'args': {}, 'watches': watches}
                            for i in range(ntp)])
                res = rg.run(mod.holder, place, only_file=path)
                snaps = rg.snapshots()
                bad = None
                if res != ('ok', 1) or rg.escaped:
                    bad = 'host changed / handler raised: %r %r' % (res, rg.escaped)
                elif len(snaps) != ntp:
                    bad = '%d snapshot(s) for %d tracepoint(s)' % (len(snaps), ntp)
                else:
                    for s in snaps:
                        names = sorted(v.name for v in s.frames[0].variables)
                        if names != ['a', 'h', 'place', 'z']:
                            bad = 'top frame variables %s' % names
                            break
                        byname = {v.name: s.var_lookup.get(v.vid) for v in s.frames[0].variables}
                        if any(v is None for v in byname.values()):
                            bad = 'frame variable missing from the table'
                            break
                        if byname['a'].value != '1' or byname['z'].value != 'end':
                            bad = 'other variables damaged: a=%r z=%r' % (byname['a'].value, byname['z'].value)
                            break
                        if place == 'local':
                            hv = byname['h']
                            if hv.type != type(value).__name__:
                                bad = 'offending value type %r, real %r' % (hv.type, type(value).__name__)
                                break
                            if hv.value is None or hv.value == '':
                                if not (isinstance(value, str) and value == ''):
                                    bad = 'offending value has no placeholder text'
                                    break
                        ws = [w for w in s.watches if w.expression == 'a + 1']
                        if len(ws) != 1 or ws[0].error is not None or s.var_lookup[ws[0].result.vid].value != '2':
                            bad = 'neighbouring watch damaged'
                            break
                        if place == 'watch':
                            w0 = [w for w in s.watches if w.expression == 'H[0]']
                            # the expression itself evaluates fine (it names the value): the result is a collected value
                            # (placeholder text at worst), never an error result
                            if len(w0) != 1 or w0[0].error is not None or w0[0].result is None \
                                    or w0[0].result.vid not in s.var_lookup:
                                bad = 'watch on the offending value: %s' % (w0[0].__dict__ if w0 else None)
                                break
                            if s.var_lookup[w0[0].result.vid].type != type(value).__name__:
                                bad = 'watch on the offending value shows type %r, real %r' % (
                                    s.var_lookup[w0[0].result.vid].type, type(value).__name__)
                                break
                        msg = convert_snapshot(s)
                        if msg is None:
                            bad = 'snapshot cannot be converted for delivery (it would be dropped)'
                            break
                        try:
                            msg.SerializeToString()
                        except Exception as ex:
                            bad = 'snapshot cannot be serialised: %r' % (ex,)
                            break
                    # the program's data is as it was: one-shot iterators not advanced, containers not modified
                    first = {'generator': 'first', 'map': '1', 'zip': (1, 2)}
                    if not bad and label in first and next(value) != first[label]:
                        bad = 'the %s was advanced by the agent' % label
                    if not bad and label in FINGERPRINTED and value != pristine:
                        bad = 'the value was modified by the agent: %r, was %r' % (value, pristine)
                c.traces_validated += 1
                c.note_case(key=('catalogue', label, place, ntp), nontrivial=True)
                if bad:
                    path_ = c.save_replay({'direction': 'C2S', 'kind': 'catalogue', 'value': label, 'place': place,
                                           'tracepoints': ntp, 'what': bad})
                    c.violation('catalogue value %s (%s, %d tracepoint(s)): %s' % (label, place, ntp, bad), path_,
                                signature={'value': label, 'place': place})
            finally:
                rg.close()
    c.sample({'kind': 'catalogue', 'values': [x[0] for x in catalogue()][:12], 'places': ['local', 'in_list', 'in_dict',
                                                                                         'in_obj', 'watch']})
    sys.modules.pop(mod.__name__, None)


def logged_snapshots_leg(c, wd):
    """Tracepoints that collect AND log, several on one line, with a tracepoint logger that fails: every due snapshot is
    still delivered, complete on its own (its table closed, its log fields recorded in its own table)."""
    from . import c07
    mod, path, marks = R.write_host(wd, HOST)
    base = path.rsplit('/', 1)[-1]
    for ntp, faulty in ((1, True), (2, True), (2, False), (3, True)):
        logger = R.role_plugin('lg', {'log'}, faults={'log'} if faulty else set())
        rg = R.Rig(plugins=[logger])
        mod.H = ['Zo\u00eb']
        try:
            rg.install([{'id': 'tp-%d' % i, 'path': base, 'line': marks['holder'],
                         'args': {'log_msg': 'case %d: {h} {a + %d} {z}' % (i, i)}, 'watches': ['a + 1'] if i % 2 else []}
                        for i in range(ntp)])
            res = rg.run(mod.holder, 'local', only_file=path)
            snaps = rg.snapshots()
            bad = None
            if res != ('ok', 1) or rg.escaped:
                bad = 'host changed / handler raised: %r %r' % (res, rg.escaped)
            elif sorted(s.tracepoint.id for s in snaps) != ['tp-%d' % i for i in range(ntp)]:
                bad = 'snapshots delivered for %s, %d tracepoint(s) were due (the tracepoint logger %s)' % (
                    sorted(s.tracepoint.id for s in snaps), ntp, 'raises' if faulty else 'works')
            else:
                for s in snaps:
                    bad = c07.table_problems(s, {})
                    if bad:
                        bad = '%s: %s' % (s.tracepoint.id, bad)
                        break
                    logs = [w for w in s.watches if w.source == 'LOG']
                    if len(logs) != 3 or any(w.error is None and (w.result is None or w.result.vid not in s.var_lookup)
                                             for w in logs):
                        bad = '%s: log fields recorded as %s' % (s.tracepoint.id, [w.__dict__ for w in logs])
                        break
                    names = sorted(v.name for v in s.frames[0].variables)
                    if names != ['a', 'h', 'place', 'z']:
                        bad = '%s: top frame variables %s' % (s.tracepoint.id, names)
                        break
            c.traces_validated += 1
            c.note_case(key=('logged-snapshots', ntp, faulty), nontrivial=True)
            if bad:
                p_ = c.save_replay({'direction': 'C2S', 'kind': 'logged-snapshots', 'tracepoints': ntp,
                                    'logger_fails': faulty, 'what': bad})
                c.violation('%d collecting+logging tracepoint(s) on one line, logger %s: %s' % (
                    ntp, 'raising' if faulty else 'working', bad), p_)
        finally:
            rg.close()
    sys.modules.pop(mod.__name__, None)


CAPTURE_HOST = '''
def scale(first, second, third):
    both = [first, second]
    return [third, {'k': first}, both]  # TP:ret


def fail(first, second):
    table = {'a': first}
    raise ValueError([second, table])
'''


def capture_intact_leg(c, wd):
    """A deferred snapshot (method_capture / line_capture): the value captured when the invocation ends is ADDED to the
    snapshot taken at the call - every variable collected then is still there, with its own value."""
    mod, path, marks = R.write_host(wd, CAPTURE_HOST)
    base = path.rsplit('/', 1)[-1]
    cases = [('method_capture', 'scale', lambda: mod.scale(1111, 'text', 3.5), {'first': '1111', 'second': 'text', 'third': '3.5'},
              'return', 'list'),
             ('line_capture', 'scale', lambda: mod.scale(1111, 'text', 3.5),
              {'first': '1111', 'second': 'text', 'third': '3.5', 'both': 'Size: 2'}, 'return', 'list'),
             ('method_capture', 'fail', lambda: mod.fail(7, 'seven'), {'first': '7', 'second': 'seven'}, 'exception', None)]
    for stage, fn, call, want, capname, captype in cases:
        rg = R.Rig()
        try:
            args = {'stage': stage, 'fire_count': '-1', 'fire_period': '0'}
            if stage == 'method_capture':
                args['method_name'] = fn
            rg.install([{'id': 'tp-cap', 'path': base, 'line': marks['ret'] if stage == 'line_capture' else 0,
                         'args': args, 'watches': []}])
            res = rg.run(call, only_file=path)
            snaps = rg.snapshots()
            bad = None
            if rg.escaped:
                bad = 'handler raised: %r' % (rg.escaped,)
            elif len(snaps) != 1:
                bad = '%d snapshots for one deferred capture (host %r)' % (len(snaps), res)
            else:
                s_ = snaps[0]
                byname = {v.name: s_.var_lookup.get(v.vid) for v in s_.frames[0].variables}
                for name, val in want.items():
                    v = byname.get(name)
                    if v is None:
                        bad = 'frame variable %s is gone (or dangling) after the capture was added' % name
                        break
                    if v.value != val:
                        bad = 'frame variable %s reads %r after the capture was added, it was %r' % (name, v.value, val)
                        break
                caps = [w for w in s_.watches if w.source == 'CAPTURE']
                if not bad and (len(caps) != 1 or caps[0].expression != capname or caps[0].result is None
                                or caps[0].result.vid not in s_.var_lookup):
                    bad = 'capture result %s' % [w.__dict__ for w in caps]
                elif not bad and captype and s_.var_lookup[caps[0].result.vid].type != captype:
                    bad = 'captured value has type %r, expected %r' % (s_.var_lookup[caps[0].result.vid].type, captype)
            c.traces_validated += 1
            c.note_case(key=('capture-intact', stage, fn), nontrivial=True)
            if bad:
                p_ = c.save_replay({'direction': 'C2S', 'kind': 'capture-intact', 'stage': stage, 'function': fn, 'what': bad})
                c.violation('deferred snapshot (%s on %s): %s' % (stage, fn, bad), p_)
        finally:
            rg.close()
    sys.modules.pop(mod.__name__, None)


CLOCK_HOST = '''
CLOCK = None


class Stepper:
    """A value whose text is produced while the wall clock is set back (NTP, a resumed VM)."""

    def __str__(self):
        CLOCK(-6)
        return 'stepper'


def inner(n):
    st = Stepper()
    last = n + 1
    return last  # TP:inner


def outer(n):
    kept = [n, n]
    return inner(n) + len(kept)
'''


def clock_back_leg(c, wd):
    """The collection time limit is about time SPENT: when the wall clock is set back while a snapshot is collected
    (next to no time was spent), every frame still carries its variables. And forward: the limit applies."""
    mod, path, marks = R.write_host(wd, CLOCK_HOST)
    base = path.rsplit('/', 1)[-1]
    for label, step, want_outer in (('set back 3 s', -6, True), ('not moved', 0, True), ('moved on 3 s', 6, False)):
        rg = R.Rig()
        try:
            rg.clock.set(100)
            mod.CLOCK = lambda _ignored, step=step: rg.clock.set(rg.clock.tick + step)
            rg.install([{'id': 'tp-clock', 'path': base, 'line': marks['inner'], 'args': {'frame_type': 'all_frame'},
                         'watches': []}])
            res = rg.run(mod.outer, 5, only_file=path)
            snaps = rg.snapshots()
            bad = None
            if res != ('ok', 8) or rg.escaped or len(snaps) != 1:
                bad = 'no snapshot / host changed: %r %r' % (res, rg.escaped)
            else:
                frames = {f.method_name: sorted(v.name for v in f.variables) for f in snaps[0].frames[:2]}
                if frames.get('inner') != ['last', 'n', 'st']:
                    bad = 'variables of the paused frame: %s' % frames.get('inner')
                elif want_outer and frames.get('outer') != ['kept', 'n']:
                    bad = 'variables of the calling frame: %s (no time was spent: the clock was %s)' % (frames.get('outer'), label)
                elif not want_outer and frames.get('outer'):
                    bad = 'the calling frame carries %s although the time limit was used up' % frames.get('outer')
            c.traces_validated += 1
            c.note_case(key=('clock', label), nontrivial=True)
            if bad:
                p_ = c.save_replay({'direction': 'C2S', 'kind': 'clock-during-collection', 'clock': label, 'what': bad})
                c.violation('wall clock %s while the snapshot was collected: %s' % (label, bad), p_)
        finally:
            mod.CLOCK = None
            rg.close()
    sys.modules.pop(mod.__name__, None)


def run(c):
    quick = c.tier == 'quick'
    rng = random.Random(c.seed)
    wd = tlc.scratch('c06_')
    c.rule = ('cases = (a) a catalogue of ~50 concrete hostile Python values x 5 placements (local, inside list/dict/'
              'object, watch result) x 1-2 tracepoints on the line: snapshot delivered, convertible and serialisable, '
              'other variables intact, value shown with its type and a placeholder; (b) random object graphs with '
              'hostile/iterator nodes validated by Trace_Collector; (c) Snapshot.tla behaviours with 2-3 tracepoints on '
              'one location materialised and compared (Independent); every case is non-trivial by construction')
    c.assumptions = ['placeholder wording is not compared', 'str() of generated classes is deterministic']
    hostile = dict(n=2, kinds=('int', 'list', 'obj', 'hostile'), max_child=2, max_roots=2, vars_set=(1, 3), str_set=(2,),
                   coll_set=(2,), depth_set=(2, 3))
    c.mc('MC_Collector', c05.mc_cfg(hostile, live=True), label='graphs with hostile nodes', must_cover=['Step'])
    c.mc('Snapshot', c02.mc_cfg(d=1, k=3), label='3 tracepoints on one location', must_cover=['Collect'])
    c.mc_expect_violation('Snapshot', c02.mc_cfg(shared=True, d=1, k=2, invs=['Independent']), 'deviation SharedTable', what='Independent')
    c.mc_expect_violation('Snapshot', c02.mc_cfg(stb=True, d=2, k=2, invs=['Independent']), 'deviation SharedTimeBudget',
                          what='Independent')
    catalogue_leg(c, wd, 1)
    catalogue_leg(c, wd, 2)
    rnd = [G.random_instance(rng, kinds=('int', 'str', 'list', 'dict', 'obj', 'hostile', 'iter', 'exc'))
           for _ in range(300 if quick else 30000)]
    traces, meta, sk = c05.run_instances(c, rnd, wd, 'random-hostile')
    c05.validate(c, traces, meta)
    logged_snapshots_leg(c, wd)
    capture_intact_leg(c, wd)
    clock_back_leg(c, wd)
    # results of watches are values of their own: a released temporary's identity must not be taken for a later one's
    # (shared with C07)
    from . import c07
    c07.temporaries_leg(c, wd)
    sim = tlc.simulate('Snapshot', c02.mc_cfg(d=2, k=3, cls=c02.ALL_CLS), num=40 if quick else 5000, depth=12, seed=c.seed + 7)
    c.transitions += sim.generated
    multi = [b for b in sim.behaviours if len(b[-1][2]['tps']) >= 2]
    c02.replay_behaviours(c, multi, wd, 'm')
    # totality: `self` of a paused method is an object whose truth value cannot be taken / is False
    sim = tlc.simulate('Snapshot', c02.mc_cfg(d=2, k=2, cls=('H', 'E')), num=12 if quick else 1500, depth=12, seed=c.seed + 8)
    c.transitions += sim.generated
    c02.replay_behaviours(c, sim.behaviours, wd, 'h')


if __name__ == '__main__':
    core.main('C06', run)

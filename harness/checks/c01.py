"""C01 - host transparency (spec/Guard.tla + the differential live runs of the Dispatch scenarios)."""
import random
import sys

from .. import core, tlc, inject
from .. import rig as R
from . import c03

HOST = '''import sys

H = None
GV = 5


def at_line(c):
    x = c + 1
    return H.trace_call(sys._getframe(), 'line', None)  # TP:at_line


def method_m(c):
    r1 = H.trace_call(sys._getframe(), 'call', None)
    y = c * 2
    r2 = H.trace_call(sys._getframe(), 'line', None)  # TP:m_line
    r3 = H.trace_call(sys._getframe(), 'return', y)
    return [r1, r2, r3]
'''


def cases(marks):
    from deepproto.proto.tracepoint.v1.tracepoint_pb2 import Metric, MetricType, LabelExpression
    L = marks['at_line']
    M = marks['m_line']
    inf = {'fire_count': '-1', 'fire_period': '0'}
    return [
        ('snapshot+watches+log', 'at_line', [dict(id='t1', line=L, args=dict(inf, log_msg='x={x} c={c} bad={nope}'),
                                                  watches=['x', 'c + GV', '1 // 0'])], 0),
        ('log only', 'at_line', [dict(id='t1', line=L, args=dict(inf, log_msg='v={x}', snapshot='no_collect'))], 0),
        ('metric', 'at_line', [dict(id='t1', line=L, args=dict(inf, snapshot='no_collect'),
                                    metrics=[Metric(name='m', type=MetricType.COUNTER, expression='x',
                                                    labelExpressions=[LabelExpression(key='k', expression='c')])])], 0),
        ('two tracepoints on the line', 'at_line', [dict(id='t1', line=L, args=dict(inf)),
                                                    dict(id='t2', line=L, args=dict(inf, span='line'))], 0),
        ('failing condition', 'at_line', [dict(id='t1', line=L, args=dict(inf, condition='nope.attr > 1'))], 0),
        ('no tracepoint at the location', 'at_line', [dict(id='t1', line=L + 100, args=dict(inf))], 0),
        ('method span + line span, completed on return', 'method_m',
         [dict(id='t1', line=0, args=dict(inf, span='method', method_name='method_m', snapshot='no_collect')),
          dict(id='t2', line=M, args=dict(inf, span='line', snapshot='no_collect'))], 2),
        ('method capture, completed on return', 'method_m',
         [dict(id='t1', line=0, args=dict(inf, stage='method_capture', method_name='method_m'))], 2),
        ('method snapshot on call', 'method_m', [dict(id='t1', line=0, args=dict(inf, method_name='method_m'))], 0),
        ('line span completed by the return', 'method_m',
         [dict(id='t1', line=M, args=dict(inf, span='line', snapshot='no_collect'))], 2),
    ]


def run_once(mod, path, base, case, injector):
    """One event-handler execution (or three for method_m) with an optional injected fault."""
    name, entry, tps, _ = case
    plugin = R.role_plugin('rec', {'log', 'metric', 'span', 'decorate'})
    rg = R.Rig(plugins=[plugin])
    try:
        rg.install([dict(t, path=base) for t in tps])
        mod.H = rg.handler
        out = {}

        def body():
            return getattr(mod, entry)(3)
        try:
            res = injector.run(body) if injector else body()
            out['escaped'] = False
            rets = res if isinstance(res, list) else [res]
            out['returned'] = 'self' if all(r is not None and getattr(r, '__name__', '') == 'trace_call' for r in rets) \
                else 'none'
            out['rets'] = ['self' if r is not None else 'none' for r in rets]
        except BaseException as ex:
            out['escaped'] = True
            out['returned'] = 'none'
            out['error'] = repr(ex)
        store = getattr(type(rg.handler._callbacks), '_ThreadLocal__store', {})
        import threading
        store.pop(threading.get_ident(), None)
        return out
    finally:
        mod.H = None
        rg.close()


def fault_enumeration(c, rng, wd, per_case):
    mod, path, marks = R.write_host(wd, HOST)
    base = path.rsplit('/', 1)[-1]
    traces, meta = [], []
    for case in cases(marks):
        probe = inject.Injector(target=None)
        base_out = run_once(mod, path, base, case, probe)
        n = probe.count
        if base_out['escaped'] or base_out['returned'] != 'self':
            path_ = c.save_replay({'direction': 'C2S', 'case': case[0], 'what': 'fault-free run', 'outcome': base_out})
            c.violation('case %r without any fault: %s' % (case[0], base_out), path_)
            continue
        sites = list(range(1, n + 1))
        if per_case and n > per_case:
            sites = sorted(rng.sample(sites, per_case))
        for k in sites:
            for kind in ('Exception', 'BaseException'):
                inj = inject.Injector(target=k, kind=kind)
                out = run_once(mod, path, base, case, inj)
                leaked = inject.leaked_locks()
                if inj.skipped or inj.section is None:
                    continue
                if leaked:
                    out = dict(out, escaped=True, error='lock(s) %s left held: the next hit would block the application'
                               % leaked)
                traces.append([{'case': case[0]}, {'section': inj.section, 'kind': kind},
                               {'escaped': out['escaped'], 'returned': out['returned']}])
                meta.append({'case': case[0], 'site': inj.site, 'k': k, 'kind': kind, 'section': inj.section,
                             'outcome': out, 'lines': n})
    sys.modules.pop(mod.__name__, None)
    return traces, meta


def plugin_faults(c, wd):
    """Faults raised by plugins and expressions (not injected lines): every callback x exception kind."""
    mod, path, marks = R.write_host(wd, HOST)
    base = path.rsplit('/', 1)[-1]
    traces, meta = [], []
    for case in cases(marks):
        for cb in ('decorate', 'log', 'create_span', 'close', 'metric'):
            for kind, exc in (('Exception', inject.Fault), ('BaseException', inject.BaseFault)):
                name, entry, tps, _ = case
                plugin = R.role_plugin('rec', {'log', 'metric', 'span', 'decorate'}, faults={cb}, exc=exc)
                rg = R.Rig(plugins=[plugin])
                try:
                    rg.install([dict(t, path=base) for t in tps])
                    mod.H = rg.handler
                    out = {}
                    try:
                        res = getattr(mod, entry)(3)
                        rets = res if isinstance(res, list) else [res]
                        out = {'escaped': False,
                               'returned': 'self' if all(r is not None for r in rets) else 'none'}
                    except BaseException as ex:
                        out = {'escaped': True, 'returned': 'none', 'error': repr(ex)}
                    used = any(call[0] in (cb, 'create_span_fail') or (cb == 'create_span' and call[0] == 'open')
                               for call in plugin.calls)
                    import threading
                    getattr(type(rg.handler._callbacks), '_ThreadLocal__store', {}).pop(threading.get_ident(), None)
                finally:
                    mod.H = None
                    rg.close()
                if not used:
                    continue
                sec = 'RunCallbacks' if cb == 'close' else ('Results' if cb in ('decorate', 'log') else 'Action')
                traces.append([{'case': name}, {'section': sec, 'kind': kind},
                               {'escaped': out['escaped'], 'returned': out['returned']}])
                meta.append({'case': name, 'site': 'plugin.' + cb, 'kind': kind, 'section': sec, 'outcome': out})
    sys.modules.pop(mod.__name__, None)
    return traces, meta


PROBE_HOST = '''
SEEN = []


def probe(tag):
    SEEN.append((tag, HELD()))
    return 7


class Probed:
    def __str__(self):
        SEEN.append(('__str__', HELD()))
        return 'probed'


def work(n):
    p = Probed()
    q = [Probed(), n]
    return n + 1  # TP:work
'''


def lock_probe_leg(c, wd):
    """While application code runs on behalf of the agent (str() of a local, an expression, a plugin callback) the
    agent must not hold one of its own locks: the application may need a lock that another thread holds while that
    thread is waiting for the agent (a deadlock the host program does not have on its own)."""
    from deepproto.proto.tracepoint.v1.tracepoint_pb2 import Metric, MetricType, LabelExpression
    mod, path, marks = R.write_host(wd, PROBE_HOST)
    mod.HELD = inject.held_locks
    base = path.rsplit('/', 1)[-1]
    plugin = R.role_plugin('rec', {'log', 'metric', 'span', 'decorate'})
    plugin.on_record = lambda p, kind, a: mod.SEEN.append(('plugin.' + kind, inject.held_locks()))
    rg = R.Rig(plugins=[plugin])
    try:
        inf = {'fire_count': '-1', 'fire_period': '0'}
        rg.install([
            dict(id='t1', path=base, line=marks['work'], args=dict(inf, log_msg='v={probe("log")}', condition='probe("cond") == 7'),
                 watches=['probe("watch")', 'p']),
            dict(id='t2', path=base, line=marks['work'], args=dict(inf, snapshot='no_collect', span='line'),
                 metrics=[Metric(name='m', type=MetricType.COUNTER, expression='probe("metric")',
                                 labelExpressions=[LabelExpression(key='k', expression='probe("label")')])]),
        ])
        res = rg.run(mod.work, 1, only_file=path)
        c.traces_validated += 1
        c.note_case(key=('lock-probe',), nontrivial=True)
        bad = [(tag, held) for tag, held in mod.SEEN if held]
        tags = {t for t, _ in mod.SEEN}
        need = {'__str__', 'cond', 'watch', 'log', 'metric', 'label', 'plugin.decorate', 'plugin.log', 'plugin.metric',
                'plugin.open'}
        if res != ('ok', 2) or rg.escaped:
            c.violation('lock probe: host changed / handler raised %r %r' % (res, rg.escaped),
                        c.save_replay({'kind': 'lock-probe', 'res': repr(res)}))
        elif not need <= tags:
            raise tlc.MachineryError('lock probe did not reach application code for %s' % sorted(need - tags))
        elif bad:
            c.violation('the agent holds its lock %s while application code runs (%s): a host thread that holds a lock '
                        'this code needs and reaches a tracepoint would deadlock' % (bad[0][1], bad[0][0]),
                        c.save_replay({'kind': 'lock-probe', 'held': bad[:5]}))
    finally:
        rg.close()
        sys.modules.pop(mod.__name__, None)
        import threading
        getattr(type(rg.handler._callbacks), '_ThreadLocal__store', {}).pop(threading.get_ident(), None)


def validate(c, traces, meta, kind):
    if not traces:
        return
    accepted, progress, r = tlc.validate_traces('Trace_Guard', traces,
                                                constants=dict(OuterUnguarded=False, HasTracepoints=True))
    c.states += r.distinct
    c.transitions += r.generated
    sites = set()
    shown = 0
    for i, tr in enumerate(traces):
        m = meta[i]
        c.traces_validated += 1
        sites.add((m['case'], m['site']))
        c.note_case(key=(kind, m['case'], m['site'], m['kind']), nontrivial=True)
        if i not in accepted:
            path = c.save_replay({'direction': 'C2S', 'module': 'Trace_Guard', 'kind': kind, 'meta': m, 'trace': tr})
            if c.violation('%s: a %s raised at %s (section %s) while handling case %r: escaped=%s returned=%s %s'
                           % (kind, m['kind'], m['site'], m['section'], m['case'], m['outcome']['escaped'],
                              m['outcome']['returned'], m['outcome'].get('error', '')), path):
                shown += 1
                if shown >= 10:
                    break
    c.extra.setdefault('distinct_fault_sites', 0)
    c.extra['distinct_fault_sites'] += len(sites)
    c.sample({'kind': kind, 'meta': meta[0], 'trace': traces[0]})


def run(c):
    quick = c.tier == 'quick'
    rng = random.Random(c.seed)
    wd = tlc.scratch('c01_')
    c.rule = ('cases = (a) fault injection: for 10 (tracepoint configuration x event kind) cases a fault (Exception and '
              'BaseException) is raised at every line the agent executes while handling the event (a sample per case in '
              'quick), each run a trace [section, kind, outcome] validated by Trace_Guard; (b) every plugin callback '
              'raising either kind; (c) differential live runs of script-driven host programs with random tracepoints '
              '(results/exceptions equal with and without the agent, handler never raises, nothing left pending); '
              'every fault run is non-trivial, live runs with at least 3 firings')
    c.assumptions = ['expressions are side-effect free', "the outer guard's own try/return/except lines cannot fail",
                     'agent log output, object ids and timing are not compared']
    for ht in (True,):
        c.mc('Guard', dict(constants=dict(OuterUnguarded=False, HasTracepoints=ht), invariants=['NeverEscapes',
             'StaysInstalled'], deadlock=False), label='guarded handler', must_cover=['Run', 'Finish'])
    c.mc_expect_violation('Guard', dict(constants=dict(OuterUnguarded=True, HasTracepoints=True),
                                        invariants=['NeverEscapes'], deadlock=False), 'deviation OuterUnguarded',
                          what='NeverEscapes')
    traces, meta = fault_enumeration(c, rng, wd, 120 if quick else None)
    validate(c, traces, meta, 'injected-line')
    traces, meta = plugin_faults(c, wd)
    validate(c, traces, meta, 'plugin-callback')
    lock_probe_leg(c, wd)
    traces, meta = c03.run_scenarios(c, rng, wd, 40 if quick else 6000, 0.5, 'differential', 'd')
    c03.validate(c, traces, meta, lambda m: m['firings'] >= 3)


if __name__ == '__main__':
    core.main('C01', run)

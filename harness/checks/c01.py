"""C01 - host transparency (spec/Guard.tla + the differential live runs of the Dispatch scenarios)."""
import random
import sys

from .. import core, tlc, inject
from .. import rig as R
from . import c03

HOST = '''import sys

H = None
GV = 5


def at_line(c):
    x = c + 1
    return H.trace_call(sys._getframe(), 'line', None)  # TP:at_line


def method_m(c):
    r1 = H.trace_call(sys._getframe(), 'call', None)
    y = c * 2
    r2 = H.trace_call(sys._getframe(), 'line', None)  # TP:m_line
    r3 = H.trace_call(sys._getframe(), 'return', y)
    return [r1, r2, r3]
'''


def cases(marks):
    from deepproto.proto.tracepoint.v1.tracepoint_pb2 import Metric, MetricType, LabelExpression
    L = marks['at_line']
    M = marks['m_line']
    inf = {'fire_count': '-1', 'fire_period': '0'}
    return [
        ('snapshot+watches+log', 'at_line', [dict(id='t1', line=L, args=dict(inf, log_msg='x={x} c={c} bad={nope}'),
                                                  watches=['x', 'c + GV', '1 // 0'])], 0),
        ('log only', 'at_line', [dict(id='t1', line=L, args=dict(inf, log_msg='v={x}', snapshot='no_collect'))], 0),
        ('metric', 'at_line', [dict(id='t1', line=L, args=dict(inf, snapshot='no_collect'),
                                    metrics=[Metric(name='m', type=MetricType.COUNTER, expression='x',
                                                    labelExpressions=[LabelExpression(key='k', expression='c')])])], 0),
        ('two tracepoints on the line', 'at_line', [dict(id='t1', line=L, args=dict(inf)),
                                                    dict(id='t2', line=L, args=dict(inf, span='line'))], 0),
        ('failing condition', 'at_line', [dict(id='t1', line=L, args=dict(inf, condition='nope.attr > 1'))], 0),
        ('no tracepoint at the location', 'at_line', [dict(id='t1', line=L + 100, args=dict(inf))], 0),
        ('method span + line span, completed on return', 'method_m',
         [dict(id='t1', line=0, args=dict(inf, span='method', method_name='method_m', snapshot='no_collect')),
          dict(id='t2', line=M, args=dict(inf, span='line', snapshot='no_collect'))], 2),
        ('method capture, completed on return', 'method_m',
         [dict(id='t1', line=0, args=dict(inf, stage='method_capture', method_name='method_m'))], 2),
        ('method snapshot on call', 'method_m', [dict(id='t1', line=0, args=dict(inf, method_name='method_m'))], 0),
        ('line span completed by the return', 'method_m',
         [dict(id='t1', line=M, args=dict(inf, span='line', snapshot='no_collect'))], 2),
    ]


def run_once(mod, path, base, case, injector):
    """One event-handler execution (or three for method_m) with an optional injected fault."""
    name, entry, tps, _ = case
    plugin = R.role_plugin('rec', {'log', 'metric', 'span', 'decorate'})
    rg = R.Rig(plugins=[plugin])
    try:
        rg.install([dict(t, path=base) for t in tps])
        mod.H = rg.handler
        out = {}

        def body():
            return getattr(mod, entry)(3)
        try:
            res = injector.run(body) if injector else body()
            out['escaped'] = False
            rets = res if isinstance(res, list) else [res]
            out['returned'] = 'self' if all(r is not None and getattr(r, '__name__', '') == 'trace_call' for r in rets) \
                else 'none'
            out['rets'] = ['self' if r is not None else 'none' for r in rets]
        except BaseException as ex:
            out['escaped'] = True
            out['returned'] = 'none'
            out['error'] = repr(ex)
        store = getattr(type(rg.handler._callbacks), '_ThreadLocal__store', {})
        import threading
        store.pop(threading.get_ident(), None)
        return out
    finally:
        mod.H = None
        rg.close()


def fault_enumeration(c, rng, wd, per_case):
    mod, path, marks = R.write_host(wd, HOST)
    base = path.rsplit('/', 1)[-1]
    traces, meta = [], []
    for case in cases(marks):
        probe = inject.Injector(target=None)
        base_out = run_once(mod, path, base, case, probe)
        n = probe.count
        if base_out['escaped'] or base_out['returned'] != 'self':
            path_ = c.save_replay({'direction': 'C2S', 'case': case[0], 'what': 'fault-free run', 'outcome': base_out})
            c.violation('case %r without any fault: %s' % (case[0], base_out), path_)
            continue
        sites = list(range(1, n + 1))
        if per_case and n > per_case:
            sites = sorted(rng.sample(sites, per_case))
        for k in sites:
            for kind in ('Exception', 'BaseException'):
                inj = inject.Injector(target=k, kind=kind)
                out = run_once(mod, path, base, case, inj)
                leaked = inject.leaked_locks()
                if inj.skipped or inj.section is None:
                    continue
                if leaked:
                    out = dict(out, escaped=True, error='lock(s) %s left held: the next hit would block the application'
                               % leaked)
                traces.append([{'case': case[0]}, {'section': inj.section, 'kind': kind},
                               {'escaped': out['escaped'], 'returned': out['returned']}])
                meta.append({'case': case[0], 'site': inj.site, 'k': k, 'kind': kind, 'section': inj.section,
                             'outcome': out, 'lines': n})
    sys.modules.pop(mod.__name__, None)
    return traces, meta


def plugin_faults(c, wd):
    """Faults raised by plugins and expressions (not injected lines): every callback x exception kind."""
    mod, path, marks = R.write_host(wd, HOST)
    base = path.rsplit('/', 1)[-1]
    traces, meta = [], []
    for case in cases(marks):
        for cb in ('decorate', 'log', 'create_span', 'close', 'metric'):
            for kind, exc in (('Exception', inject.Fault), ('BaseException', inject.BaseFault)):
                name, entry, tps, _ = case
                plugin = R.role_plugin('rec', {'log', 'metric', 'span', 'decorate'}, faults={cb}, exc=exc)
                rg = R.Rig(plugins=[plugin])
                try:
                    rg.install([dict(t, path=base) for t in tps])
                    mod.H = rg.handler
                    out = {}
                    try:
                        res = getattr(mod, entry)(3)
                        rets = res if isinstance(res, list) else [res]
                        out = {'escaped': False,
                               'returned': 'self' if all(r is not None for r in rets) else 'none'}
                    except BaseException as ex:
                        out = {'escaped': True, 'returned': 'none', 'error': repr(ex)}
                    used = any(call[0] in (cb, 'create_span_fail') or (cb == 'create_span' and call[0] == 'open')
                               for call in plugin.calls)
                    import threading
                    getattr(type(rg.handler._callbacks), '_ThreadLocal__store', {}).pop(threading.get_ident(), None)
                finally:
                    mod.H = None
                    rg.close()
                if not used:
                    continue
                sec = 'RunCallbacks' if cb == 'close' else ('Results' if cb in ('decorate', 'log') else 'Action')
                traces.append([{'case': name}, {'section': sec, 'kind': kind},
                               {'escaped': out['escaped'], 'returned': out['returned']}])
                meta.append({'case': name, 'site': 'plugin.' + cb, 'kind': kind, 'section': sec, 'outcome': out})
    sys.modules.pop(mod.__name__, None)
    return traces, meta


PROBE_HOST = '''
SEEN = []


def probe(tag):
    SEEN.append((tag, HELD()))
    return 7


class Probed:
    def __str__(self):
        SEEN.append(('__str__', HELD()))
        return 'probed'


def work(n):
    p = Probed()
    q = [Probed(), n]
    return n + 1  # TP:work
'''


def lock_probe_leg(c, wd):
    """While application code runs on behalf of the agent (str() of a local, an expression, a plugin callback) the
    agent must not hold one of its own locks: the application may need a lock that another thread holds while that
    thread is waiting for the agent (a deadlock the host program does not have on its own)."""
    from deepproto.proto.tracepoint.v1.tracepoint_pb2 import Metric, MetricType, LabelExpression
    mod, path, marks = R.write_host(wd, PROBE_HOST)
    mod.HELD = inject.held_locks
    base = path.rsplit('/', 1)[-1]
    plugin = R.role_plugin('rec', {'log', 'metric', 'span', 'decorate'})
    plugin.on_record = lambda p, kind, a: mod.SEEN.append(('plugin.' + kind, inject.held_locks()))
    rg = R.Rig(plugins=[plugin])
    try:
        inf = {'fire_count': '-1', 'fire_period': '0'}
        rg.install([
            dict(id='t1', path=base, line=marks['work'], args=dict(inf, log_msg='v={probe("log")}', condition='probe("cond") == 7'),
                 watches=['probe("watch")', 'p']),
            dict(id='t2', path=base, line=marks['work'], args=dict(inf, snapshot='no_collect', span='line'),
                 metrics=[Metric(name='m', type=MetricType.COUNTER, expression='probe("metric")',
                                 labelExpressions=[LabelExpression(key='k', expression='probe("label")')])]),
        ])
        res = rg.run(mod.work, 1, only_file=path)
        c.traces_validated += 1
        c.note_case(key=('lock-probe',), nontrivial=True)
        bad = [(tag, held) for tag, held in mod.SEEN if held]
        tags = {t for t, _ in mod.SEEN}
        need = {'__str__', 'cond', 'watch', 'log', 'metric', 'label', 'plugin.decorate', 'plugin.log', 'plugin.metric',
                'plugin.open'}
        if res != ('ok', 2) or rg.escaped:
            c.violation('lock probe: host changed / handler raised %r %r' % (res, rg.escaped),
                        c.save_replay({'kind': 'lock-probe', 'res': repr(res)}))
        elif not need <= tags:
            raise tlc.MachineryError('lock probe did not reach application code for %s' % sorted(need - tags))
        elif bad:
            c.violation('the agent holds its lock %s while application code runs (%s): a host thread that holds a lock '
                        'this code needs and reaches a tracepoint would deadlock' % (bad[0][1], bad[0][0]),
                        c.save_replay({'kind': 'lock-probe', 'held': bad[:5]}))
    finally:
        rg.close()
        sys.modules.pop(mod.__name__, None)
        import threading
        getattr(type(rg.handler._callbacks), '_ThreadLocal__store', {}).pop(threading.get_ident(), None)


def validate(c, traces, meta, kind):
    if not traces:
        return
    accepted, progress, r = tlc.validate_traces('Trace_Guard', traces,
                                                constants=dict(OuterUnguarded=False, HasTracepoints=True))
    c.states += r.distinct
    c.transitions += r.generated
    sites = set()
    shown = 0
    for i, tr in enumerate(traces):
        m = meta[i]
        c.traces_validated += 1
        sites.add((m['case'], m['site']))
        c.note_case(key=(kind, m['case'], m['site'], m['kind']), nontrivial=True)
        if i not in accepted:
            path = c.save_replay({'direction': 'C2S', 'module': 'Trace_Guard', 'kind': kind, 'meta': m, 'trace': tr})
            if c.violation('%s: a %s raised at %s (section %s) while handling case %r: escaped=%s returned=%s %s'
                           % (kind, m['kind'], m['site'], m['section'], m['case'], m['outcome']['escaped'],
                              m['outcome']['returned'], m['outcome'].get('error', '')), path):
                shown += 1
                if shown >= 10:
                    break
    c.extra.setdefault('distinct_fault_sites', 0)
    c.extra['distinct_fault_sites'] += len(sites)
    c.sample({'kind': kind, 'meta': meta[0], 'trace': traces[0]})


AMBIENT_HOST = '''import warnings

LIMIT = 3
FINALIZED = [0]


class Res:
    """A resource released by reference counting when the function that holds it returns."""

    def __del__(self):
        FINALIZED[0] += 1


def old_api():
    warnings.warn('old_api is deprecated', DeprecationWarning, stacklevel=2)
    return 1


def work(n):
    total = 0
    items = [n, n + 1]
    res = Res()
    for i in range(3):
        total += old_api()  # TP:warned
    label = 'n=%d' % n
    return total + n  # TP:work
'''

FACETS = ['prng', 'warnings', 'recursion', 'decimal', 'environ', 'syspath', 'cwd', 'logging', 'gc', 'hooks',
          'switchinterval', 'finalizers', 'retained']
FEATURE_ARGS = {
    'snapshot': {},
    'watch': {},
    'log': {'log_msg': 'n is {n} and {items[0]}'},
    'condition': {'condition': 'n >= LIMIT - 10'},
    'metric': {},
    'span': {'span': 'line'},
    'capture': {'stage': 'line_capture'},
    'register': {},        # (not a tracepoint argument: the step also registers a tracepoint in code, and removes it)
}


def _fingerprint(mod):
    import decimal
    import gc
    import logging as pylog
    import os
    import random as pyrandom
    import sys
    import threading
    import warnings
    ctx = decimal.getcontext()
    root = pylog.getLogger()
    return {
        'prng': hash(pyrandom.getstate()),
        'warnings': (repr(warnings.filters), getattr(warnings, '_filters_version', 0)),
        'recursion': sys.getrecursionlimit(),
        'decimal': (ctx.prec, ctx.rounding, repr(ctx.flags), repr(ctx.traps)),
        'environ': hash(tuple(sorted(os.environ.items()))),
        'syspath': tuple(sys.path),
        'cwd': os.getcwd(),
        'logging': (root.level, tuple(id(h) for h in root.handlers), pylog.root.manager.disable),
        'gc': (gc.isenabled(), gc.get_threshold()),
        'hooks': (id(sys.excepthook), id(threading.excepthook), id(sys.unraisablehook), id(sys.displayhook)),
        'switchinterval': sys.getswitchinterval(),
        'finalizers': 0,       # measured per step: objects whose last reference went away but which were not finalized
        'retained': 0,         # measured per step: ... and that are STILL not finalized after a garbage collection
    }


_KEPT_HOOKS = []


def _host_change(facet, k):
    """The application changes one facet itself (and the harness checks that its fingerprint notices)."""
    import decimal
    import gc
    import logging as pylog
    import os
    import random as pyrandom
    import sys
    import warnings
    if facet == 'prng':
        pyrandom.random()
    elif facet == 'warnings':
        warnings.simplefilter('default', type('HostWarning%d' % k, (Warning,), {}))     # a new filter every time
    elif facet == 'recursion':
        sys.setrecursionlimit(sys.getrecursionlimit() + 1)
    elif facet == 'decimal':
        decimal.getcontext().prec += 1
    elif facet == 'environ':
        os.environ['VERIF_AMBIENT_%d' % k] = '1'
    elif facet == 'syspath':
        sys.path.append('/nonexistent-%d' % k)
    elif facet == 'cwd':
        os.chdir('/tmp' if os.getcwd() != '/tmp' else '/')
    elif facet == 'logging':
        pylog.getLogger().setLevel(pylog.getLogger().level + 1)
    elif facet == 'gc':
        a, b, c_ = gc.get_threshold()
        gc.set_threshold(a + 1, b, c_)
    elif facet == 'hooks':
        _KEPT_HOOKS.append(lambda *a: None)          # kept alive: a new object (a new id) every time
        sys.excepthook = _KEPT_HOOKS[-1]
    elif facet == 'switchinterval':
        sys.setswitchinterval(sys.getswitchinterval() * 1.01)
    elif facet == 'finalizers':
        pass        # (the host-side change is made by the caller: it parks an object in a reference cycle)
    elif facet == 'retained':
        pass        # (made by the caller: it keeps an object alive in a module-level list)


def ambient_leg(c, rng, wd, nruns):
    """Hits handled by the real agent (every combination of tracepoint features) interleaved with the program changing
    the interpreter-wide state itself; what changed across every step is recorded and validated by Trace_Ambient."""
    import copy
    import decimal
    import gc
    import logging as pylog
    import os
    import random as pyrandom
    import sys
    import threading
    import warnings
    from deepproto.proto.tracepoint.v1.tracepoint_pb2 import Metric, MetricType
    from .. import rig as R
    traces, meta = [], []
    features = sorted(FEATURE_ARGS)
    for run_i in range(nruns):
        saved = dict(prng=pyrandom.getstate(), filters=list(warnings.filters), rec=sys.getrecursionlimit(),
                     dec=decimal.getcontext().copy(), env=dict(os.environ), path=list(sys.path), cwd=os.getcwd(),
                     level=pylog.getLogger().level, gc=gc.get_threshold(), hook=sys.excepthook,
                     sw=sys.getswitchinterval())
        mod, path, marks = R.write_host(wd, AMBIENT_HOST)
        base = path.rsplit('/', 1)[-1]
        plugin = R.role_plugin('amb', {'log', 'metric', 'span', 'decorate'})
        rg = R.Rig(plugins=[plugin])
        tr = [{'facets': FACETS}]
        try:
            warnings.simplefilter('default', DeprecationWarning)      # once per location, as an application would see it
            pyrandom.seed(1234 + run_i)
            shown = []
            old_show = warnings.showwarning
            warnings.showwarning = lambda *a, **k: shown.append(str(a[0]))
            nsteps = 8 if run_i else 2 * len(features) + len(FACETS)
            plan = []
            if run_i == 0:
                # systematic: every single feature, then all together, with every facet changed by the host once
                for f in features:
                    plan.append(('agent', [f]))
                plan.append(('agent', list(features)))
                for fc in FACETS:
                    plan.append(('host', fc))
                    plan.append(('agent', rng.sample(features, 3)))
            else:
                for _ in range(nsteps):
                    if rng.random() < 0.3:
                        plan.append(('host', rng.choice(FACETS)))
                    else:
                        plan.append(('agent', sorted(rng.sample(features, rng.randint(1, len(features))))))
            k = 0
            created = 0             # Res objects made so far (one per run of `work`, plus the application's own)
            kept = []
            gc.disable()            # the cyclic collector runs when the harness says so (deterministic measurement)
            expect_show = True      # the once-per-location registry is empty: the loop's warning will be shown once
            for kind, what in plan:
                k += 1
                before = _fingerprint(mod)
                nshown = len(shown)
                pending_before = created - mod.FINALIZED[0] - len(kept)
                kept_before = len(kept)
                if kind == 'host':
                    _host_change(what, k)
                    if what == 'finalizers':
                        cyc = [mod.Res()]
                        cyc.append(cyc)          # the application itself leaves an object to the cyclic collector
                        created += 1
                        del cyc
                    if what == 'retained':
                        kept.append(mod.Res())   # the application itself keeps an object alive
                        created += 1
                    rec = {'ev': 'host', 'facet': what}
                    if what == 'warnings':
                        expect_show = True          # changing the filters resets the registries
                else:
                    args = {'fire_count': '-1', 'fire_period': '0'}
                    for f in what:
                        args.update(FEATURE_ARGS[f])
                    if 'snapshot' not in what and 'capture' not in what:
                        args['snapshot'] = 'no_collect'
                    tp = {'id': 'amb-%d' % k, 'path': base, 'line': marks['work'], 'args': args,
                          'watches': ['n * 2', 'label.upper()'] if 'watch' in what else [],
                          'metrics': [Metric(name='m', type=MetricType.COUNTER, expression='n')] if 'metric' in what else []}
                    second = {'id': 'amb-w-%d' % k, 'path': base, 'line': marks['warned'],
                              'args': {'fire_count': '-1', 'fire_period': '0', 'snapshot': 'no_collect',
                                       'log_msg': 'loop {i}', 'condition': 'i >= 0'}}
                    rg.install([tp, second])
                    res = rg.run(mod.work, 5, only_file=path)
                    created += 1
                    if 'register' in what:
                        # the application uses the registration API around its work: that is the agent's doing as well
                        rid = rg.register({'path': base, 'line': marks['work'], 'args': {'fire_count': '1'}})
                        rg.tps.remove_custom(rid)
                    if res != ('ok', 8) or rg.escaped:
                        raise tlc.MachineryError('ambient host run: %r %r' % (res, rg.escaped))
                    rec = {'ev': 'agent', 'features': list(what)}
                after = _fingerprint(mod)
                rec['changed'] = [f for f in FACETS if before[f] != after[f]]
                # `work` holds a Res in a local: without the agent it is finalized the moment `work` returns
                pending_after = created - mod.FINALIZED[0] - len(kept)
                if pending_after != pending_before:
                    rec['changed'].append('finalizers')
                if kind == 'agent':
                    # whatever the agent held on to must be gone after a garbage collection: only what the application
                    # itself keeps is still alive
                    gc.collect()
                    left = created - mod.FINALIZED[0] - len(kept)
                    if left != 0:
                        rec['changed'].append('retained')
                        rec['retained_objects'] = left
                        created -= left          # (judged once: later steps start from what is alive now)
                elif len(kept) != kept_before:
                    rec['changed'].append('retained')
                if kind == 'agent':
                    # the program's own DeprecationWarning (3 times at one location per run of `work`) is shown once per
                    # location until the application touches the filters again - with or without the agent
                    want = 1 if expect_show else 0
                    expect_show = False
                    if len(shown) - nshown != want and 'warnings' not in rec['changed']:
                        rec['changed'].append('warnings')
                        rec['warnings_shown'] = [len(shown) - nshown, want]
                tr.append(rec)
            tr_meta = {'plan': plan, 'warnings_shown': len(shown)}
        finally:
            gc.enable()
            gc.collect()
            warnings.showwarning = old_show
            rg.close()
            pyrandom.setstate(saved['prng'])
            warnings.filters[:] = saved['filters']
            if hasattr(warnings, '_filters_mutated'):
                warnings._filters_mutated()
            sys.setrecursionlimit(saved['rec'])
            decimal.setcontext(saved['dec'])
            for key in list(os.environ):
                if key not in saved['env']:
                    del os.environ[key]
            sys.path[:] = saved['path']
            os.chdir(saved['cwd'])
            pylog.getLogger().setLevel(saved['level'])
            gc.set_threshold(*saved['gc'])
            sys.excepthook = saved['hook']
            sys.setswitchinterval(saved['sw'])
            sys.modules.pop(mod.__name__, None)
        traces.append(tr)
        meta.append(tr_meta)
    consts = dict(Facets=set(FACETS), Features=set(features), MaxSteps=100000, DrawsFromGlobalPRNG=False)
    accepted, progress, r = tlc.validate_traces('Trace_Ambient', traces, constants=consts,
                                                invariants=['TraceInvariant'])
    c.states += r.distinct
    c.transitions += r.generated
    retry = []
    for i, tr in enumerate(traces):
        c.traces_validated += 1
        c.note_case(key=('ambient', str(meta[i]['plan'])), nontrivial=True)
        if i not in accepted:
            at = progress.get(i, 2)
            ev = tr[at - 1] if at - 1 < len(tr) else None
            path_ = c.save_replay({'direction': 'C2S', 'module': 'Trace_Ambient', 'trace': tr, 'meta': meta[i],
                                   'rejected_at': at})
            if ev is not None and ev.get('ev') == 'host':
                raise tlc.MachineryError('ambient fingerprint is blind or unstable at host step %r' % (ev,))
            c.violation('ambient state: a hit handled by the agent (features %s) changed %s of the process%s'
                        % (ev.get('features') if ev else '?', ev.get('changed') if ev else '?',
                           ' - ' + meta[i]['note'] if meta[i].get('note') else ''), path_,
                        signature={'ambient': sorted(ev.get('changed', [])) if ev else []})
            # the rest of this run is judged as well: cut the rejected event out and validate again
            rest = [tr[0]] + [e for j, e in enumerate(tr[1:], 2) if j != at and not
                              (e.get('ev') == 'agent' and sorted(e.get('changed', [])) == sorted(ev.get('changed', [])))]
            retry.append((rest, meta[i]))
    if retry:
        # events of the kind already reported were removed: anything else the agent changed is still found
        traces2 = [t for t, _ in retry]
        accepted2, progress2, r2 = tlc.validate_traces('Trace_Ambient', traces2, constants=consts,
                                                      invariants=['TraceInvariant'])
        for i, tr in enumerate(traces2):
            if i not in accepted2:
                at = progress2.get(i, 2)
                ev = tr[at - 1] if at - 1 < len(tr) else {}
                if ev.get('ev') == 'host':
                    raise tlc.MachineryError('ambient fingerprint is blind or unstable at host step %r' % (ev,))
                path_ = c.save_replay({'direction': 'C2S', 'module': 'Trace_Ambient', 'trace': tr, 'rejected_at': at})
                c.violation('ambient state: a hit handled by the agent (features %s) changed %s of the process'
                            % (ev.get('features'), ev.get('changed')), path_,
                            signature={'ambient': sorted(ev.get('changed', []))})
    c.sample({'kind': 'ambient', 'trace': traces[0][:6]})


def ambient_lifecycle_leg(c, late=False):
    """deep.start() through the public entry point, a hit, shutdown() in a fresh interpreter in which the application has
    configured its own logging (late: it does so AFTER deep.start(), as an application that attaches the agent first thing
    does): what changed across each call is validated by Trace_Ambient, and the application's log file must have received
    the application's records (and only those at its level)."""
    import json
    import os
    import subprocess
    import sys
    p = subprocess.run([sys.executable, '-m', 'harness.ambient_start'] + (['late'] if late else []), cwd=tlc.VERIF,
                       env=dict(os.environ), stdout=subprocess.PIPE, stderr=subprocess.PIPE, timeout=180)
    res = None
    for line in p.stdout.decode('utf-8', 'replace').split('\n'):
        if line.startswith('RESULT '):
            res = json.JSONDecoder().raw_decode(line[7:])[0]
    if res is None:
        raise tlc.MachineryError('ambient life-cycle run produced no result: %s' % p.stderr.decode('utf-8', 'replace')[-500:])
    consts = dict(Facets=set(FACETS), Features={'start', 'hit', 'shutdown'}, MaxSteps=100000, DrawsFromGlobalPRNG=False)
    accepted, progress, r = tlc.validate_traces('Trace_Ambient', [res['trace']], constants=consts,
                                                invariants=['TraceInvariant'])
    c.states += r.distinct
    c.transitions += r.generated
    c.traces_validated += 1
    c.note_case(key=('ambient-lifecycle', late), nontrivial=True)
    problems = []
    if 0 not in accepted:
        at = progress.get(0, 2)
        ev = res['trace'][at - 1] if at - 1 < len(res['trace']) else {}
        problems.append('%s changed %s of the process' % (ev.get('features'), ev.get('changed')))
        sig = {'ambient': sorted(ev.get('changed', []))}
    else:
        sig = None
    if res.get('app_log') != 'APP WARNING warning line of the application\n':
        problems.append("the application's log file holds %r, the application logged one WARNING line" % (res.get('app_log'),))
        sig = sig or {'ambient': ['logging']}
    if problems:
        path = c.save_replay({'direction': 'C2S', 'module': 'Trace_Ambient', 'kind': 'lifecycle', 'result': res,
                              'problems': problems})
        c.violation('ambient state across deep.start() / hit / shutdown(): %s' % problems, path, signature=sig)


RECURSION_HOST = '''
def down(n):
    if n == 0:
        return 0
    return down(n - 1) + 1


def spot(a):
    return a  # TP:spot
'''


def recursion_leg(c, wd):
    """A program that recurses to within a few frames of the interpreter's limit: the same result with the agent attached
    (its trace function needs frames of its own at the deepest point), and tracing still on afterwards."""
    import threading
    from .. import rig as R
    mod, path, marks = R.write_host(wd, RECURSION_HOST)
    out = {}

    def body():
        def noop(frame, event, arg):        # (the harness's own wrapper costs one frame per event: so does this one)
            return noop

        def deepest():
            lo, hi = 10, sys.getrecursionlimit() + 10
            while lo < hi:              # the deepest recursion that works WITHOUT the agent, on this stack
                mid = (lo + hi + 1) // 2
                sys.settrace(noop)
                try:
                    mod.down(mid)
                    lo = mid
                except RecursionError:
                    hi = mid - 1
                finally:
                    sys.settrace(None)
            return lo
        n = deepest()
        rg = R.Rig()
        try:
            rg.install([{'id': 'tp-spot', 'path': path.rsplit('/', 1)[-1], 'line': marks['spot'],
                         'args': {'fire_count': '-1', 'fire_period': '0'}}])
            res = rg.run(mod.down, n, only_file=path)
            after = rg.run(mod.spot, 1, only_file=path)
            out['r'] = (n, res, len(rg.snapshots()), after, list(rg.escaped))
        finally:
            rg.close()
    th = threading.Thread(target=body)
    th.start()
    th.join(120)
    sys.modules.pop(mod.__name__, None)
    if 'r' not in out:
        raise tlc.MachineryError('recursion case did not finish')
    n, res, nsnap, after, escaped = out['r']
    c.traces_validated += 1
    c.note_case(key=('recursion-near-limit',), nontrivial=True)
    if res != ('ok', n) or escaped:
        c.violation('a recursion %d deep (the deepest that works without the agent) gives %r with the agent attached '
                    '(errors out of the trace function: %s)' % (n, res[:2], escaped[:1]), None,
                    signature={'recursion': 'near-limit'})
    elif after != ('ok', 1) or nsnap != 1:
        c.violation('after a recursion near the limit the tracepoint no longer acts (%d snapshots)' % nsnap, None,
                    signature={'recursion': 'near-limit'})


HELD_EXC_HOST = '''
import traceback


def describe(err):
    depth, tb = 0, err.__traceback__
    while tb is not None:
        depth, tb = depth + 1, tb.tb_next
    return [depth, repr(err.__context__), repr(err.__cause__), len(traceback.format_exception(type(err), err, err.__traceback__)),
            err.args]


class Retry:
    def __init__(self):
        self.last_error = None


def handled(n):
    state = Retry()
    try:
        raise ValueError('first attempt failed')
    except ValueError as e:
        err = e
        state.last_error = e
    try:
        raise KeyError('second attempt failed')
    except KeyError:
        n = n + 1  # TP:handled
    return [n, describe(err), describe(state.last_error)]
'''


def held_exception_leg(c, wd):
    """The VALUES the program holds are its own: an exception object the application keeps (the error of the last attempt,
    a local `err`) and that a watch, a log field, a condition or a metric merely looks at is the same object afterwards -
    its traceback, its context and its cause are what the application left there."""
    from deepproto.proto.tracepoint.v1.tracepoint_pb2 import Metric, MetricType, LabelExpression
    mod, path, marks = R.write_host(wd, HELD_EXC_HOST)
    base = path.rsplit('/', 1)[-1]
    inf = {'fire_count': '-1', 'fire_period': '0'}
    want = mod.handled(1)
    for label, tp in (
            ('watch', dict(args=dict(inf), watches=['err', 'state.last_error'])),
            ('log field', dict(args=dict(inf, log_msg='last error {err} / {state.last_error}'))),
            ('condition', dict(args=dict(inf, condition='err.args and state.last_error is not None'))),
            ('metric label', dict(args=dict(inf), metrics=[Metric(name='m', type=MetricType.COUNTER, labelExpressions=[
                LabelExpression(key='k', expression='err')])])),
            ('capture', dict(args=dict(inf, stage='line_capture'), watches=['err']))):
        plugin = R.role_plugin('rec', {'log', 'metric'})
        rg = R.Rig(plugins=[plugin])
        try:
            rg.install([dict(tp, id='t-held', path=base, line=marks['handled'])])
            res = rg.run(mod.handled, 1, only_file=path)
            bad = None
            if rg.escaped:
                bad = 'the handler raised into the host: %r' % (rg.escaped,)
            elif res != ('ok', want):
                bad = 'the program returned %r, without the agent %r' % (res, want)
            elif not rg.snapshots():
                bad = 'no snapshot (the case was not exercised)'
        finally:
            rg.close()
        c.traces_validated += 1
        c.note_case(key=('held-exception', label), nontrivial=True)
        if bad:
            p_ = c.save_replay({'kind': 'held-exception', 'looked_at_by': label, 'what': bad})
            c.violation('an exception object the program holds, looked at by a %s: %s' % (label, bad), p_)
    sys.modules.pop(mod.__name__, None)


def run(c):
    quick = c.tier == 'quick'
    rng = random.Random(c.seed)
    wd = tlc.scratch('c01_')
    c.rule = ('cases = (a) fault injection: for 10 (tracepoint configuration x event kind) cases a fault (Exception and '
              'BaseException) is raised at every line the agent executes while handling the event (a sample per case in '
              'quick), each run a trace [section, kind, outcome] validated by Trace_Guard; (b) every plugin callback '
              'raising either kind; (c) differential live runs of script-driven host programs with random tracepoints '
              '(results/exceptions equal with and without the agent, handler never raises, nothing left pending); '
              'every fault run is non-trivial, live runs with at least 3 firings')
    c.assumptions = ['expressions are side-effect free', "the outer guard's own try/return/except lines cannot fail",
                     'agent log output, object ids and timing are not compared']
    for ht in (True,):
        c.mc('Guard', dict(constants=dict(OuterUnguarded=False, HasTracepoints=ht), invariants=['NeverEscapes',
             'StaysInstalled'], deadlock=False), label='guarded handler', must_cover=['Run', 'Finish'])
    c.mc_expect_violation('Guard', dict(constants=dict(OuterUnguarded=True, HasTracepoints=True),
                                        invariants=['NeverEscapes'], deadlock=False), 'deviation OuterUnguarded',
                          what='NeverEscapes')
    traces, meta = fault_enumeration(c, rng, wd, 120 if quick else None)
    validate(c, traces, meta, 'injected-line')
    traces, meta = plugin_faults(c, wd)
    validate(c, traces, meta, 'plugin-callback')
    lock_probe_leg(c, wd)
    recursion_leg(c, wd)
    held_exception_leg(c, wd)
    # (always: a snapshot taken inside a method that uses zero-argument super() - its frame holds the __class__ cell -
    # and the method called again afterwards)
    cell = [([dict(id=1, kind='line', file='a', line='ktag', span='none'), dict(id=2, kind='line', file='a', line='kf_last', span='none')],
             [[('a.kf', [('line',), ('call', 'a.kf', [])])], [('a.kf', [])]]),
            # ... and inside a classmethod that uses it (no `self` in the frame)
            ([dict(id=1, kind='line', file='a', line='kctag', span='none')],
             [[('a.kf', [('line',), ('call', 'a.kf', [])])], [('a.kf', [])]])]
    traces, meta = c03.run_scenarios(c, rng, wd, 40 if quick else 6000, 0.5, 'differential', 'd', curated=cell)
    c03.validate(c, traces, meta, lambda m: m['firings'] >= 3)
    # the interpreter-wide state the application can observe is left alone by hits
    amb = dict(constants=dict(Facets={'prng', 'warnings', 'recursion'}, Features={'snapshot', 'log', 'condition'},
                              MaxSteps=4, DrawsFromGlobalPRNG=False), invariants=['AgentLeavesAmbientStateAlone'],
               deadlock=False)
    c.mc('Ambient', amb, label='3 facets, 3 features, 4 steps', must_cover=['HostStep', 'AgentStep'])
    c.mc_expect_violation('Ambient', dict(amb, constants=dict(amb['constants'], DrawsFromGlobalPRNG=True)),
                          'deviation DrawsFromGlobalPRNG', what='AgentLeavesAmbientStateAlone')
    ambient_leg(c, rng, wd, 4 if quick else 60)
    ambient_lifecycle_leg(c)
    ambient_lifecycle_leg(c, late=True)


if __name__ == '__main__':
    core.main('C01', run)

"""C11 - tracepoint configuration is interpreted as documented, one tracepoint at a time (spec/TriggerTable.tla)."""
import sys

from .. import core, tlc
from .. import rig as R
from ..tlaparse import to_json

INVS = ['SnapshotUnlessSwitchedOff', 'LogWhenGiven', 'OneMetricPerDefinition', 'SpanWhenRequested', 'PlacedByStage',
        'OnlyItself']

HOST = '''
def spot1(v):
    w = v + 1  # TP:L1
    return w


def spot2(v):
    w = v + 2  # TP:L2
    return w


def caller(v):
    z = v * 2
    return spot1(v) + spot2(v)
'''


def mc_cfg(n=1, grid='small', poison=False, invs=INVS):
    return dict(constants=dict(MaxTps=n, PoisonsResponse=poison, Grid=grid), invariants=invs, deadlock=False)


def tp_message(i, row, base, marks):
    from deepproto.proto.tracepoint.v1.tracepoint_pb2 import TracePointConfig, Metric, MetricType
    fn = 'spot1' if row['loc'] == 'L1' else 'spot2'
    args = {}
    if row['stage'] != 'absent':
        args['stage'] = 'no_such_stage' if row['stage'] == 'bogus' else row['stage']
    if row['method_name'] == 'present':
        args['method_name'] = fn
    if row['span'] != 'absent':
        args['span'] = 'weird' if row['span'] == 'bogus' else row['span']
    if row['snapshot'] != 'absent':
        args['snapshot'] = 'maybe' if row['snapshot'] == 'bogus' else row['snapshot']
    if row['log_msg'] == 'present':
        args['log_msg'] = 'T%d:{v}' % i
    if row['condition'] != 'absent':
        args['condition'] = {'blank': '  ', 'true': 'v > 0', 'false': 'v < 0'}[row['condition']]
    if row['fire_count'] != 'absent':
        args['fire_count'] = 'x' if row['fire_count'] == 'bad' else row['fire_count']
    if row['fire_period'] != 'absent':
        args['fire_period'] = 'soon' if row['fire_period'] == 'bad' else row['fire_period']
    if row['frame_type'] != 'absent':
        args['frame_type'] = 'weird_frame' if row['frame_type'] == 'bogus' else row['frame_type']
    watches = ['v + %d' % (100 * i)] if row['watches'] else []
    if row['metrics'] == 7:
        # a metric type this agent does not know (a newer service): legal on the wire, the enum is open
        metrics = [Metric(name='m%d_1' % i, type=7)]
    else:
        metrics = [Metric(name='m%d_%d' % (i, j + 1), type=MetricType.COUNTER) for j in range(row['metrics'])]
    return TracePointConfig(ID='tp%d' % i, path=base, line_number=marks[row['loc']], args=args, watches=watches,
                            metrics=metrics)


def run_response(wd, rows, exps, host):
    """Install the response through convert_response, hit both locations three times, return problems."""
    from deep.grpc import convert_response
    mod, path, marks = host
    base = path.rsplit('/', 1)[-1]
    plugin = R.role_plugin('rec', {'log', 'metric', 'span'})
    rg = R.Rig(plugins=[plugin])
    problems = []
    try:
        msgs = [tp_message(i + 1, r, base, marks) for i, r in enumerate(rows)]
        try:
            triggers = convert_response(msgs)
            rg.install_triggers(triggers)
        except BaseException as ex:
            return ['installing the response raised %r (nothing was installed)' % (ex,)]
        seen = {h: {} for h in (1, 2, 3)}
        for h, tick in ((1, 1), (2, 1), (3, 3)):
            rg.clock.set(tick)
            n_snap = len(rg.push.snapshots)
            n_call = len(plugin.calls)
            res = rg.run(mod.caller, 5, only_file=path)
            if res != ('ok', 13) or rg.escaped:
                problems.append('host changed / handler raised at hit %d: %r %r' % (h, res, rg.escaped))
                break
            for snap, _ in rg.push.snapshots[n_snap:]:
                seen[h].setdefault((snap.tracepoint.id, 'snapshot'), []).append(snap)
            for call in plugin.calls[n_call:]:
                if call[0] == 'log' and call[1].startswith('[deep] T'):
                    i = call[1][len('[deep] T'):].split(':')[0]
                    seen[h].setdefault(('tp' + i, 'log'), []).append(call)
                elif call[0] == 'metric':
                    i, j = call[2][1:].split('_')
                    seen[h].setdefault(('tp' + i, 'metric' + j), []).append(call)
                elif call[0] == 'open':
                    seen[h].setdefault((call[1].tp_id, 'span'), []).append(call)
        for i, (row, exp) in enumerate(zip(rows, exps), 1):
            tid = 'tp%d' % i
            for eff in ('snapshot', 'log', 'metric1', 'metric2', 'span'):
                for h in (1, 2, 3):
                    want = 1 if (exp['interp'] and eff in exp['effects'] and h in exp['fires']) else 0
                    got = len(seen[h].get((tid, eff), []))
                    if got != want:
                        problems.append('tracepoint %d %s: %s at hit %d happened %d time(s), expected %d'
                                        % (i, {k: v for k, v in row.items() if v not in ('absent', 0)}, eff, h, got, want))
            for h in (1, 2, 3):
                for snap in seen[h].get((tid, 'snapshot'), []):
                    ws = [w.expression for w in snap.watches if w.source == 'WATCH']
                    if ws != (['v + %d' % (100 * i)] if row['watches'] else []):
                        problems.append('tracepoint %d snapshot carries watches %s' % (i, ws))
                    top = [v.name for v in snap.frames[0].variables]
                    second = [v.name for v in snap.frames[1].variables] if len(snap.frames) > 1 else []
                    ft = row['frame_type']
                    if ft == 'no_frame' and top:
                        problems.append('tracepoint %d frame_type no_frame but top frame has %s' % (i, top))
                    if ft != 'no_frame' and 'v' not in top:
                        problems.append('tracepoint %d (%s) top frame variables %s' % (i, ft, top))
                    if ft == 'all_frame' and 'z' not in second:
                        problems.append('tracepoint %d all_frame but caller frame has %s' % (i, second))
                    if ft not in ('all_frame',) and second:
                        problems.append('tracepoint %d (%s) caller frame carries %s' % (i, ft, second))
                    if row['log_msg'] == 'present' and snap.log_msg != '[deep] T%d:5' % i:
                        problems.append('tracepoint %d snapshot log message %r' % (i, snap.log_msg))
        return problems[:6]
    finally:
        rg.close()
        import threading
        getattr(type(rg.handler._callbacks), '_ThreadLocal__store', {}).pop(threading.get_ident(), None)


def registered_in_code(c, wd, rows_list):
    """The same rows registered through Deep.register_tracepoint (twice, with a service update in between): every
    registration results in exactly its own actions - once per permitted hit."""
    from .. import configsync_drv as CS
    from deep.api.tracepoint.tracepoint_config import MetricDefinition
    host = R.write_host(wd, HOST)
    mod, path, marks = host
    base = path.rsplit('/', 1)[-1]
    shown = 0
    for row in rows_list:
        if row['metrics'] == 7:
            continue        # (an unknown metric type only exists on the wire; MetricDefinition takes the type by name)
        sysm = CS.SyncSystem()
        plugin = R.role_plugin('rec', {'log', 'metric', 'span'})
        sysm.cfg.plugins = [plugin]
        push = R.RecordingPush()
        sysm.deep.trigger_handler._push_service = push
        clock = R.VirtualClock().install()
        try:
            msgs = [tp_message(i, row, base, marks) for i in (1, 2)]
            problems = []
            try:
                for m in msgs:
                    metrics = [MetricDefinition(x.name, 'COUNTER') for x in m.metrics]
                    sysm.deep.register_tracepoint(m.path, m.line_number, dict(m.args), list(m.watches), metrics)
                    sysm.svc += 1
                    sysm.do('PollAnswer', ('update',))
                    while sysm.pool.queue:
                        sysm.pool.take('W1')
                        sysm.pool.apply('W1')
            except Exception as ex:      # refused visibly (which exception type is not part of the property)
                interp = LocKindOk(row)
                if interp:
                    problems.append('registration refused: %r' % (ex,))
                msgs = []
            if msgs:
                tf_rig = R.Rig.__new__(R.Rig)
                tf_rig.handler = sysm.deep.trigger_handler
                tf_rig.escaped, tf_rig.returned_none, tf_rig.events, tf_rig.on_event = [], 0, 0, None
                clock.set(1)
                res = R.Rig.run(tf_rig, mod.caller, 5, only_file=path)
                if res != ('ok', 13) or tf_rig.escaped:
                    problems.append('host changed / handler raised %r %r' % (res, tf_rig.escaped))
                fires = LocKindOk(row) and row['condition'] != 'false'
                want = 2 if fires else 0
                if row['snapshot'] != 'no_collect':
                    got = sum(1 for s_, _ in push.snapshots if s_.watches == [] or True)
                    got = len([1 for s_, _ in push.snapshots if s_.tracepoint.path == base])
                    if got != want:
                        problems.append('%d snapshots for two registrations of %s, expected %d' % (
                            got, {k: v for k, v in row.items() if v not in ('absent', 0)}, want))
                if row['span'] != 'absent':
                    got = len([1 for c_ in plugin.calls if c_[0] == 'open'])
                    if got != want:
                        problems.append('%d spans for two registrations, expected %d' % (got, want))
                if row['metrics']:
                    got = len([1 for c_ in plugin.calls if c_[0] == 'metric'])
                    if got != want * row['metrics']:
                        problems.append('%d metric calls for two registrations, expected %d' % (got, want * row['metrics']))
            c.traces_validated += 1
            c.note_case(key=('registered', str(row)), nontrivial=True)
            if problems:
                p_ = c.save_replay({'direction': 'S2C', 'module': 'TriggerTable', 'kind': 'registered-in-code',
                                    'row': row, 'problems': problems})
                if c.violation('registered in code %s: %s' % (row, problems[:2]), p_):
                    shown += 1
                    if shown >= 4:
                        break
        finally:
            clock.uninstall()
            import threading
            getattr(type(sysm.deep.trigger_handler._callbacks), '_ThreadLocal__store', {}).pop(threading.get_ident(), None)
    sys.modules.pop(mod.__name__, None)


def LocKindOk(row):
    """Interpretable(row) of the spec, restated for rows that are registered directly."""
    stage = row['stage']
    if stage == 'absent':
        stage = 'method_start' if (row['span'] == 'method' or row['method_name'] == 'present') else 'line_start'
    if stage in ('line_start', 'line_end', 'line_capture'):
        return True
    if stage in ('method_start', 'method_end', 'method_capture'):
        return row['method_name'] == 'present'
    return False


def replay(c, behs, wd, kind, limit_shown=8):
    host = R.write_host(wd, HOST)
    shown = 0
    seen = set()
    for beh in behs:
        final = beh[-1][2]
        rows = to_json(final['resp'])
        exps = [dict(kind=e['kind'], interp=e['interp'], effects=set(e['effects']), fires=set(e['fires']),
                     deferred=e['deferred']) for e in final['exp']]
        if not rows or str(rows) in seen:
            continue
        seen.add(str(rows))
        problems = run_response(wd, rows, exps, host)
        c.traces_validated += 1
        c.note_case(key=(kind, str(rows)),
                    nontrivial=len(rows) >= 2 or any(not e['interp'] for e in exps) or any(len(e['effects']) >= 2 for e in exps))
        if len(c.samples) < 3:
            c.sample({'direction': 'S2C', 'module': 'TriggerTable', 'response': rows,
                      'expected': [dict(e, effects=sorted(e['effects']), fires=sorted(e['fires'])) for e in exps]})
        if problems:
            path = c.save_replay({'direction': 'S2C', 'module': 'TriggerTable', 'response': rows, 'problems': problems})
            if c.violation('%s response %s: %s' % (kind, rows, problems[:2]), path):
                shown += 1
                if shown >= limit_shown:
                    break
    sys.modules.pop(host[0].__name__, None)


def run(c):
    quick = c.tier == 'quick'
    wd = tlc.scratch('c11_')
    c.rule = ('cases = rows of the TriggerTable.tla decision table (12 argument keys x value classes incl. absent and '
              'unknown values) and responses of 2-3 such tracepoints on two locations, sampled with tlc -simulate; each is '
              'sent through the real convert_response, installed, both locations hit three times under a virtual clock '
              '(same instant twice, then one default period later) and the effects per tracepoint and hit (snapshot with '
              'its own watches / frame_type, log line, one call per metric, span) compared with the row; non-trivial = '
              'several tracepoints, an uninterpretable one, or at least two effects')
    c.assumptions = ['a method stage without method_name is outside the documented table: it must be harmless',
                     'line_end / method_end positions are judged by location kind only']
    c.mc('TriggerTable', mc_cfg(n=1, grid='small'), label='single tracepoint, reduced grid', must_cover=['NextTp'])
    c.mc('TriggerTable', mc_cfg(n=3, grid='tiny'), label='responses of 3, tiny grid', must_cover=['NextTp'])
    if not quick:
        c.mc('TriggerTable', mc_cfg(n=1, grid='full'), label='single tracepoint, full grid', timeout=1800)
    c.mc_expect_violation('TriggerTable', mc_cfg(n=3, grid='tiny', poison=True, invs=['OnlyItself']),
                          'deviation PoisonsResponse', what='OnlyItself')
    sim = tlc.simulate('TriggerTable', mc_cfg(n=1, grid='full'), num=120 if quick else 6000, depth=14, seed=c.seed + 2)
    c.transitions += sim.generated
    singles = [b for b in sim.behaviours if len(b[-1][2]['resp']) == 1]
    replay(c, singles, wd, 'single')
    rows = []
    for b in singles:
        r_ = to_json(b[-1][2]['resp'])[0]
        if r_['fire_count'] in ('-1', '2') and r_['fire_period'] == '0' and r_ not in rows:
            rows.append(r_)
    registered_in_code(c, wd, rows[:12 if quick else 300])
    sim = tlc.simulate('TriggerTable', mc_cfg(n=3, grid='small'), num=60 if quick else 3000, depth=40, seed=c.seed + 4)
    c.transitions += sim.generated
    replay(c, [b for b in sim.behaviours if len(b[-1][2]['resp']) >= 2], wd, 'response')
    # the table is rebuilt with every response of the service: a row that is unchanged keeps, for EACH of its actions, the
    # tracepoint's own fire count (shared with C04)
    from . import c04
    c04.multi_action_leg(c, wd)


if __name__ == '__main__':
    core.main('C11', run)

"""C17 - metric tracepoints report each defined metric with the right type, labels, value (spec/MetricDispatch.tla)."""
import sys

from .. import core, tlc
from .. import rig as R
from ..tlaparse import to_json

INVS = ['OncePerDefPerProcessor', 'NoProcessorNoBudget', 'BudgetKeptForLater', 'BudgetUsedOnce', 'DefaultNamespace']

HOST = '''
RATE = 4
size = 1000          # module globals of the same names as the function's locals: expressions are evaluated IN THE FRAME,
text = '9.5'         # so the locals win


def measured(n):
    size = n * 2
    text = '3.5'
    return size  # TP:measured
'''

EXPR = {'zero': 'size - size', 'numeric': 'size + RATE', 'numeric_text': 'text', 'bool': 'size > 1', 'non_numeric': '"abc"',
        'raises': 'size // 0'}
EXPR_VALUE = {'zero': 0.0, 'numeric': 18.0, 'numeric_text': 3.5, 'bool': 1.0, 'one': 1}
LABEL_EXPR = {'expr_ok': 'size * 3', 'expr_raises': 'missing_name + 1'}


def mc_cfg(d=1, l=2, p=2, rich=False):
    return dict(constants=dict(MaxDefs=d, MaxLabels=l, MaxProcs=p, Rich=rich), invariants=INVS, deadlock=False)


def metric_names(defs):
    """A metric is identified by namespace + name + type, not by its name alone: when the definitions of the tracepoint
    differ in type or namespace they all carry the SAME name."""
    keys = [(d['type'], d['ns']) for d in defs]
    if len(defs) >= 2 and len(set(keys)) == len(keys):
        return ['latency'] * len(defs)
    return ['metric_%d' % i for i in range(1, len(defs) + 1)]


def metric_messages(defs):
    from deepproto.proto.tracepoint.v1.tracepoint_pb2 import Metric, MetricType, LabelExpression
    from deepproto.proto.common.v1.common_pb2 import AnyValue
    out = []
    names = metric_names(defs)
    for i, d in enumerate(defs, 1):
        labels = []
        for j, kd in enumerate(d['labels'], 1):
            key = 'k%d' % j
            if kd == 'static_str':
                labels.append(LabelExpression(key=key, static=AnyValue(string_value='s%d' % j)))
            elif kd == 'static_int':
                labels.append(LabelExpression(key=key, static=AnyValue(int_value=40 + j)))
            elif kd == 'static_bool':
                labels.append(LabelExpression(key=key, static=AnyValue(bool_value=True)))
            elif kd == 'static_zero':
                labels.append(LabelExpression(key=key, static=AnyValue(int_value=0)))
            elif kd == 'static_false':
                labels.append(LabelExpression(key=key, static=AnyValue(bool_value=False)))
            else:
                labels.append(LabelExpression(key=key, expression=LABEL_EXPR[kd]))
        kw = dict(name=names[i - 1], type=MetricType.Value(d['type']), labelExpressions=labels)
        if d['expr'] != 'absent':
            kw['expression'] = EXPR[d['expr']]
        if d['ns'] == 'given':
            kw['namespace'] = 'my_ns'
        if d['help'] == 'given':
            kw['help'] = 'help %d' % i
        if d['unit'] == 'given':
            kw['unit'] = 'unit%d' % i
        out.append(Metric(**kw))
    return out


def check_call(i, d, exp, call, want_name=None):
    """call = ('metric', op, name, labels, namespace, help, unit, value)."""
    _, op, name, labels, ns, hp, un, value = call
    bad = []
    if op != exp['op']:
        bad.append('operation %s, expected %s' % (op, exp['op']))
    if name != (want_name or 'metric_%d' % i):
        bad.append('name %r' % name)
    if ns != ('deep' if exp['ns'] == 'deep' else 'my_ns'):
        bad.append('namespace %r' % ns)
    if d['help'] == 'given' and hp != 'help %d' % i:
        bad.append('help %r' % hp)
    if d['help'] == 'absent' and hp not in (None, ''):
        bad.append('help %r for a definition without help' % hp)
    if d['unit'] == 'given' and un != 'unit%d' % i:
        bad.append('unit %r' % un)
    want = EXPR_VALUE[exp['value']]
    if not isinstance(value, (int, float)) or isinstance(value, bool) or float(value) != float(want):
        bad.append('value %r, expected %r' % (value, want))
    for j, lc in enumerate(exp['labels'], 1):
        key = 'k%d' % j
        if key not in labels:
            bad.append('label %s missing' % key)
            continue
        got = labels[key]
        if lc == 'static_str' and got != 's%d' % j:
            bad.append('label %s = %r' % (key, got))
        elif lc == 'static_int' and got not in (40 + j, str(40 + j)):
            bad.append('label %s = %r' % (key, got))
        elif lc == 'static_bool' and got not in (True, 'True'):
            bad.append('label %s = %r' % (key, got))
        elif lc == 'static_zero' and (got not in (0, '0') or got is False or got is None):
            bad.append('label %s = %r, the definition says 0' % (key, got))
        elif lc == 'static_false' and (got not in (False, 'False') or got is None or got == 0 and got is not False and got != 'False'):
            bad.append('label %s = %r, the definition says False' % (key, got))
        elif lc == 'expr_ok' and got != '42':
            bad.append('label %s = %r, expected the text of size * 3 = 42' % (key, got))
        elif lc == 'error_text' and (not isinstance(got, str) or got in ('', '42')):
            bad.append('label %s = %r for a failing expression' % (key, got))
    if len(labels) != len(exp['labels']):
        bad.append('labels %s' % sorted(labels))
    return bad


def run_case(host, defs, procs1, maxprocs, calls_spec):
    mod, path, marks = host
    base = path.rsplit('/', 1)[-1]
    # (half of the cases: processors that are falsy objects - an empty series registry with __len__ - are processors)
    plugins = [R.role_plugin('mp%d' % (p + 1), {'metric'}, falsy=(len(defs) % 2 == 0)) for p in range(maxprocs)]
    rg = R.Rig(plugins=plugins[:procs1])
    problems = []
    try:
        service_tps = [{'id': 'tpm', 'path': base, 'line': marks['measured'],
                        'args': {'snapshot': 'no_collect', 'fire_count': '1', 'fire_period': '0'},
                        'metrics': metric_messages(defs)}]
        # everything goes through the real TracepointConfigService: the service's tracepoint as a poll answer, and a
        # tracepoint registered in code on the SAME line (a separate trigger, in force alongside the service's): its own
        # metric is reported alongside - once, however many configuration updates have gone by
        from deep.api.tracepoint.tracepoint_config import MetricDefinition
        rg.install_via_service(service_tps)
        rg.tps.add_custom(base, marks['measured'], {'snapshot': 'no_collect', 'fire_count': '-1', 'fire_period': '0'}, [],
                          [MetricDefinition('extra', 'COUNTER')])
        # ... a second registration elsewhere, removed again: two more configuration updates without a poll in between
        other = rg.tps.add_custom('elsewhere.py', 3, {'snapshot': 'no_collect'}, [], [MetricDefinition('other', 'COUNTER')])
        rg.tps.remove_custom(other)
        for h, active in ((1, procs1), (2, maxprocs)):
            rg.cfg.plugins = plugins[:active]
            for p in plugins:
                del p.calls[:]
            res = rg.run(mod.measured, 7, only_file=path)
            if res != ('ok', 14) or rg.escaped:
                problems.append('host changed / handler raised at hit %d: %r %r' % (h, res, rg.escaped))
                break
            for pi in range(maxprocs):
                extras = [c_ for c_ in plugins[pi].calls if c_[0] == 'metric' and c_[2] == 'extra']
                if len(extras) != (1 if pi < active else 0):
                    problems.append('hit %d: processor %d received the metric of the code-registered tracepoint of the '
                                    'line %d time(s)' % (h, pi + 1, len(extras)))
                got = [c_ for c_ in plugins[pi].calls if c_[0] == 'metric' and c_[2] != 'extra']
                exp = list(calls_spec[h - 1][pi]) if pi < len(calls_spec[h - 1]) else []
                if len(got) != len(exp):
                    problems.append('hit %d: processor %d received %d call(s) %s, expected %d'
                                    % (h, pi + 1, len(got), [g[1:3] for g in got], len(exp)))
                    continue
                for call, e in zip(got, exp):
                    i = e['def']
                    bad = check_call(i, defs[i - 1], e, call, metric_names(defs)[i - 1])
                    if bad:
                        problems.append('hit %d processor %d definition %d %s: %s' % (h, pi + 1, i, defs[i - 1], bad))
        return problems[:6]
    finally:
        rg.close()


def loaded_processors_leg(c, host):
    """EVERY active metric processor - also when the processors come through the real plugin loader: two third-party
    modules that both call their class `MetricsPlugin` (the plugin name defaults to the class name), a processor that is
    listed twice, one that is switched off by its PLUGIN_<NAME> setting."""
    import types
    import deep.api.plugin as plugin_mod
    from deep.api.plugin import load_plugins
    from deep.api.plugin.metric import MetricProcessor
    from deepproto.proto.tracepoint.v1.tracepoint_pb2 import Metric, MetricType
    mod, path, marks = host
    received = {}
    mods = []

    def make_module(mname, clsname, order):
        m = types.ModuleType(mname)

        class P(MetricProcessor):
            def __init__(self, config=None):
                super().__init__(config=config)
                received.setdefault(mname, [])

            def order(self):
                return order

            def counter(self, name, labels, namespace, help_string, unit, value):
                received[mname].append(('counter', name, value))

            def gauge(self, name, labels, namespace, help_string, unit, value):
                received[mname].append(('gauge', name, value))

            def histogram(self, name, labels, namespace, help_string, unit, value):
                received[mname].append(('histogram', name, value))

            def summary(self, name, labels, namespace, help_string, unit, value):
                received[mname].append(('summary', name, value))

            def clear(self):
                pass
        P.__name__ = clsname
        P.__qualname__ = clsname
        setattr(m, clsname, P)
        sys.modules[mname] = m
        mods.append(mname)
        return '%s.%s' % (mname, clsname)
    saved = plugin_mod.DEEP_PLUGINS
    plugin_mod.DEEP_PLUGINS = []
    try:
        for label, spec_, custom, want in (
                ('two modules, one class name', [('vacme_statsd', 'MetricsPlugin', 1), ('vacme_graphite', 'MetricsPlugin', 2)], {},
                 {'vacme_statsd': 1, 'vacme_graphite': 1}),
                ('different names', [('vacme_a', 'StatsdMetrics', 1), ('vacme_b', 'GraphiteMetrics', 2)], {},
                 {'vacme_a': 1, 'vacme_b': 1}),
                ('one of two switched off', [('vacme_on', 'OnMetrics', 1), ('vacme_off', 'OffMetrics', 2)],
                 {'PLUGIN_OFFMETRICS': 'False'}, {'vacme_on': 1, 'vacme_off': 0})):
            received.clear()
            names = [make_module(*sp) for sp in spec_]
            rg = R.Rig(custom=custom)
            try:
                rg.cfg.plugins = load_plugins(rg.cfg, names)
                rg.install([{'id': 'tp-loaded', 'path': path.rsplit('/', 1)[-1], 'line': marks['measured'], 'args': {},
                             'metrics': [Metric(name='hits', type=MetricType.COUNTER),
                                         Metric(name='size', type=MetricType.GAUGE, expression='size')]}])
                res = rg.run(mod.measured, 4, only_file=path)
                got = {k: len(v) // 2 if len(v) % 2 == 0 else -len(v) for k, v in received.items()}
                bad = None
                if res != ('ok', 8) or rg.escaped:
                    bad = 'host changed / handler raised: %r %r' % (res, rg.escaped)
                elif got != want:
                    bad = 'each processor received both metrics %s time(s), expected %s (received: %s)' % (got, want, received)
            finally:
                rg.close()
            c.traces_validated += 1
            c.note_case(key=('loaded-processors', label), nontrivial=True)
            if bad:
                path_ = c.save_replay({'kind': 'loaded-processors', 'case': label, 'plugins': names, 'what': bad})
                c.violation('metric processors loaded by load_plugins (%s): %s' % (label, bad), path_)
    finally:
        plugin_mod.DEEP_PLUGINS = saved
        for m in mods:
            sys.modules.pop(m, None)


def run(c):
    quick = c.tier == 'quick'
    wd = tlc.scratch('c17_')
    c.rule = ('cases = behaviours of MetricDispatch.tla (1-2 metric definitions x type x optional namespace/help/unit x '
              'expression class x 0-2 labels of 5 kinds, 0-2 processors active at the first hit) sampled with tlc '
              '-simulate; protobuf Metric definitions go through convert_response, the tracepoint (fire_count=1) is hit '
              'twice and the calls each recording MetricProcessor received are compared with the spec state (operation, '
              'name, namespace, help, unit, labels, value; budget untouched when no processor was active); non-trivial = '
              'a non-plain expression or label, or several definitions/processors')
    c.assumptions = ['what Prometheus/OTel do with a call is out of scope (recording processors are used)']
    c.mc('MetricDispatch', mc_cfg(d=1, l=2, p=2, rich=True), label='1 definition, full grid',
         must_cover=['AddDef', 'AddLabel', 'Hit2'])
    c.mc('MetricDispatch', mc_cfg(d=2, l=1, p=2, rich=False), label='2 definitions, reduced grid')
    if not quick:
        c.mc('MetricDispatch', mc_cfg(d=2, l=1, p=2, rich=True), label='2 definitions, full grid', timeout=3000)
    sim = tlc.simulate('MetricDispatch', mc_cfg(d=2, l=2, p=2, rich=True), num=150 if quick else 40000, depth=10,
                       seed=c.seed + 6)
    c.transitions += sim.generated
    host = R.write_host(wd, HOST)
    shown = 0
    seen = set()
    for beh in sim.behaviours:
        final = beh[-1][2]
        if final['phase'] != 'end':
            continue
        defs = to_json(final['defs'])
        key = (str(defs), final['procs1'])
        if key in seen:
            continue
        seen.add(key)
        calls_spec = to_json(final['calls'])
        problems = run_case(host, defs, final['procs1'], 2, calls_spec)
        c.traces_validated += 1
        c.note_case(key=('metric', key), nontrivial=len(defs) >= 2 or any(
            d['expr'] not in ('absent', 'numeric') or d['labels'] for d in defs))
        if len(c.samples) < 3:
            c.sample({'direction': 'S2C', 'module': 'MetricDispatch', 'defs': defs, 'procs_at_first_hit': final['procs1']})
        if problems:
            path = c.save_replay({'direction': 'S2C', 'module': 'MetricDispatch', 'defs': defs,
                                  'procs1': final['procs1'], 'problems': problems})
            if c.violation('metric definitions %s, %d processor(s) at the first hit: %s'
                           % (defs, final['procs1'], problems[:2]), path):
                shown += 1
                if shown >= 8:
                    break
    loaded_processors_leg(c, host)
    sys.modules.pop(host[0].__name__, None)


if __name__ == '__main__':
    core.main('C17', run)

"""C20 - plugins are optional: ordered, skipped when inactive, isolated when faulty (spec/Plugins.tla)."""
import sys
import threading
import time
import types

from .. import core, tlc, fakes
from .. import rig as R
from ..tlaparse import to_json

INVS = ['LoadedSet', 'LoadedOrder', 'NotLoadedNeverCalled', 'Isolation']
FAULT_NAME = {'close_span': 'close'}
CALL_NAME = {'open': 'create_span', 'create_span_fail': 'create_span', 'close': 'close_span'}

HOST = '''
def beat(n):
    m = n + 1  # TP:beat
    k = m + 1
    return k
'''


def pname(i):
    """Plugin names are prefixes of one another (PX, PXX, PXXX): the switch PLUGIN_<NAME> names ONE plugin."""
    return 'P' + 'X' * i


def pindex(name):
    return len(name) - 1


def mc_cfg(ab=False, n=2, rich=False, invs=INVS, lives=1):
    return dict(constants=dict(MaxPlugins=n, AbortOnFirstFailure=ab, Rich=rich, MaxLives=lives), invariants=invs,
                deadlock=False)


def run_case(wd, plugins, span_first=False, later_lives=()):
    """plugins: list of model records. Returns dict(loaded=[idx..], called={idx: sorted callbacks}, ...).
    later_lives: further lists of model records (the same plugins, some switched on/off by configuration): the agent
    is shut down and a new Deep is started on the SAME ConfigService for each; out['lives'] has one result per life."""
    import deep.api.plugin as plugin_mod
    from deep.api.plugin import Plugin
    from deep.api.deep import Deep
    from deep.config import ConfigService
    from deep.config.tracepoint_config import TracepointConfigService
    from deepproto.proto.poll.v1.poll_pb2 import PollResponse, ResponseType
    from deepproto.proto.tracepoint.v1.tracepoint_pb2 import TracePointConfig, Metric, MetricType
    out = {}

    def body():
        saved_builtin = plugin_mod.DEEP_PLUGINS
        saved_thr = threading.gettrace()
        plugin_mod.DEEP_PLUGINS = []
        mod, path, marks = R.write_host(wd, HOST)
        m = types.ModuleType('vplugc_%d' % id(out))
        sys.modules[m.__name__] = m
        insts = {}
        names = []
        custom = {'SERVICE_URL': 'fake:1', 'SERVICE_SECURE': 'False', 'POLL_TIMER': 3600, 'APP_ROOT': wd}
        for i, rec in enumerate(plugins, 1):
            if rec['load'] == 'unimportable':
                names.append('no_such_module_%d.P%d' % (id(out), i))
                continue
            faults = {FAULT_NAME.get(f, f) for f in rec['faults']}
            # every other case: the plugin objects are falsy, and a resource fault is a wrong-typed return instead of a raise
            p = R.role_plugin(pname(i), set(rec['roles']), faults=faults, order_=rec['order'] - 1,
                              falsy=span_first, resource_wrong_type=(i % 2 == 0))
            p.is_active = types.MethodType(Plugin.is_active, p)       # the real activation rule
            insts[i] = p

            def factory(config=None, p=p, rec=rec):
                if rec['load'] == 'ctor_fails':
                    raise RuntimeError('cannot construct')
                p.config = config
                return p
            setattr(m, 'P%d' % i, factory)
            names.append('%s.P%d' % (m.__name__, i))
            # the switch PLUGIN_<NAME> in its forms: text (as the environment gives it) or a bool (as code gives it);
            # a plugin that is loaded has no switch at all, or one that says yes
            if rec['load'] == 'inactive':
                custom['PLUGIN_%s' % pname(i)] = 'false' if i % 2 else False
            elif rec['load'] == 'ok' and i % 3:
                custom['PLUGIN_%s' % pname(i)] = 'True' if i % 3 == 1 else True
        # the first half plays the built-in plugin list, the rest is configured by the user: one combined order
        nb = len(names) // 2
        plugin_mod.DEEP_PLUGINS = names[:nb]
        custom['PLUGINS'] = names[nb:]
        tps = TracepointConfigService()
        cfg = ConfigService(custom, tracepoints=tps)
        base = path.rsplit('/', 1)[-1]
        inf = {'fire_count': '-1', 'fire_period': '0'}
        lives_out = []
        deeps = []
        try:
            for life_no, life_plugins in enumerate([plugins] + list(later_lives)):
                if life_no > 0:
                    # the application switches plugins on/off by configuration and starts the agent again
                    for i, rec in enumerate(life_plugins, 1):
                        if rec['load'] == 'inactive':
                            cfg._ConfigService__custom['PLUGIN_%s' % pname(i)] = False if i % 2 else 'false'
                        elif rec['load'] == 'ok':
                            cfg._ConfigService__custom.pop('PLUGIN_%s' % pname(i), None)
                            if i % 2:
                                cfg._ConfigService__custom['PLUGIN_%s' % pname(i)] = True
                    for p in insts.values():
                        del p.calls[:]
                        del p.spans[:]
                deep = Deep(cfg)
                deeps.append(deep)
                chan = fakes.FakeChannel()
                deep.grpc.start = lambda deep=deep, chan=chan: setattr(deep.grpc, 'channel', chan)
                deep.grpc._metadata = []
                sent = []

                def poll(request):
                    tpa = TracePointConfig(ID='A', path=base, line_number=marks['beat'], args=dict(inf, log_msg='beat {n}'))
                    tpb = TracePointConfig(ID='B', path=base, line_number=marks['beat'],
                                           args=dict(inf, snapshot='no_collect'),
                                           metrics=[Metric(name='m', type=MetricType.COUNTER)])
                    tpc = TracePointConfig(ID='C', path=base, line_number=marks['beat'],
                                           args=dict(inf, snapshot='no_collect', span='line'))
                    # the order of the tracepoints of the line is the order their results are processed in: the span
                    # (whose completion is deferred to the end of the line) before or after the log
                    return PollResponse(ts_nanos=1, current_hash='h',
                                        response=[tpc, tpa, tpb] if span_first else [tpa, tpb, tpc],
                                        response_type=ResponseType.UPDATE)
                chan.script('/poll', poll)
                chan.script('/send', lambda req, sent=sent: sent.append(req) or None)
                problems = []
                try:
                    deep.start()
                except BaseException as ex:
                    problems.append('Deep.start raised %r' % (ex,))
                if not deep.started:
                    problems.append('the agent did not start')
                deep.task_handler.flush()            # the initial config update is applied by a pool task
                deep.task_handler._open = True
                loaded = [pindex(p.name) for p in cfg.plugins]
                try:
                    res = mod.beat(1)
                except BaseException as ex:
                    res = repr(ex)
                if res != 3:
                    problems.append('host function returned %r' % (res,))
                if sys.gettrace() is None or getattr(sys.gettrace(), '__self__', None) is not deep.trigger_handler:
                    problems.append('the agent is no longer the trace function of the thread')
                try:
                    deep.shutdown()
                except BaseException as ex:
                    problems.append('Deep.shutdown raised %r' % (ex,))
                if deep.started:
                    problems.append('the agent is still started after shutdown')
                called = {}
                for i, p in insts.items():
                    called[i] = sorted(CALL_NAME.get(c_[0], c_[0]) for c_ in p.calls)
                decos = set()
                for req in sent:
                    for kv in req.attributes:
                        if kv.key.startswith('dec.P'):
                            decos.add(pindex(kv.key[4:]))
                lives_out.append(dict(loaded=loaded, called=called, sent=len(sent), decorations=sorted(decos),
                                      problems=problems,
                                      resource_keys=sorted(k for k in (cfg.resource.attributes.keys()
                                                                      if cfg.resource is not None else [])
                                                           if k.startswith('plugin.'))))
            out.update(lives_out[0])
            out['lives'] = lives_out
        finally:
            for deep in deeps:
                try:
                    deep.task_handler._pool.shutdown(wait=False)
                except BaseException:
                    pass
                store = getattr(type(deep.trigger_handler._callbacks), '_ThreadLocal__store', {})
                store.pop(threading.get_ident(), None)
            sys.settrace(None)
            threading.settrace(saved_thr)
            plugin_mod.DEEP_PLUGINS = saved_builtin
            sys.modules.pop(m.__name__, None)
            sys.modules.pop(mod.__name__, None)
    th = threading.Thread(target=body)
    th.start()
    th.join(90)
    if 'loaded' not in out:
        raise tlc.MachineryError('plugin case did not finish: %s' % out.get('problems'))
    return out


def compare(final, real):
    plugins = to_json(final['plugins'])
    problems = list(real['problems'])
    exp_loaded = list(final['loaded'])
    # a plugin whose own order() fails: neither its place nor its callbacks are compared (it may be sorted by the default
    # order or be left out) - everything about the OTHER plugins is
    odd = {i for i in range(1, len(plugins) + 1) if 'order' in plugins[i - 1]['faults']}
    if [i for i in real['loaded'] if i not in odd] != [i for i in exp_loaded if i not in odd]:
        problems.append('loaded plugins %s, spec %s' % (real['loaded'], exp_loaded))
    for i in range(1, len(plugins) + 1):
        if i in odd:
            continue
        exp = sorted(final['called'][i - 1])
        got = real['called'].get(i, [])
        if got != exp:
            problems.append('plugin %d (%s) callbacks %s, spec %s' % (i, plugins[i - 1], got, exp))
    loadable = set(exp_loaded) - odd
    exp_dec = sorted(i for i in loadable if 'decorate' in plugins[i - 1]['roles']
                     and 'decorate' not in plugins[i - 1]['faults'])
    if real['sent'] != 1:
        problems.append('%d snapshots delivered, expected 1' % real['sent'])
    elif [d for d in real['decorations'] if d not in odd] != exp_dec:
        problems.append('snapshot decorations from %s, expected %s' % (real['decorations'], exp_dec))
    exp_res = sorted('plugin.%s' % pname(i) for i in loadable if 'resource' in plugins[i - 1]['roles']
                     and 'resource' not in plugins[i - 1]['faults'])
    odd_keys = {'plugin.%s' % pname(i) for i in odd}
    if [k for k in real['resource_keys'] if k not in odd_keys] != exp_res:
        problems.append('resource contributions %s, expected %s' % (real['resource_keys'], exp_res))
    return problems


CURATED = [
    # a failing tracepoint logger on a snapshot+log tracepoint (results queued behind the log result)
    [dict(load='ok', order=1, roles=['log'], faults=['log']), dict(load='ok', order=1, roles=['decorate', 'span'], faults=[])],
    # a user plugin ordered before the built-in ones
    [dict(load='ok', order=1, roles=['decorate', 'log'], faults=[]), dict(load='ok', order=0, roles=['decorate', 'log'], faults=[])],
    [dict(load='ok', order=2, roles=['metric', 'span'], faults=['metric']), dict(load='ok', order=1, roles=['metric', 'span'], faults=[]),
     dict(load='ok', order=0, roles=['metric', 'span'], faults=['close_span'])],
    [dict(load='ok', order=1, roles=['resource', 'decorate', 'log'], faults=['resource', 'decorate']),
     dict(load='inactive', order=0, roles=['decorate'], faults=[]), dict(load='ok', order=1, roles=['decorate', 'span'], faults=['create_span'])],
    # a resource provider that fails (the second one, by returning something that is no Resource) between two healthy ones
    [dict(load='ok', order=0, roles=['resource'], faults=[]), dict(load='ok', order=1, roles=['resource'], faults=['resource']),
     dict(load='ok', order=2, roles=['resource', 'decorate', 'log'], faults=[])],
    # a plugin whose own order() fails, between two healthy ones
    [dict(load='ok', order=2, roles=['decorate', 'log'], faults=[]), dict(load='ok', order=1, roles=['decorate', 'span'], faults=['order']),
     dict(load='ok', order=0, roles=['resource', 'decorate', 'log'], faults=[])],
    [dict(load='ctor_fails', order=0, roles=['log'], faults=[]), dict(load='unimportable', order=0, roles=['log'], faults=[]),
     dict(load='ok', order=2, roles=['log', 'metric'], faults=['shutdown'])],
]


def curated_finals():
    """Terminal states of the spec for the curated configurations (one TLC run, the configurations pinned)."""
    def rec(p):
        return '[load |-> %s, order |-> %d, roles |-> %s, faults |-> %s]' % (
            tlc.tla_lit(p['load']), p['order'], tlc.tla_lit(set(p['roles'])), tlc.tla_lit(set(p['faults'])))
    sets = ', '.join('<<' + ', '.join(rec(p) for p in cfg) + '>>' for cfg in CURATED)
    text = """---- MODULE MC_PluginsPinned ----
EXTENDS Plugins
PinnedSet == {%s}
PinnedInit == /\\ plugins \\in PinnedSet /\\ phase = 0 /\\ loaded = <<>> /\\ spansOpen = {} /\\ aborted = {} /\\ life = 1
              /\\ called = [i \\in 1..Len(plugins) |-> <<>>]
PinnedNext == Load \\/ Activity \\/ (phase = Len(Callbacks) + 1 /\\ UNCHANGED vars)
====
""" % sets
    wd = tlc.scratch('c20pin_')
    path = wd + '/MC_PluginsPinned.tla'
    with open(path, 'w') as f:
        f.write(text)
    r = tlc.run('MC_PluginsPinned', cfg=dict(init='PinnedInit', next_='PinnedNext',
                                             constants=dict(MaxPlugins=3, AbortOnFirstFailure=False, Rich=True, MaxLives=1),
                                             invariants=INVS, deadlock=False),
                dump=True, coverage=False, extra_modules=[path])
    if not r.ok:
        raise tlc.MachineryError('pinned plugin configurations violate %s' % r.violation)
    return r, [st for st in r.graph.states.values() if st['phase'] == 8]


def run(c):
    quick = c.tier == 'quick'
    wd = tlc.scratch('c20_')
    c.rule = ('cases = behaviours of Plugins.tla (1-3 configured plugins x load kind x order x role set x fault set) '
              'sampled with tlc -simulate; each is materialised as generated plugin classes loaded by the real '
              'load_plugins and driven through a real Deep start / trigger (snapshot+log, metric, span on one line) / '
              'span end / shutdown with a fake channel; loaded order, every plugin\'s callback multiset, snapshot '
              'delivery + decorations and resource contributions are compared with the spec state; non-trivial = a '
              'faulty or skipped plugin is present')
    c.assumptions = ['plugin callbacks raise Exception subclasses', 'the built-in plugin list is emptied for the run']
    c.mc('Plugins', mc_cfg(n=2, rich=False), label='2 plugins, reduced grid', must_cover=['Configure', 'Load', 'Activity'])
    if not quick:
        c.mc('Plugins', mc_cfg(n=2, rich=True), label='2 plugins, full grid', timeout=1800)
        c.mc('Plugins', mc_cfg(n=3, rich=False), label='3 plugins, reduced grid', timeout=1800)
    c.mc_expect_violation('Plugins', mc_cfg(ab=True, n=2, invs=['Isolation']), 'deviation AbortOnFirstFailure',
                          what='Isolation')
    sim = tlc.simulate('Plugins', mc_cfg(n=3, rich=True), num=60 if quick else 1500, depth=14, seed=c.seed + 11)
    c.transitions += sim.generated
    shown = 0
    r_pin, pinned = curated_finals()
    c.states += r_pin.distinct
    c.transitions += r_pin.generated
    finals = pinned + [beh[-1][2] for beh in sim.behaviours]
    for idx, final in enumerate([f for f in pinned for _ in (0, 1)] + finals[len(pinned):]):
        if final['phase'] != 8:
            continue
        plugins = to_json(final['plugins'])
        real = run_case(wd, plugins, span_first=(idx % 2 == 1))
        problems = compare(final, real)
        c.traces_validated += 1
        c.note_case(key=('plugins', str(plugins), idx % 2),
                    nontrivial=any(p['faults'] or p['load'] != 'ok' for p in plugins))
        if len(c.samples) < 3:
            c.sample({'direction': 'S2C', 'module': 'Plugins', 'plugins': plugins,
                      'called': to_json(final['called']), 'loaded': to_json(final['loaded'])})
        if problems:
            path = c.save_replay({'direction': 'S2C', 'module': 'Plugins', 'plugins': plugins, 'problems': problems})
            if c.violation('plugins %s: %s' % (plugins, problems[:3]), path):
                shown += 1
                if shown >= 8:
                    break


def lives_leg(c, wd, n):
    """Two lives of the agent on ONE configuration object, plugins switched on/off in between (NextLife): each life is
    that of its own switches. The end-of-life states of the behaviour are the expectations."""
    sim = tlc.simulate('Plugins', mc_cfg(n=3, rich=True, lives=2), num=n * 6, depth=26, seed=c.seed + 13)
    c.transitions += sim.generated
    done = 0
    shown = 0
    for beh in sim.behaviours:
        ends = [st for (a, args, st) in beh if st['phase'] == 8]
        # one end-of-life state per life (the terminal state repeats)
        by_life = {}
        for st in ends:
            by_life[st['life']] = st
        if sorted(by_life) != [1, 2]:
            continue
        p1, p2 = to_json(by_life[1]['plugins']), to_json(by_life[2]['plugins'])
        real = run_case(wd, p1, span_first=(done % 2 == 1), later_lives=[p2])
        done += 1
        problems = []
        for life_no, st in ((1, by_life[1]), (2, by_life[2])):
            problems += ['life %d: %s' % (life_no, x) for x in compare(st, real['lives'][life_no - 1])]
        c.traces_validated += 1
        c.note_case(key=('two-lives', str(p1), str(p2)), nontrivial=True)
        if problems:
            path = c.save_replay({'direction': 'S2C', 'module': 'Plugins', 'kind': 'two-lives', 'life1': p1, 'life2': p2,
                                  'problems': problems})
            if c.violation('two lives on one configuration object, plugins %s then %s: %s' % (p1, p2, problems[:3]), path):
                shown += 1
                if shown >= 6:
                    return
        if done >= n:
            return


def run_all(c):
    run(c)
    wd = tlc.scratch('c20l_')
    c.mc('Plugins', mc_cfg(n=2, rich=False, lives=2), label='2 plugins, reduced grid, 2 lives', must_cover=['NextLife'])
    lives_leg(c, wd, 10 if c.tier == 'quick' else 300)


if __name__ == '__main__':
    core.main('C20', run_all)

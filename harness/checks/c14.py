"""C14 - lifecycle: hooks installed once, restored exactly; shutdown always completes (spec/Lifecycle.tla)."""
import random
import sys
import threading
import time

from .. import core, tlc
from .. import lifecycle_drv as D
from ..tlaparse import to_json

INVS = ['InstalledWhenStarted', 'NoTraceUntouched', 'RestoredExactly', 'ShutdownCompletes', 'QuietAfter']


def mc_cfg(ur=False, ab=False, ka=False, so=False, ad=False, rn=False, ch=False, lh=False, oh=False, invs=INVS, calls=4,
           props=('StoppedAfterShutdown', 'CallerHookUntouched')):
    return dict(constants=dict(NPlugins=2, MaxCalls=calls, UnconditionalRestore=ur, AbortOnFailure=ab, KeepsActing=ka,
                               SaveOnce=so, AcceptsDuringDrain=ad, RestoreNeedsOwnThread=rn, ClobbersCallerHook=ch,
                               LeaksHooksOnFailedStart=lh, SavesOwnHook=oh),
                invariants=invs, properties=list(props), deadlock=False)


def api_calls(walk):
    """Collapse a spec walk into API calls with the spec state expected after each (at idle points)."""
    calls = []
    pending = None
    flags = (False, False)
    for (a, args, st) in walk[1:]:
        if a == 'Start':
            calls.append(('start', None, st))
        elif a == 'StartFails':
            calls.append(('start_fails', None, st))
        elif a == 'ShutdownBegin':
            if st['sdpc'] == 0:
                calls.append(('shutdown', (set(), (False, False)), st))
            else:
                pending = set(int(x) for x in to_json(st['failing']))
                flags = (bool(st['latePoll']), bool(st['otherThread']))
        elif a == 'ShutdownMark' or (a == 'ShutdownStep' and st['sdpc'] == 0):
            calls.append(('shutdown', (pending or set(), flags), st))
            pending = None
        elif a == 'HostEventAfter':
            calls.append(('host_event', None, st))
        elif a == 'AppSetsHooks':
            calls.append(('app_sets_hooks', None, st))
        elif a == 'AppChangesHooks':
            calls.append(('app_changes_hooks', (str(st['appSys']), str(st['appThr'])), st))
    return calls


def replay_walk(c, walk, wd, exc):
    init = walk[0][2]
    calls = api_calls(walk)
    out = {}

    def body():
        sysm = D.LifeSystem(wd, bool(init['noTrace']), init['preSys'], init['preThr'], plugin_exc=exc)
        problems = []
        steps = []
        try:
            extra_thread = None
            go = threading.Event()
            acted = {}
            for name, failing, st in calls:
                late_poll = other_thread = False
                if name == 'shutdown':
                    failing, (late_poll, other_thread) = failing
                steps.append([name, (sorted(failing) if failing else None) if name != 'shutdown' else
                              [sorted(failing), 'late-poll' if late_poll else '', 'other-thread' if other_thread else '']])
                if name == 'start':
                    was = sysm.deep.started
                    sysm.start()
                    if not was and extra_thread is None:
                        # a thread started while the agent is installed inherits its trace function
                        def worker():
                            go.wait(20)
                            before = sum(len(p.calls) for p in sysm.plugins), len(sysm.sent)
                            acted['res'] = sysm.mod.beat(1)
                            t0 = time.time()     # give a (wrong) background delivery time to show up, also on a loaded machine
                            while time.time() - t0 < 0.3:
                                acted['delta'] = (sum(len(p.calls) for p in sysm.plugins) - before[0],
                                                  len(sysm.sent) - before[1])
                                if acted['delta'] != (0, 0):
                                    break
                                time.sleep(0.01)
                        extra_thread = threading.Thread(target=worker)
                        extra_thread.start()
                elif name == 'start_fails':
                    if not sysm.start_fails():
                        problems.append('start() with an unusable poll interval did not fail')
                elif name == 'app_sets_hooks':
                    sysm.app_sets_hooks()
                elif name == 'app_changes_hooks':
                    sysm.app_changes_hooks(*failing)
                    steps[-1][1] = list(failing)
                elif name == 'shutdown':
                    err = sysm.shutdown(failing, late_poll=late_poll, other_thread=other_thread)
                    if err:
                        problems.append('shutdown raised %s' % err)
                elif name == 'host_event':
                    if extra_thread is not None and not go.is_set():
                        go.set()
                        extra_thread.join(20)
                        if acted.get('res') != 2:
                            problems.append('host function result %r' % (acted.get('res'),))
                        if acted.get('delta') != (0, 0):
                            problems.append('after shutdown a thread still running the agent acted: %s plugin calls, '
                                            '%s sends' % acted['delta'])
                time.sleep(0.01)
                if name == 'start' and sysm.deep.started:
                    # every life of the agent gets the configuration the service has for it (installed by a
                    # background task: wait for the task handler to be idle)
                    t0 = time.time()
                    while sysm.deep.task_handler._pending and time.time() - t0 < 5:
                        time.sleep(0.005)
                    ids = sorted({a.id for t in sysm.deep.trigger_handler._tp_config for a in t.actions})
                    if ids != ['life']:
                        problems.append('after %s the trigger handler acts on %s, the service configuration of this life '
                                        'holds the tracepoint "life"' % (steps[-1], ids))
                real = sysm.project()
                exp = {'sysTrace': st['sysTrace'], 'thrTrace': st['thrTrace'], 'started': st['started'],
                       'pollAlive': st['pollAlive']}
                if st['otherThread']:
                    del exp['sysTrace']      # (the starting thread's own hook cannot be set from another thread)
                exp['otherHook'] = st['otherHook']
                got = {k: real[k] for k in exp}
                if got != exp:
                    problems.append('after %s: implementation %s, spec %s' % (steps[-1], got, exp))
                if name == 'shutdown' and st['everStarted'] and not st['started'] and failing is not None \
                        and len(st['sdDone']) > 0:
                    if real['pending'] != 0:
                        problems.append('after shutdown %d deliveries still pending' % real['pending'])
                    if real['pluginDown'] != sorted(to_json(st['pluginDown'])):
                        problems.append('plugins shut down: %s, spec %s' % (real['pluginDown'],
                                                                             sorted(to_json(st['pluginDown']))))
                if problems:
                    break
            go.set()
            if extra_thread is not None:
                extra_thread.join(20)
        except BaseException as ex:
            import traceback
            problems.append('harness/implementation exception: %r %s' % (ex, traceback.format_exc()[-400:]))
        finally:
            sysm.close()
        out['problems'] = problems
        out['steps'] = steps
    th = threading.Thread(target=body)
    th.start()
    th.join(120)
    if 'problems' not in out:
        raise tlc.MachineryError('lifecycle behaviour did not finish')
    return out


def run(c):
    quick = c.tier == 'quick'
    rng = random.Random(c.seed)
    wd = tlc.scratch('c14_')
    c.rule = ('cases = walks through the Lifecycle.tla state graph (start/shutdown call sequences x NO_TRACE x '
              'pre-existing sys/threading hooks x any subset of {pending deliveries failing, service failing, plugin i '
              'shutdown raising}) replayed on a real Deep object with a fake channel and recording plugins, one fresh '
              'thread per walk; hooks, started flag, poll timer liveness, pending deliveries and plugin shutdown calls '
              'compared after every call; non-trivial = a shutdown with at least one failing step or a repeated call')
    c.assumptions = ['the built-in plugin list is emptied for the run (OTel/Prometheus globals untouched)',
                     'GRPCService.start is replaced by a fake channel']
    r = c.mc('Lifecycle', mc_cfg(), label='2 plugins, 4 calls', dump=True,
             must_cover=['Start', 'ShutdownBegin', 'ShutdownStep', 'ShutdownMark'])
    for kw, inv in ((dict(ur=True), 'NoTraceUntouched'), (dict(ka=True), 'QuietAfter'), (dict(so=True), 'RestoredExactly'),
                    (dict(ad=True), 'QuietAfter'), (dict(rn=True), 'RestoredExactly'), (dict(lh=True), 'RestoredExactly'),
                    (dict(oh=True), 'RestoredExactly')):
        c.mc_expect_violation('Lifecycle', mc_cfg(invs=[inv], props=(), **kw), 'deviation %s' % list(kw)[0], what=inv)
    c.mc_expect_violation('Lifecycle', mc_cfg(invs=[], ab=True), 'deviation AbortOnFailure',
                          what='StoppedAfterShutdown')
    c.mc_expect_violation('Lifecycle', mc_cfg(invs=[], ch=True), 'deviation ClobbersCallerHook',
                          what='CallerHookUntouched')
    n = 0
    shown = 0
    # histories that are always replayed: the application installs hooks while the agent runs with tracing disabled;
    # a shutdown in which every step fails; start twice
    full = ['ShutdownBegin'] + ['ShutdownStep'] * 5 + ['ShutdownMark']
    short_ = list(full)
    curated = []
    for nt in (True, False):
        for names in (['Start', 'AppSetsHooks'] + full if nt else ['Start', 'Start'] + full,
                      ['Start'] + full + ['HostEventAfter'] if not nt else ['Start'] + full + ['Start', 'AppSetsHooks'] + full):
            ws = core.walks_matching(r.graph, names, init_filter=lambda st, nt=nt: st['noTrace'] == nt, limit=3000)
            # prefer walks whose shutdown has pending deliveries failing (step 2) and the most failing steps
            ws.sort(key=lambda w: (-max([int(2 in x[2]['failing']) for x in w]), -max([len(x[2]['failing']) for x in w])))
            curated += ws[:2]
            only2 = [w for w in ws if max([len(x[2]['failing']) for x in w]) == 1 and any(2 in x[2]['failing'] for x in w)]
            curated += only2[:1]
    # a start that fails (then a normal life)
    ws = core.walks_matching(r.graph, ['StartFails', 'Start'] + short_, init_filter=lambda st: not st['noTrace'], limit=50)
    curated += ws[:1]
    ws = core.walks_matching(r.graph, ['Start'] + short_ + ['StartFails'], init_filter=lambda st: not st['noTrace'] and st['preSys'] != 'None', limit=50)
    curated += ws[:1]
    # a configuration arriving while shutdown drains; shutdown called from another thread than start
    ws = core.walks_matching(r.graph, ['Start'] + full + ['HostEventAfter'],
                             init_filter=lambda st: not st['noTrace'] and st['preThr'] != 'None', limit=20000)
    for flag in ('latePoll', 'otherThread'):
        hit = [w for w in ws if any(x[2][flag] for x in w) and not any(x[2]['otherThread' if flag == 'latePoll' else 'latePoll'] for x in w)]
        # (with the service failing the late poll gets no answer: prefer the walk in which only the deliveries fail)
        hit.sort(key=lambda w: max(len(x[2]['failing']) for x in w))
        curated += hit[:1]
    # a second life of the agent after the application replaced / removed its hooks in between
    short = ['ShutdownBegin'] + ['ShutdownStep'] * 5 + ['ShutdownMark']
    ws = core.walks_matching(r.graph, ['Start'] + short + ['AppChangesHooks', 'Start'] + short,
                             init_filter=lambda st: not st['noTrace'] and st['preSys'] != 'None', limit=400)
    picked = {}
    for w in ws:
        key = (str(w[0][2]['preSys']), str(w[0][2]['preThr']), str(w[-1][2]['appSys']), str(w[-1][2]['appThr']))
        picked.setdefault(key, w)
    curated += list(picked.values())[:6]
    # a life that follows a shutdown called from ANOTHER thread (the starting thread still runs the agent's function then),
    # ended on the starting thread: the hooks found before the FIRST life are back
    ws = core.walks_matching(r.graph, ['Start'] + short + ['Start'] + short, init_filter=lambda st: not st['noTrace'], limit=60000)
    hit = [w for w in ws if any(x[2]['otherThread'] for x in w) and not w[-1][2]['otherThread']]
    hit.sort(key=lambda w: max(len(x[2]['failing']) for x in w))
    seen_pre = {}
    for w in hit:
        seen_pre.setdefault((str(w[0][2]['preSys']), str(w[0][2]['preThr'])), w)
    if not seen_pre:
        raise tlc.MachineryError('no walk with a life after a shutdown from another thread')
    curated += list(seen_pre.values())[:4]
    import itertools
    for walk in itertools.chain(curated, core.random_walks(r.graph, rng, 40 if quick else 800, max_len=40,
                                                           cover_edges=not quick, cover_factor=3)):
        # what a failing plugin raises: an Exception, or - every other walk - what a plugin gets when it hands work to the
        # agent while delivery is already closed (deep.task.IllegalStateException, which is NOT an Exception)
        from deep.task import IllegalStateException
        exc = Exception if n % 2 == 0 else IllegalStateException
        res = replay_walk(c, walk, wd, exc)
        n += 1
        c.traces_validated += 1
        steps = res['steps']
        c.note_case(key=('walk', str(to_json(walk[0][2])), str(steps)),
                    nontrivial=any(s[1] for s in steps) or len(steps) >= 3)
        if len(c.samples) < 3:
            c.sample({'direction': 'S2C', 'init': {k: to_json(walk[0][2][k]) for k in ('noTrace', 'preSys', 'preThr')},
                      'calls': steps})
        if res['problems']:
            path = c.save_replay({'direction': 'S2C', 'module': 'Lifecycle', 'init': to_json(walk[0][2]),
                                  'calls': steps, 'problems': res['problems']})
            if c.violation('lifecycle walk %s (noTrace=%s pre=%s/%s): %s' % (
                    steps, walk[0][2]['noTrace'], walk[0][2]['preSys'], walk[0][2]['preThr'], res['problems'][:2]), path):
                shown += 1
                if shown >= 8:
                    break


def plugin_cleans_up_leg(c, wd):
    """A plugin that removes the tracepoint it registered in its own shutdown() (tidy plugins do): shutdown() still
    completes - every other plugin is shut down, the agent is stopped - and nothing is raised into the application."""
    import threading
    out = {}

    def body():
        sysm = D.LifeSystem(wd, True, 'None', 'None', nplugins=3)
        problems = []
        try:
            sysm.start()
            base = sysm.path.rsplit('/', 1)[-1]
            handle = sysm.deep.register_tracepoint(base, sysm.marks['beat'], {'fire_count': '-1', 'fire_period': '0',
                                                                              'snapshot': 'no_collect',
                                                                              'log_msg': 'tidy {n}'}, [])
            first = sysm.plugins[0]
            o_shutdown = first.shutdown

            def tidy_shutdown():
                o_shutdown()
                handle.unregister()
            first.shutdown = tidy_shutdown
            for p in sysm.plugins:
                del p.calls[:]
            try:
                sysm.deep.shutdown()
            except BaseException as ex:
                problems.append('shutdown() raised %r into the application' % (ex,))
            if sysm.deep.started:
                problems.append('the agent still counts as started after shutdown()')
            for i, p in enumerate(sysm.plugins):
                if not any(c_[0] == 'shutdown' for c_ in p.calls):
                    problems.append('plugin %d was not shut down' % (i + 1))
        finally:
            sysm.close()
        out['problems'] = problems
    th = threading.Thread(target=body)
    th.start()
    th.join(90)
    if 'problems' not in out:
        raise tlc.MachineryError('plugin-cleans-up case did not finish')
    c.traces_validated += 1
    c.note_case(key=('plugin-cleans-up',), nontrivial=True)
    if out['problems']:
        p_ = c.save_replay({'kind': 'plugin-cleans-up', 'problems': out['problems']})
        c.violation('a plugin unregisters its tracepoint in its own shutdown(): %s' % out['problems'][:3], p_)


def hanging_poll_leg(c, wd):
    """The service stops answering: a poll is in flight, and stays in flight, when shutdown() is called. shutdown() still
    completes (in bounded time), the hooks are put back and the agent counts as stopped."""
    import threading
    out = {}

    def body():
        sysm = D.LifeSystem(wd, False, 'None', 'None')
        problems = []
        hang = threading.Event()
        try:
            sysm.start()
            sysm.poll_hang = hang
            t0 = time.time()
            while not getattr(sysm, 'poll_hanging', False) and time.time() - t0 < 5:
                time.sleep(0.01)        # (the poll timer fires every 20 ms: one poll is hanging now)
            if not getattr(sysm, 'poll_hanging', False):
                raise tlc.MachineryError('no poll in flight')
            done = threading.Event()
            box = {}

            def sd():
                try:
                    sysm.deep.shutdown()
                except BaseException as ex:
                    box['ex'] = ex
                finally:
                    box['hook'] = sys.gettrace()
                    done.set()
            t = threading.Thread(target=sd)
            t0 = time.time()
            t.start()
            returned = done.wait(25)
            box['took'] = time.time() - t0
            if not returned:
                problems.append('shutdown() had not returned 25 s after it was called while a poll was hanging')
            hang.set()
            done.wait(30)
            if 'ex' in box:
                problems.append('shutdown() raised %r' % (box['ex'],))
            if sysm.deep.started:
                problems.append('the agent still counts as started')
        finally:
            hang.set()
            sysm.close()
        out['problems'] = problems
    th = threading.Thread(target=body)
    th.start()
    th.join(120)
    if 'problems' not in out:
        raise tlc.MachineryError('hanging-poll case did not finish')
    c.traces_validated += 1
    c.note_case(key=('hanging-poll',), nontrivial=True)
    if out['problems']:
        p_ = c.save_replay({'kind': 'hanging-poll', 'problems': out['problems']})
        c.violation('shutdown() while the service does not answer a poll: %s' % out['problems'][:3], p_)


def update_vs_shutdown_leg(c, max_runs):
    """"Afterwards the agent takes no further actions": a configuration update that is being installed while shutdown()
    runs on another thread (the update was on its way; shutdown waits for it in its drain) leaves the stopped handler
    with NOTHING to act on - whatever the interleaving (every schedule with one forced switch inside trigger_handler.py)."""
    from .. import rig as R
    from .. import sched as S
    inf = {'fire_count': '-1', 'fire_period': '0'}

    def make_run():
        rg = R.Rig()
        rg.install([dict(id='old', path='elsewhere.py', line=3, args=dict(inf))])
        from deepproto.proto.tracepoint.v1.tracepoint_pb2 import TracePointConfig
        from deep.grpc import convert_response
        new = convert_response([TracePointConfig(ID='new%d' % i, path='elsewhere.py', line_number=10 + i, args=dict(inf))
                                for i in range(3)])
        sch = S.Scheduler(line_files=('deep/processor/trigger_handler.py',))
        sch.spawn('U', lambda: rg.handler.new_config(new))
        sch.spawn('S', lambda: rg.handler.shutdown())

        def finish(sched, schedule):
            left = [a.id for t in rg.handler._tp_config for a in t.actions]
            errs = [n_ + ':' + repr(m.error) for n_, m in sched.threads.items() if m.error is not None]
            rg.close()
            problems = []
            if errs:
                problems.append('raised: %s' % errs)
            if left:
                problems.append('the stopped handler holds the tracepoints %s: threads that still run its trace function go on '
                                'acting on them' % left)
            return problems
        return sch, finish
    n = 0
    for schedule, problems in S.explore(make_run, max_preemptions=1, max_runs=max_runs):
        n += 1
        c.traces_validated += 1
        c.note_case(key=('update-vs-shutdown', str(schedule)), nontrivial=True)
        if problems:
            p_ = c.save_replay({'kind': 'update-vs-shutdown', 'schedule': [list(x) for x in _compress(schedule)],
                                'problems': problems})
            c.violation('a configuration update racing shutdown(), schedule %s: %s' % (_compress(schedule), problems[:2]), p_)
            break
    c.extra['update_vs_shutdown_schedules'] = n


def _compress(schedule):
    out = []
    for s_ in schedule:
        if out and out[-1][0] == s_:
            out[-1][1] += 1
        else:
            out.append([s_, 1])
    return out


def interrupted_start_leg(c, wd):
    """start() fails in its FIRST poll with something that is not an Exception (the service does not answer, the user
    presses Ctrl-C): nothing of the agent is left behind - no hooks, and above all no poll timer that keeps asking the
    service for the rest of the process's life; a later start()/shutdown() works and stops everything it started."""
    import threading
    out = {}

    def body():
        sysm = D.LifeSystem(wd, False, 'None', 'None')
        problems = []
        try:
            sysm.poll_interrupt = True
            try:
                sysm.deep.start()
                problems.append('start() returned although its first poll was interrupted')
            except KeyboardInterrupt:
                pass
            except BaseException as ex:
                problems.append('start() raised %r' % (ex,))
            if sysm.deep.started:
                problems.append('the agent counts as started after a failed start')
            if sysm.hook_name(sys.gettrace()) == 'Agent' or sysm.hook_name(threading.gettrace()) == 'Agent':
                problems.append('the agent\'s trace hooks are installed after a failed start')
            n0 = sysm.polls
            time.sleep(0.4)            # (the poll timer would fire every 20 ms)
            if sysm.polls != n0:
                problems.append('%d poll(s) were sent after start() had failed: a poll timer was left running' % (sysm.polls - n0))
            # a later life works, and its shutdown stops ALL polling
            sysm.start()
            sysm.deep.shutdown()
            n1 = sysm.polls
            time.sleep(0.4)
            if sysm.polls != n1:
                problems.append('%d poll(s) were sent after shutdown() (the timer of the failed start is still running)'
                                % (sysm.polls - n1))
        finally:
            sysm.close()
        out['problems'] = problems
    th = threading.Thread(target=body)
    th.start()
    th.join(120)
    if 'problems' not in out:
        raise tlc.MachineryError('interrupted-start case did not finish')
    c.traces_validated += 1
    c.note_case(key=('interrupted-start',), nontrivial=True)
    if out['problems']:
        p_ = c.save_replay({'kind': 'interrupted-start', 'problems': out['problems']})
        c.violation('start() interrupted in its first poll: %s' % out['problems'][:3], p_)


def run_with_e2e(c):
    run(c)
    interrupted_start_leg(c, tlc.scratch('c14i_'))
    update_vs_shutdown_leg(c, 150 if c.tier == 'quick' else 1500)
    hanging_poll_leg(c, tlc.scratch('c14h_'))
    plugin_cleans_up_leg(c, tlc.scratch('c14p_'))
    # end to end: after the real deep.shutdown() over a real gRPC connection nothing reaches the service any more,
    # every snapshot handed over before was delivered, and no trace function is left installed
    from .. import e2e_leg
    e2e_leg.e2e_leg(c, random.Random(c.seed + 22), 6 if c.tier == 'quick' else 80)


if __name__ == '__main__':
    core.main('C14', run_with_e2e)

"""C08 - wire fidelity: the service receives every snapshot field intact, with auth (spec/Wire.tla)."""
import random
import sys
import types

from .. import core, tlc, fakes
from .. import rig as R
from .. import graphs as G
from ..tlaparse import to_json

INVS = ['NothingDropped', 'DeliveredOnce', 'Authenticated']
TEXT = {'ascii': 'plain text', 'empty': '', 'non_bmp': 'snøw \U0001F600 中', 'nul': 'a\x00b', 'long': 'L' * 5000,
        'surrogate': 'bad\udc80name'}


def escaped(s):
    return s.encode('utf-8', 'backslashreplace').decode('utf-8') if isinstance(s, str) else s


def build_snapshot(shape, rng):
    """A real EventSnapshot of the given shape, built from the real classes."""
    from deep.api.tracepoint.eventsnapshot import EventSnapshot, StackFrame, Variable, VariableId, WatchResult
    from deep.api.tracepoint.tracepoint_config import TracePointConfig
    from deep.api.resource import Resource
    from deep.api.attributes import BoundedAttributes
    t = TEXT[shape['text']]
    table = {}
    n = shape['table']
    for i in range(1, n + 1):
        kids = []
        if shape['children'] != 'none' and i < n:
            if shape['children'] == 'plain':
                kids = [VariableId(str(i + 1), 'kid' + t)]
            else:
                kids = [VariableId(str(i + 1), 'x', ['private'], '_Cls__x'), VariableId(str(n), 'y', ['protected'], None)]
        table[str(i)] = Variable('T%d' % i + t, t, str(1000 + i), kids, i % 2 == 0)
    frames = []
    for i in range(shape['frames']):
        frames.append(StackFrame('/app/f%d%s.py' % (i, t if shape['text'] in ('non_bmp', 'surrogate') else ''),
                                 'f%d.py' % i, 'fn%d' % i, 10 + i, [VariableId('1', 'v' + t)] if n else [],
                                 ('Cls' + t) if shape['class_name'] == 'given' else None, app_frame=(i == 0)))
    args = {'fire_count': '3', 'k': t}
    if shape['attrs'] == 'awkward':
        # a tracepoint registered in code whose arguments were given as numbers / booleans, not as text: the limiter
        # honours them, and the wire format (text -> text) carries their text
        args = {'fire_count': 3, 'fire_period': 0, 'k': t, 'on': True, 'ratio': 0.5}
    tp = TracePointConfig('tp-wire', 'path' + t + '.py', 42, args, ['w1', 'w' + t], [])
    snap = EventSnapshot(tp, 1_700_000_000_123_456_789, Resource({'service.name': 'svc', 'res': t, 'n': 5}), frames, table)
    w = shape['watches']
    if w in ('good', 'good_and_error'):
        snap.add_watch_result(WatchResult('WATCH', 'expr' + t, VariableId('1', 'expr' + t) if n else VariableId('9', 'q')))
    if w in ('error', 'good_and_error'):
        snap.add_watch_result(WatchResult('WATCH', 'bad' + t, None, 'boom ' + t))
    if w == 'error_empty':
        snap.add_watch_result(WatchResult('WATCH', 'bad' + t, None, ''))
    if w == 'log_and_capture':
        snap.add_watch_result(WatchResult('LOG', 'name', VariableId('1', 'name')))
        snap.add_watch_result(WatchResult('CAPTURE', 'return', VariableId('1', 'return')))
        snap.add_watch_result(WatchResult('METRIC', 'm', None, 'no metric'))
    a = shape['attrs']
    attrs = {}
    if a in ('str', 'all'):
        attrs['s'] = 'val' + t
    if a in ('bool_int_float', 'all'):
        attrs.update({'b': True, 'b0': False, 'i': 7, 'i1': 1, 'i0': 0, 'f': 2.5, 'f1': 1.0, 'f0': 0.0})
    if a in ('sequence', 'all'):
        attrs['seq'] = ['x', 'y']
        attrs['by'] = b'bytes'
    if a == 'awkward':
        import enum
        import http

        class Kilo(float):
            pass

        class Label(str):
            pass
        # values that ARE an int / float / str (instances of subclasses: IntEnum members, HTTPStatus, numpy-style floats)
        attrs.update({'status': http.HTTPStatus.NOT_FOUND, 'level': enum.IntEnum('Level', 'LOW HIGH').HIGH,
                      'weight': Kilo(2.5), 'tag': Label('blue')})
        # text that is not valid UTF-8 text (a file name from os.fsdecode, a value read with surrogateescape) inside a
        # sequence and as a key
        attrs.update({'seq_sur': ['ok', 'bad\udc80'], 'key\udc80': 'v'})
        attrs.update({'seq_none': ['x', None, 'y'], 'none_first': [None, 'z'], 'big': 2 ** 63, 'bigger': 2 ** 70,
                      'small': -(2 ** 63) - 1, 'edge': 2 ** 63 - 1, 'edge_neg': -(2 ** 63)})
    if attrs:
        snap.attributes.merge_in(BoundedAttributes(attributes=attrs))
    if shape['log_msg'] == 'text':
        snap.log_msg = '[deep] msg ' + t
    if shape['attrs'] == 'awkward' and shape['frames'] == 3:
        # the wall clock is stepped back (an NTP correction) between the hit and the completion of the snapshot: a
        # duration cannot be negative on the wire, and the snapshot is delivered all the same
        import deep.api.tracepoint.eventsnapshot as es_mod
        o_time = es_mod.time_ns
        es_mod.time_ns = lambda: snap.ts_nanos - 5_000_000
        try:
            snap.complete()
        finally:
            es_mod.time_ns = o_time
    else:
        snap.complete()
    return snap


def any_value(v):
    which = v.WhichOneof('value')
    if which is None:
        return ('unset',)
    if which == 'array_value':
        return ('array', tuple(any_value(x) for x in v.array_value.values))
    return (which, getattr(v, which))


def expect_value(v):
    if type(v) not in (bool, str, int, float, bytes, list, tuple, type(None)):
        # an instance of a subclass of a scalar type is carried as that scalar
        for base in (bool, str, int, float, bytes):
            if isinstance(v, base):
                return expect_value(base(v))
    if isinstance(v, bool):
        return ('bool_value', v)
    if isinstance(v, str):
        return ('string_value', escaped(v))
    if isinstance(v, int):
        if not -(2 ** 63) <= v < 2 ** 63:
            return ('string_value', str(v))       # beyond the 64 bit field: its digits
        return ('int_value', v)
    if isinstance(v, float):
        return ('double_value', v)
    if isinstance(v, bytes):
        return ('bytes_value', v)
    if isinstance(v, (list, tuple)):
        return ('array', tuple(expect_value(x) for x in v))
    return ('unset',)                             # None (an element of a sequence): a value that is not set


def expected_image(s):
    """Independent projection of the SOURCE snapshot: what the service must see."""
    e = escaped

    def vid(v):
        return {'ID': e(v.vid), 'name': e(v.name), 'modifiers': [e(m) for m in v.modifiers],
                'original_name': e(v.original_name) if v.original_name is not None else None}
    return {
        'ID': s.id.to_bytes(16, 'big'),
        'tp': {'ID': s.tracepoint.id, 'path': e(s.tracepoint.path), 'line': s.tracepoint.line_no,
               'args': {k: e(v if isinstance(v, str) else str(v)) for k, v in s.tracepoint.args.items()},
               'watches': [e(w) for w in s.tracepoint.watches]},
        'table': {k: {'type': e(v.type), 'value': e(v.value), 'hash': v.hash, 'children': [vid(c) for c in v.children],
                      'truncated': bool(v.truncated)} for k, v in s.var_lookup.items()},
        'ts': s.ts_nanos, 'duration': max(0, s.duration_nanos),
        'frames': [{'file': e(f.file_name), 'short': e(f.short_path), 'method': e(f.method_name), 'line': f.line_number,
                    'class': e(f.class_name) if f.class_name is not None else None, 'app': bool(f.app_frame),
                    'vars': [vid(v) for v in f.variables]} for f in s.frames],
        'watches': [{'expr': e(w.expression), 'source': w.source,
                     'good': vid(w.result) if (w.result is not None and w.error is None) else None,
                     'error': e(w.error) if w.error is not None else None} for w in s.watches],
        'attrs': {e(k): expect_value(v) for k, v in s.attributes.items()},
        'resource': {e(k): expect_value(v) for k, v in s.resource.attributes.items()},
        'log_msg': e(s.log_msg) if s.log_msg is not None else None,
    }


def received_image(m):
    from deepproto.proto.tracepoint.v1.tracepoint_pb2 import WatchSource

    def vid(v):
        return {'ID': v.ID, 'name': v.name, 'modifiers': list(v.modifiers),
                'original_name': v.original_name if v.HasField('original_name') else None}
    return {
        'ID': m.ID,
        'tp': {'ID': m.tracepoint.ID, 'path': m.tracepoint.path, 'line': m.tracepoint.line_number,
               'args': dict(m.tracepoint.args), 'watches': list(m.tracepoint.watches)},
        'table': {k: {'type': v.type, 'value': v.value, 'hash': v.hash, 'children': [vid(c) for c in v.children],
                      'truncated': bool(v.truncated)} for k, v in m.var_lookup.items()},
        'ts': m.ts_nanos, 'duration': m.duration_nanos,
        'frames': [{'file': f.file_name, 'short': f.short_path, 'method': f.method_name, 'line': f.line_number,
                    'class': f.class_name if f.HasField('class_name') else None, 'app': bool(f.app_frame),
                    'vars': [vid(v) for v in f.variables]} for f in m.frames],
        'watches': [{'expr': w.expression, 'source': WatchSource.Name(w.source),
                     'good': vid(w.good_result) if w.WhichOneof('result') == 'good_result' else None,
                     'error': w.error_result if w.WhichOneof('result') == 'error_result' else None} for w in m.watches],
        'attrs': {kv.key: any_value(kv.value) for kv in m.attributes},
        'resource': {kv.key: any_value(kv.value) for kv in m.resource},
        'log_msg': m.log_msg if m.HasField('log_msg') else None,
    }


def diff(a, b, path=''):
    if type(a) != type(b) and not (isinstance(a, (list, tuple)) and isinstance(b, (list, tuple))):
        return ['%s: %r != %r' % (path, a, b)]
    if isinstance(a, dict):
        out = []
        for k in sorted(set(a) | set(b), key=str):
            if k not in a or k not in b:
                out.append('%s.%s: %s' % (path, k, 'missing on the wire' if k in a else 'unexpected on the wire'))
            else:
                out += diff(a[k], b[k], '%s.%s' % (path, k))
        return out
    if isinstance(a, (list, tuple)):
        if len(a) != len(b):
            return ['%s: %d items != %d items' % (path, len(a), len(b))]
        out = []
        for i, (x, y) in enumerate(zip(a, b)):
            out += diff(x, y, '%s[%d]' % (path, i))
        return out
    return [] if a == b else ['%s: %r != %r' % (path, a, b)]


class CustomAuth:
    def __init__(self, config):
        self.config = config

    def provide(self):
        return [('x-custom', 'token-1')]


class FailingAuth:
    def __init__(self, config):
        pass

    def provide(self):
        raise RuntimeError('no credentials')


def grpc_service(auth):
    """A real GRPCService (metadata/_build_metadata/AuthProvider are real) whose channel is the fake one."""
    from deep.grpc import GRPCService
    from deep.config import ConfigService
    from deep.config.tracepoint_config import TracepointConfigService
    custom = {'SERVICE_URL': 'fake:1', 'SERVICE_SECURE': 'False'}
    if auth == 'basic':
        custom.update(SERVICE_AUTH_PROVIDER='deep.api.auth.BasicAuthProvider', SERVICE_USERNAME='user', SERVICE_PASSWORD='pass')
    elif auth in ('custom', 'failing'):
        m = types.ModuleType('vauth_mod')
        m.CustomAuth, m.FailingAuth = CustomAuth, FailingAuth
        sys.modules['vauth_mod'] = m
        custom['SERVICE_AUTH_PROVIDER'] = 'vauth_mod.CustomAuth' if auth == 'custom' else 'vauth_mod.FailingAuth'
    cfg = ConfigService(custom, tracepoints=TracepointConfigService())
    svc = GRPCService(cfg)
    svc.channel = fakes.FakeChannel()
    return svc, cfg


EXPECT_MD = {'none': [], 'basic': [('authorization', 'Basic%20dXNlcjpwYXNz')], 'custom': [('x-custom', 'token-1')]}


def run_shape(shape, rng):
    from deep.push import PushService
    from deep.poll import LongPoll
    from deep.api.resource import Resource
    from deepproto.proto.tracepoint.v1.tracepoint_pb2 import Snapshot
    from deepproto.proto.poll.v1.poll_pb2 import PollResponse, ResponseType
    svc, cfg = grpc_service(shape['auth'])
    cfg.resource = Resource.create()
    if shape['attrs'] == 'awkward':
        # the resource that goes out with every poll: a service name that is not valid UTF-8 text (DEEP_SERVICE_NAME with
        # a Latin-1 byte reaches Python with a lone surrogate), also inside a sequence
        cfg.resource = cfg.resource.merge(Resource({'service.name': 'caf\udce9', 'hosts': ['a', 'b\udc80']}))
    svc.channel.script('/poll', lambda req: PollResponse(response_type=ResponseType.NO_CHANGE))
    snap = build_snapshot(shape, rng)
    exp = expected_image(snap)
    ps = PushService(svc, None)
    problems = []
    try:
        ps._push_task(snap)
        task_error = None
    except Exception as ex:
        task_error = repr(ex)
    sends = [c_ for c_ in svc.channel.calls if c_['path'].endswith('/send')]
    if shape['auth'] == 'failing':
        if sends:
            problems.append('a request went out although the auth provider failed')
    else:
        if task_error:
            problems.append('the delivery task failed: %s' % task_error)
        if len(sends) != 1:
            problems.append('%d send request(s) for one collected snapshot (it would be dropped silently)' % len(sends))
        else:
            got = received_image(Snapshot.FromString(sends[0]['bytes']))
            d = diff(exp, got, 'snapshot')
            if d:
                problems.append('fields changed on the wire: %s' % d[:4])
            if sends[0]['metadata'] != EXPECT_MD[shape['auth']]:
                problems.append('send metadata %s, provider supplies %s' % (sends[0]['metadata'], EXPECT_MD[shape['auth']]))
    # polls carry the same metadata (second poll: cached)
    lp = LongPoll(cfg, svc)
    for _ in range(2):
        try:
            lp.poll()
        except Exception:
            pass
    polls = [c_ for c_ in svc.channel.calls if c_['path'].endswith('/poll')]
    if shape['auth'] == 'failing':
        if polls:
            problems.append('a poll went out although the auth provider failed')
    else:
        if len(polls) != 2:
            problems.append('%d poll requests, expected 2' % len(polls))
        for p in polls:
            if p['metadata'] != EXPECT_MD[shape['auth']]:
                problems.append('poll metadata %s, provider supplies %s' % (p['metadata'], EXPECT_MD[shape['auth']]))
    return problems


HOSTV = '''
def holder():
    vals = VALS
    return 0  # TP:holder
'''


def collector_leg(c, rng, wd, n):
    """Snapshots produced by the real collector (random graphs with hostile text) through the same path."""
    from deep.push import PushService
    from deepproto.proto.tracepoint.v1.tracepoint_pb2 import Snapshot
    runner = G.CollectorRun(wd)
    for _ in range(n):
        inst = G.random_instance(rng, max_nodes=8)
        inst['maxVars'] = 1000
        built = G.build(inst)
        if built is None:
            continue
        res, snaps, esc = runner.run(inst, built, watches=['VALS', '1 // 0'], public=True)
        if len(snaps) != 1:
            continue
        svc, cfg = grpc_service('basic')
        ps = PushService(svc, None)
        exp = expected_image(snaps[0])
        try:
            ps._push_task(snaps[0])
        except Exception as ex:
            pass
        sends = [c_ for c_ in svc.channel.calls if c_['path'].endswith('/send')]
        c.traces_validated += 1
        c.note_case(key=('collector', str(inst)), nontrivial=len(snaps[0].var_lookup) >= 3)
        bad = None
        if len(sends) != 1:
            bad = 'collector-produced snapshot was not sent'
        else:
            d = diff(exp, received_image(Snapshot.FromString(sends[0]['bytes'])), 'snapshot')
            if d:
                bad = 'fields changed on the wire: %s' % d[:3]
        if bad:
            path = c.save_replay({'direction': 'C2S', 'module': 'Wire', 'instance': inst, 'what': bad})
            if c.violation('collector snapshot: %s; instance %s' % (bad, inst), path) and len(c.violations) >= 8:
                return


def run(c):
    quick = c.tier == 'quick'
    rng = random.Random(c.seed)
    wd = tlc.scratch('c08_')
    c.rule = ('cases = shapes of Wire.tla (table size x text class incl. non-BMP, NUL, 5000 chars, lone surrogate x '
              'children with modifiers/original name x frames x class name x watch kinds/sources x attribute types x log '
              'message x auth provider none/basic/custom/failing) sampled with tlc -simulate; each is built as a real '
              'EventSnapshot, pushed through the real PushService._push_task into a channel that serialises the request, '
              'the bytes parsed back and compared field by field with an independent projection of the source; polls and '
              'sends must carry the provider metadata; plus collector-produced snapshots of random graphs; non-trivial = '
              'non-ASCII text, children, error watches or attributes present')
    c.assumptions = ['per-character fidelity is established per text class, not for all of Unicode',
                     'text that cannot be encoded must arrive in escaped form (backslashreplace) rather than be dropped']
    c.mc('Wire', dict(constants=dict(DropOnConvertError=False, Rich=True), invariants=INVS, deadlock=False),
         label='all shapes', must_cover=['Convert', 'Send', 'Poll'])
    c.mc_expect_violation('Wire', dict(constants=dict(DropOnConvertError=True, Rich=False), invariants=['NothingDropped'],
                                       deadlock=False), 'deviation DropOnConvertError', what='NothingDropped')
    sim = tlc.simulate('Wire', dict(constants=dict(DropOnConvertError=False, Rich=True), invariants=INVS, deadlock=False),
                       num=250 if quick else 60000, depth=14, seed=c.seed + 9)
    c.transitions += sim.generated
    seen = set()
    shown = 0
    for beh in sim.behaviours:
        final = beh[-1][2]
        if final['stage'] == 'build' and final['k'] <= 9:
            continue
        shape = to_json(final['shape'])
        if len(shape) < 9 or str(shape) in seen:
            continue
        seen.add(str(shape))
        problems = run_shape(shape, rng)
        c.traces_validated += 1
        c.note_case(key=('shape', str(shape)), nontrivial=shape['text'] != 'ascii' or shape['children'] != 'none'
                    or shape['watches'] != 'none' or shape['attrs'] != 'none')
        if len(c.samples) < 3:
            c.sample({'direction': 'S2C', 'module': 'Wire', 'shape': shape})
        if problems:
            path = c.save_replay({'direction': 'S2C', 'module': 'Wire', 'shape': shape, 'problems': problems})
            sig = None
            if shape['text'] == 'surrogate':
                sig = {'text_class': 'lone_surrogate'}
            if c.violation('shape %s: %s' % (shape, problems[:2]), path, signature=sig):
                shown += 1
                if shown >= 8:
                    break
    collector_leg(c, rng, wd, 60 if quick else 5000)


if __name__ == '__main__':
    core.main('C08', run)

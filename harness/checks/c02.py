"""C02 - snapshot fidelity (spec/Snapshot.tla for frames/frame_type/watches/naming, Collector.tla for values)."""
import random
import threading

from .. import core, tlc
from .. import graphs as G
from .. import snapshot_drv as D
from ..tlaparse import to_json
from . import c05

INVS = ['FramesMatchStack', 'TopFrameVarsAreLocals', 'FrameTypeDecides', 'OneResultPerWatch', 'Independent',
        'EveryTracepointDelivers']


def mc_cfg(shared=False, d=2, k=2, invs=None, cls=('none', 'C'), lives=1, memo=False, stb=False):
    return dict(constants=dict(MaxDepth=d, MaxActions=k, SharedTable=shared, ClsKinds=set(cls), MaxLives=lives,
                               AppFlagMemoised=memo, SharedTimeBudget=stb),
                invariants=invs or INVS, deadlock=False)


ALL_CLS = ('none', 'C', 'E', 'H')


def replay_behaviours(c, behs, wd, tagbase, independence_only=False):
    n = 0
    for beh in behs:
        final = beh[-1][2]
        init = final
        stack = to_json(init['stack'])
        tps = [dict(ft=t['ft'], w=list(t['w'])) for t in to_json(init['tps'])]
        expire = init['expire']
        if final['phase'] != 'run' or len(final['snaps']) != len(tps):
            continue          # truncated behaviour
        n += 1
        spec_snaps = to_json(final['snaps'])

        def should(ft, idx, spec_snaps=spec_snaps, tps=tps):
            for s in spec_snaps:
                if tps[s['tp'] - 1]['ft'] == ft and idx < len(s['frames']):
                    return len(s['frames'][idx]['vars']) > 0 or False
            return False
        # the spec's vars set is empty both for "not collected" and for nl = 0; expected names come from the
        # reference reading, so the rule itself is taken from the spec operator re-stated here for idx >= depth
        def should_collect(ft, idx):
            if ft == 'no_frame':
                return False
            if ft == 'all_frame':
                return True
            return idx == 0
        lives = int(final.get('life', 1))
        problems = []
        eff = expire if expire < len(stack) else 10 ** 6      # run_case installs no time limit in that case
        for lf in range(1, lives + 1):
            # life 2 = a second configuration (the other root) in the same process, on the same files
            flipped = lf == 2
            out = {}

            def body(flipped=flipped):
                out['r'] = D.run_case(wd, stack, tps, expire, '%s%d' % (tagbase, n), flipped=flipped)
            th = threading.Thread(target=body)
            th.start()
            th.join(120)
            if 'r' not in out:
                raise tlc.MachineryError('snapshot case did not finish')
            reference, expected, snaps, probs, app_dir = out['r']
            probs = list(probs)
            seen = [dict(f, app=(f['app'] != flipped)) for f in stack]
            if not probs:
                probs = D.compare(seen, tps, eff, reference, expected, snaps, app_dir, should_collect)
            if flipped and bool(final.get('flipped')) is not True:
                raise tlc.MachineryError('harness reading of the second configuration disagrees with the spec state')
            problems += [('second configuration (other root, same files): ' if flipped else '') + p_ for p_ in probs]
        # the spec state says which frames carry variables: cross-check the Python restatement against it
        for s in spec_snaps:
            t = tps[s['tp'] - 1]
            for f in s['frames']:
                if f['vars'] and not (should_collect(t['ft'], f['idx']) and f['idx'] < expire):
                    raise tlc.MachineryError('harness restatement of ShouldCollect disagrees with the spec')
        c.traces_validated += 1
        c.note_case(key=('snapshot-case', str(stack), str(tps), expire),
                    nontrivial=len(stack) >= 2 or len(tps) >= 2)
        if len(c.samples) < 3:
            c.sample({'direction': 'S2C', 'module': 'Snapshot', 'stack': stack, 'tps': tps, 'expire': expire})
        if problems:
            path = c.save_replay({'direction': 'S2C', 'module': 'Snapshot', 'stack': stack, 'tps': tps,
                                  'expire': expire, 'problems': problems})
            if c.violation('Snapshot case stack=%s tps=%s expire=%s: %s' % (stack, tps, expire, problems[:3]), path):
                if len(c.violations) >= 8:
                    return n
    return n


def values_leg(c, rng, wd, n):
    """Type name / value text / child names of every collected variable, on random graphs (by construction)."""
    runner = G.CollectorRun(wd)
    done = 0
    for _ in range(n):
        inst = G.random_instance(rng, max_nodes=10)
        inst['maxVars'] = 1000
        built = G.build(inst)
        if built is None:
            continue
        if done % 2 == 1:
            # as the service configures it (default limits), with a log message whose fields are whole objects of
            # the frame: the variables of the log fields share the snapshot's table
            inst = dict(inst, maxVars=1000, maxStr=1024, maxColl=10, maxDepth=5)
            nroots = len(inst['roots'])
            log_msg = 'state ' + ' '.join('{v%d}' % i for i in range(min(nroots, 3)))
            res, snaps, escaped = runner.run(inst, built, log_msg=log_msg)
        else:
            res, snaps, escaped = runner.run(inst, built)
        done += 1
        c.traces_validated += 1
        c.note_case(key=('values', str(inst)), nontrivial=len(inst['kind']) >= 3)
        bad = None
        if res != ('ok', 0) or escaped or len(snaps) != 1:
            bad = 'no snapshot / host changed: %r %r %d' % (res, escaped, len(snaps))
        else:
            s = snaps[0]
            names = sorted(v.name for v in s.frames[0].variables)
            want_names = sorted('v%d' % i for i in range(len(inst['roots']))) if inst['maxDepth'] >= 2 else []
            if names != want_names:
                bad = 'top frame variables %s' % names
            for fv in s.frames[0].variables:
                # each local names the object the frame really binds to it
                entry = s.var_lookup.get(fv.vid)
                want_node = inst['roots'][int(fv.name[1:])]
                if entry is None or built.node_of.get(int(entry.hash)) != want_node:
                    bad = 'local %s shows %s, the frame binds it to node %d (%s)' % (
                        fv.name, (entry.type, entry.value) if entry else None, want_node,
                        type(built.objs[want_node]).__name__)
                    break
            for vid, v in s.var_lookup.items():
                node = built.node_of.get(int(v.hash))
                if node is None:
                    bad = 'variable %s is no object of the frame' % vid
                    break
                obj = built.objs[node]
                kind = inst['kind'][node - 1]
                if v.type != type(obj).__name__:
                    bad = 'variable %s type %r, real type %r' % (vid, v.type, type(obj).__name__)
                    break
                text = G.text_of(kind, obj)
                if v.value != text[:inst['maxStr']] or bool(v.truncated) != (len(text) > inst['maxStr']):
                    bad = 'variable %s value %r truncated=%s, real text %r (limit %d)' % (
                        vid, v.value, v.truncated, text, inst['maxStr'])
                    break
                want = built.names[node]
                if kind in ('list', 'tuple'):
                    want = want[:inst['maxColl']]
                elif kind == 'exc':
                    # the arguments are a collection (limited), the attributes are the object's own
                    na = len([x for x in want if x.isdigit()])
                    want = want[:na][:inst['maxColl']] + want[na:]
                got = [ch.name for ch in v.children]
                if got and got != want[:len(got)] or (len(got) not in (0, len(want))):
                    bad = 'variable %s (%s) children %s, expected %s' % (vid, kind, got, want)
                    break
        if bad:
            path = c.save_replay({'direction': 'S2C', 'module': 'Collector', 'instance': inst, 'what': bad})
            if c.violation('values: %s; instance %s' % (bad, inst), path):
                if len(c.violations) >= 8:
                    return


WATCH_HOST = '''
def priced(price, weight, height):
    label = 'item'
    count = 3
    return count  # TP:priced
'''

SCALAR_WATCHES = ['price + weight', 'weight + height', 'price * count', 'height - price', 'label + "-x"', 'label * 2',
                  'weight / count', 'price + height', 'count + 1000', 'str(price) + label', 'price - weight',
                  'height * weight', 'count * 7919', 'label.upper() + label',
                  # results that happen to be falsy are results all the same
                  'count - 3', 'label[:0]', 'price < 0', 'None', 'weight * 0.0']


def scalar_watch_leg(c, wd):
    """Every watch is evaluated against the paused frame: many watches producing fresh scalars, each compared with an
    independent evaluation over the same locals."""
    import sys
    from .. import rig as R
    mod, path, marks = R.write_host(wd, WATCH_HOST)
    base = path.rsplit('/', 1)[-1]
    for args in ((10.25, 72.0, 20.75), (3, 5, 8), (1.5, 2, 10 ** 12)):
        rg = R.Rig()
        try:
            rg.install([{'id': 'w', 'path': base, 'line': marks['priced'], 'args': {}, 'watches': SCALAR_WATCHES}])
            res = rg.run(mod.priced, *args, only_file=path)
            env = dict(price=args[0], weight=args[1], height=args[2], label='item', count=3)
            bad = None
            snaps = rg.snapshots()
            if res != ('ok', 3) or rg.escaped or len(snaps) != 1:
                bad = 'no snapshot / host changed: %r %r' % (res, rg.escaped)
            else:
                s = snaps[0]
                ws = [w for w in s.watches if w.source == 'WATCH']
                if [w.expression for w in ws] != SCALAR_WATCHES:
                    bad = 'watch list %s' % [w.expression for w in ws]
                for w in ws:
                    if bad:
                        break
                    want = eval(w.expression, {}, dict(env))
                    v = s.var_lookup.get(w.result.vid) if (w.result is not None and w.error is None) else None
                    if v is None or v.type != type(want).__name__ or v.value != str(want):
                        bad = 'watch %r reported %s, the frame gives %s %r' % (
                            w.expression, (v.type, v.value) if v else w.error, type(want).__name__, str(want))
            c.traces_validated += 1
            c.note_case(key=('scalar-watches', args), nontrivial=True)
            if bad:
                p_ = c.save_replay({'direction': 'C2S', 'kind': 'scalar-watches', 'args': list(args), 'what': bad})
                c.violation('watches on locals %s: %s' % (env, bad), p_)
        finally:
            rg.close()
    sys.modules.pop(mod.__name__, None)


TYPED_HOST = '''import collections
import enum


class Basket(list):
    pass


class Settings(dict):
    pass


class AttrDict(dict):
    """The attribute-dict idiom: the instance dictionary IS the mapping."""

    def __init__(self, *a, **k):
        dict.__init__(self, *a, **k)
        self.__dict__ = self


class Record(dict):
    """Keys readable as attributes; a missing one is a KeyError (not an AttributeError)."""
    __slots__ = ()

    def __getattr__(self, name):
        return self[name]


JOURNAL = []


class Journal(list):
    """A list that records which of its attributes were asked for."""

    def __getattribute__(self, name):
        JOURNAL.append(name)
        return list.__getattribute__(self, name)


class SlotBasket(list):
    __slots__ = ('owner',)


class SlotFailure(Exception):
    __slots__ = ('code',)


class StrictMeta(type):
    """A metaclass with an equality of its own (an ORM's model base, a units library): comparing the CLASS with
    anything that is not one of its classes is an error."""
    EQ_CALLS = []

    def __eq__(cls, other):
        StrictMeta.EQ_CALLS.append(other)
        if not isinstance(other, StrictMeta):
            raise TypeError('cannot compare a model class with %r' % (other,))
        return cls is other

    __hash__ = type.__hash__


class Model(metaclass=StrictMeta):
    def __init__(self, v):
        self.v = v


RAN = []     # application methods that were run while the program was paused


class CountingKey:
    def __init__(self, k):
        self.k = k

    def __hash__(self):
        RAN.append('CountingKey.__hash__')
        return hash(self.k)

    def __eq__(self, other):
        RAN.append('CountingKey.__eq__')
        return isinstance(other, CountingKey) and other.k == self.k

    def __str__(self):
        return 'key-%s' % self.k


class LazyProxy:
    """The usual lazy proxy: asking for its class resolves the target."""

    def __init__(self):
        self.target = 'resolved'

    @property
    def __class__(self):
        RAN.append('LazyProxy.__class__')
        return str


class ArgsError(Exception):
    @property
    def args(self):
        RAN.append('ArgsError.args')
        return ('computed',)


class Guarded:
    __slots__ = ('secret',)

    def __init__(self):
        pass


def _guarded_secret(self):
    RAN.append('Guarded.secret')
    return 'fetched'


Guarded.secret = property(_guarded_secret)


class traceback:
    def __init__(self, v):
        self.v = v

    def __str__(self):
        return 'tb-text'


class module(traceback):
    pass


class list_iterator(traceback):
    pass



class Level(enum.IntEnum):
    LOW = 1
    HIGH = 2


class Tagged(str):
    pass


class Amount(float):
    pass


class Count(int):
    pass


def typed(n):
    level = Level.HIGH
    tagged = Tagged('abc')
    tagged.meta = 'origin'
    amount = Amount(2.5)
    amount.unit = 'kg'
    count = Count(7)
    count.source = 'sensor'
    huge = 10 ** 5000
    basket = Basket([1, 2])
    basket.owner = 'ann'
    settings = Settings(debug=1)
    settings.path = '/etc/app.ini'
    recent = collections.OrderedDict([('a', 1), ('b', 2), ('c', 3)])
    recent.move_to_end('a')
    tb = traceback('x')
    mo = module('y')
    it = list_iterator('z')
    keyed = {CountingKey(1): 'one', CountingKey(2): 'two'}
    lazy = LazyProxy()
    ae = ArgsError('raised-with')
    gd = Guarded()
    del RAN[:]
    model = Model(5)
    del StrictMeta.EQ_CALLS[:]
    ad = AttrDict(a=1, b=2)
    rec = Record(a=1, b=2)
    jr = Journal([1, 2])
    del JOURNAL[:]
    sb = SlotBasket([1, 2])
    sb.owner = 'ann'
    sf = SlotFailure('boom')
    sf.code = 7
    return n  # TP:typed
'''


def typed_objects_leg(c, wd):
    """Objects whose class derives from a scalar type and that carry attributes: real type name, the value's text, and
    their attributes as children (they are objects, not bare scalars)."""
    import sys
    from .. import rig as R
    mod, path, marks = R.write_host(wd, TYPED_HOST)
    base = path.rsplit('/', 1)[-1]
    rg = R.Rig()
    try:
        rg.install([{'id': 't', 'path': base, 'line': marks['typed'], 'args': {}, 'watches': ['tagged', 'level']}])
        res = rg.run(mod.typed, 3, only_file=path)
        snaps = rg.snapshots()
        bad = None
        if res != ('ok', 3) or rg.escaped or len(snaps) != 1:
            bad = 'no snapshot / host changed: %r %r' % (res, rg.escaped)
        else:
            s = snaps[0]
            by = {v.name: s.var_lookup.get(v.vid) for v in s.frames[0].variables}
            want = {'level': ('Level', str(mod.Level.HIGH), None), 'tagged': ('Tagged', 'abc', 'meta'),
                    'amount': ('Amount', '2.5', 'unit'), 'count': ('Count', '7', 'source')}
            for name, (tname, text, attr) in want.items():
                v = by.get(name)
                if v is None or v.type != tname or v.value != text:
                    bad = 'local %s shows %s, it is a %s with text %r' % (name, (v.type, v.value) if v else None, tname, text)
                    break
                kids = [ch.name for ch in v.children]
                if attr is not None and attr not in kids:
                    bad = 'local %s (%s) has the attribute %r, the snapshot shows children %s' % (name, tname, attr, kids)
                    break
                if attr is None and not kids:
                    bad = 'local %s (an enum member) shows no attributes at all' % name
                    break
            # application classes derived from the builtin containers: the elements AND the object's own attributes
            for name, kids_want in (('basket', ['0', '1', 'owner']), ('settings', ['debug', 'path']),
                                    # an OrderedDict is shown in ITS order (an LRU cache after a hit)
                                    ('recent', ['b', 'c', 'a']),
                                    # application classes that are merely NAMED like types without children
                                    ('tb', ['v']), ('mo', ['v']), ('it', ['v']),
                                    # the attribute-dict idiom (each entry once), keys readable as attributes, slots on
                                    # classes derived from containers and exceptions
                                    ('keyed', ['key-1', 'key-2']), ('lazy', ['target']), ('gd', []),
                                    ('model', ['v']), ('ad', ['a', 'b']), ('rec', ['a', 'b']), ('jr', ['0', '1']), ('sb', ['0', '1', 'owner']),
                                    ('sf', ['0', 'code'])):
                v = by.get(name)
                kids = [ch.name for ch in v.children] if v is not None else None
                if not bad and kids != kids_want:
                    bad = 'local %s (%s) shows the children %s, it has %s' % (name, v.type if v else None, kids, kids_want)
            for name in ('tb', 'mo', 'it'):
                v = by.get(name)
                if not bad and (v is None or v.value != 'tb-text'):
                    bad = 'local %s (an application class named %s) shows the text %r' % (name, v.type if v else None, v.value if v else None)
            if not bad and mod.RAN:
                bad = 'looking at the locals ran application code: %s' % sorted(set(mod.RAN))
            if not bad and mod.StrictMeta.EQ_CALLS:
                bad = 'looking at local model compared its CLASS with %d other objects (the metaclass __eq__ is application code)' % len(
                    mod.StrictMeta.EQ_CALLS)
            if not bad and mod.JOURNAL:
                bad = 'looking at local jr ran its __getattribute__ (an application method) for %s' % sorted(set(mod.JOURNAL))
            # a number with more digits than the interpreter converts to decimal text by default (str() raises for it):
            # still a number whose VALUE is shown - in decimal or in hexadecimal, cut to the string limit
            v = by.get('huge')
            if not bad and (v is None or v.type != 'int' or not v.value
                            or not (('1' + '0' * 5000).startswith(v.value) or hex(10 ** 5000).startswith(v.value))):
                bad = 'local huge (10 ** 5000) shows %s: not its value' % ((v.type, v.value[:60]) if v else None,)
        c.traces_validated += 1
        c.note_case(key=('typed-objects',), nontrivial=True)
        if bad:
            p_ = c.save_replay({'direction': 'C2S', 'kind': 'typed-objects', 'what': bad})
            c.violation('objects derived from scalar types: %s' % bad, p_)
    finally:
        rg.close()
        sys.modules.pop(mod.__name__, None)


NAMING_HOST = '''
class Shop:
    def order(self, n):
        total = n * 2
        return total  # TP:line


def go(n):
    return Shop().order(n)
'''


def naming_leg(c, wd):
    """The snapshot NAMES the tracepoint that fired: id, path, line, arguments and watches are those of the tracepoint as
    it was configured (sent by the service or registered in code) - not a reconstruction from what the agent needed of
    it. Each tracepoint of the list is configured on its own, through the real configuration service."""
    import sys
    from .. import rig as R
    mod, path, marks = R.write_host(wd, NAMING_HOST)
    base = path.rsplit('/', 1)[-1]
    line = marks['line']
    tps = [
        ('plain', {'id': 'n-plain', 'path': base, 'line': line, 'args': {}, 'watches': []}),
        ('condition', {'id': 'n-cond', 'path': base, 'line': line, 'args': {'condition': 'n > 0'}, 'watches': ['n']}),
        ('rate', {'id': 'n-rate', 'path': base, 'line': line, 'args': {'fire_count': '3', 'fire_period': '0'},
                  'watches': ['total', 'n + 1']}),
        ('frames', {'id': 'n-frames', 'path': base, 'line': line, 'args': {'frame_type': 'all_frame',
                                                                         'stack_type': 'stack'}, 'watches': []}),
        ('log', {'id': 'n-log', 'path': base, 'line': line, 'args': {'log_msg': 'total={total}'}, 'watches': []}),
        ('unknown-argument', {'id': 'n-own', 'path': base, 'line': line, 'args': {'ticket': 'OPS-17', 'owner': 'ben'},
                              'watches': []}),
        ('line-end', {'id': 'n-end', 'path': base, 'line': line, 'args': {'stage': 'line_end'}, 'watches': []}),
        ('method', {'id': 'n-method', 'path': base, 'line': line - 1, 'args': {'method_name': 'order'}, 'watches': ['n']}),
        ('method-conditional', {'id': 'n-mcond', 'path': base, 'line': line - 2,
                                'args': {'method_name': 'order', 'condition': 'n == 4', 'stage': 'method_start'},
                                'watches': []}),
        ('window', {'id': 'n-window', 'path': base, 'line': line, 'args': {'window_start': '0', 'window_end': '9999999999999'},
                    'watches': []}),
    ]
    try:
        for label, tp in tps:
            for how in ('service', 'registered'):
                rg = R.Rig()
                bad = None
                try:
                    if how == 'service':
                        rg.install_via_service([tp])
                        want_id = tp['id']
                    else:
                        want_id = rg.register(tp)
                    res = rg.run(mod.go, 4, only_file=path)
                    snaps = rg.snapshots()
                    if res != ('ok', 8) or rg.escaped:
                        bad = 'host changed: %r %r' % (res, rg.escaped)
                    elif len(snaps) != 1:
                        bad = '%d snapshots' % len(snaps)
                    else:
                        t = snaps[0].tracepoint
                        got = {'id': t.id, 'path': t.path, 'line': t.line_no, 'args': dict(t.args), 'watches': list(t.watches)}
                        want = {'id': want_id, 'path': tp['path'], 'line': tp['line'], 'args': dict(tp['args']),
                                'watches': list(tp['watches'])}
                        # arguments the tracepoint left out may be named with the documented value the agent used for
                        # them; every argument it WAS given is named as given
                        defaults = {'frame_type': 'single_frame', 'stack_type': 'stack', 'fire_count': '1', 'fire_period': '1000'}
                        if all(got['args'].get(k) == v for k, v in want['args'].items()) and all(
                                k in want['args'] or defaults.get(k) == v for k, v in got['args'].items()):
                            got['args'] = want['args']
                        diff = {k: (got[k], want[k]) for k in want if got[k] != want[k]}
                        if diff:
                            bad = 'names its tracepoint as %s' % ', '.join(
                                '%s=%r (configured: %r)' % (k, g, w) for k, (g, w) in sorted(diff.items()))
                finally:
                    rg.close()
                c.traces_validated += 1
                c.note_case(key=('naming', label, how), nontrivial=True)
                if bad:
                    p_ = c.save_replay({'direction': 'C2S', 'kind': 'naming', 'tracepoint': tp, 'configured_by': how, 'what': bad})
                    if c.violation('the snapshot of tracepoint %s (%s, configured by %s) %s' % (tp['id'], label, how, bad), p_) \
                            and len(c.violations) >= 8:
                        return
    finally:
        sys.modules.pop(mod.__name__, None)


def run(c):
    quick = c.tier == 'quick'
    rng = random.Random(c.seed)
    wd = tlc.scratch('c02_')
    c.rule = ('cases = (a) behaviours of Snapshot.tla (paused stack x frame_type x watches x tracepoints per location x '
              'time-budget expiry) sampled by tlc -simulate and materialised as real nested calls/methods in app and '
              'non-app files, snapshots compared with the spec state and an independent reading of the paused frames; '
              '(b) random object graphs: type name, value text, truncation and child names of every variable compared '
              'with the by-construction expectation; (c) ten tracepoints configured through the service and registered in code: '
              'the snapshot names the tracepoint as configured; non-trivial = stack depth >= 2 or several tracepoints / >= 3 nodes')
    c.assumptions = ['variable order on a frame, ids, hash text and durations are not compared',
                     'frames below the generated host functions (thread bootstrap) are compared with the reference '
                     'reading for file/function/line/class only']
    c.mc('Snapshot', mc_cfg(d=2, k=2), label='depth<=2, 2 tracepoints', must_cover=['Collect'])
    if not quick:
        c.mc('Snapshot', mc_cfg(d=3, k=1), label='depth<=3, 1 tracepoint')
    c.mc_expect_violation('Snapshot', mc_cfg(shared=True, d=1, k=2, invs=['Independent']), 'deviation SharedTable', what='Independent')
    sim = tlc.simulate('Snapshot', mc_cfg(d=3, k=2, cls=ALL_CLS), num=60 if quick else 10000, depth=12, seed=c.seed + 1)
    c.transitions += sim.generated
    replay_behaviours(c, sim.behaviours, wd, 's')
    # methods of objects whose truth value is False or cannot be taken (empty containers, array-likes)
    sim = tlc.simulate('Snapshot', mc_cfg(d=2, k=1, cls=('E', 'H')), num=16 if quick else 2000, depth=12, seed=c.seed + 2)
    c.transitions += sim.generated
    replay_behaviours(c, sim.behaviours, wd, 'e')
    # a second configuration in the same process sees the same files under the other application root
    c.mc_expect_violation('Snapshot', mc_cfg(d=2, k=1, lives=2, memo=True, invs=['FramesMatchStack']),
                          'deviation AppFlagMemoised', what='FramesMatchStack')
    r = c.mc('Snapshot', mc_cfg(d=2, k=1, lives=2, cls=('none',)), label='two configurations, depth<=2', dump=True,
             coverage=False)
    finals = [st for _, st in sorted(r.graph.states.items())
              if st['life'] == 2 and st['phase'] == 'run' and len(to_json(st['snaps'])) == len(to_json(st['tps']))
              and st['expire'] >= len(to_json(st['stack']))]
    if not finals:
        raise tlc.MachineryError('no finished two-configuration state in the Snapshot graph')
    mixed = [st for st in finals if len({f['app'] for f in to_json(st['stack'])}) == 2]
    pick = rng.sample(mixed, min(len(mixed), 14 if quick else 600)) + rng.sample(finals, min(len(finals), 6 if quick else 400))
    replay_behaviours(c, [[(None, None, st)] for st in pick], wd, 'l')
    values_leg(c, rng, wd, 300 if quick else 40000)
    scalar_watch_leg(c, wd)
    typed_objects_leg(c, wd)
    naming_leg(c, wd)


if __name__ == '__main__':
    core.main('C02', run)

"""C04 - rate limiting: fire_count, fire_period and window are never exceeded (spec/Limiter.tla)."""
import random
import sys

from .. import core, tlc
from .. import limiter_drv as L
from .. import sched as S
from ..tlaparse import to_json

INVS = ['CountBound', 'Spacing', 'WindowRespected', 'StatsAgree', 'LastIsLatest', 'TypeOK']
PROPS = ['NoSpuriousDenial', 'RejectedHitIsFree', 'ConditionGates', 'LastMovesForward']


def mc_cfg(configs, atomic=True, threads=2, maxnow=4, hits=3, resets=False):
    return dict(constants=dict(Threads=set(range(1, threads + 1)), MaxNow=maxnow, MaxHits=hits, MaxJump=1,
                               Configs=tlc.Lit('<- ' + configs), DefaultPeriod=2, Atomic=atomic,
                               ReinstallResets=resets),
                invariants=INVS, properties=PROPS, deadlock=False)


TRACE_CONSTS = dict(Threads={1, 2, 3}, MaxNow=100000, MaxHits=100000, MaxJump=100000, Configs=tlc.Lit('{}'),
                    DefaultPeriod=2, Atomic=True, ReinstallResets=False)


def model_check(c, quick):
    c.mc('MC_Limiter', mc_cfg('MCConfigsSmall' if quick else 'MCConfigsFull', threads=2, maxnow=4, hits=3),
         label='ideal, 2 threads', must_cover=['Tick', 'PreCheck', 'EvalCond', 'Reserve', 'Collect', 'Exit'])
    if not quick:
        c.mc('MC_Limiter', mc_cfg('MCConfigsSmall', threads=3, maxnow=3, hits=4), label='ideal, 3 threads')
    r = c.mc_expect_violation('MC_Limiter', mc_cfg('MCConfigsRace', atomic=False, threads=2, maxnow=2, hits=2),
                              label='deviation NonAtomicCheckRecord', what='CountBound')
    c.mc_expect_violation('MC_Limiter', mc_cfg('MCConfigsRace', threads=1, maxnow=2, hits=2, resets=True),
                          label='deviation ReinstallResets', what='CountBound')
    return r


def sequential_graph(c, quick):
    """1-thread model: the state graph is walked and every walk replayed into the real limiter."""
    r = c.mc('MC_Limiter', mc_cfg('MCConfigsSmall' if quick else 'MCConfigsFull', threads=1, maxnow=4, hits=4),
             label='sequential graph for replay', dump=True, coverage=False)
    return r.graph


def setback_leg(c, quick, rng, wd):
    """Limiter!SetBack: the wall clock is set back between (and, with 2 threads, during) hits. TLC checks every C04
    invariant and property under NextSetBack; the 1-thread graph is walked and replayed into the real limiter, the
    virtual clock following the model's - a limiter that measures the distance to the last fire without its sign, or
    forgets the last fire when time runs backwards, fires where the model refuses (or the other way round)."""
    cfg = mc_cfg('MCConfigsSetBack', threads=2, maxnow=3 if quick else 4, hits=3)
    cfg['next_'] = 'NextSetBack'
    c.mc('MC_Limiter', cfg, label='clock set back, 2 threads', must_cover=['SetBack', 'Reserve', 'Collect'])
    if not quick:
        for th, mn, h in ((3, 3, 4), (2, 5, 4)):       # 1.8 M and 1.2 M states, about 10 s each
            cfg = mc_cfg('MCConfigsSetBack', threads=th, maxnow=mn, hits=h)
            cfg['next_'] = 'NextSetBack'
            c.mc('MC_Limiter', cfg, label='clock set back, %d threads, clock 1..%d, %d hits' % (th, mn, h),
                 must_cover=['SetBack'])
    cfg = mc_cfg('MCConfigsSetBack', threads=1, maxnow=4, hits=4)
    cfg['next_'] = 'NextSetBack'
    r = c.mc('MC_Limiter', cfg, label='clock set back, sequential graph for replay', dump=True, coverage=False)
    before = c.traces_validated
    replay_sequential(c, r.graph, 120 if quick else 2500, rng, wd)
    c.extra['setback_walks_replayed'] = c.traces_validated - before


def replay_sequential(c, graph, n, rng, wd):
    mismatches = 0
    for walk in core.random_walks(graph, rng, n):
        cfg = to_json(walk[0][2]['cfg'])
        sysm = L.LimiterSystem(wd, cfg)
        try:
            steps = []
            pending = None
            ok = True
            for (a, args, st) in walk[1:]:
                if a in ('Advance', 'SetBackTo'):
                    sysm.rig.clock.set(st['now'])
                    steps.append(['Tick', st['now']])
                elif a == 'Reinstall':
                    if sysm.reinstall():
                        steps.append(['Reinstall'])
                elif a == 'Arrive':
                    pending = args[1]
                # a hit completes when the thread is idle again
                if pending is not None and all(v == 'idle' for v in st['pc'].values()):
                    res = sysm.hit(pending)
                    steps.append(['Hit', pending])
                    real = sysm.state()
                    exp = {'count': st['count'], 'last': st['last'], 'pushes': len(st['fires'])}
                    pending = None
                    if res != ('ok', L.COND_ARG[steps[-1][1]] + 1) or sysm.rig.escaped:
                        ok = False
                        what = 'host result changed or handler raised: %r %r' % (res, sysm.rig.escaped)
                    elif real != exp:
                        ok = False
                        what = 'after %s expected %s, implementation has %s' % (steps, exp, real)
                    if not ok:
                        break
            nhits = sum(1 for s in steps if s[0] == 'Hit')
            c.traces_validated += 1
            c.note_case(key=('seq', str(cfg), str(steps)), nontrivial=nhits >= 2)
            c.sample({'direction': 'S2C', 'cfg': cfg, 'steps': steps})
            if not ok:
                mismatches += 1
                path = c.save_replay({'direction': 'S2C', 'module': 'Limiter', 'cfg': cfg, 'steps': steps,
                                      'mismatch': what})
                c.violation(what, path)
                if mismatches >= 5:
                    return
        finally:
            sysm.close()


def history_trace(rng, cfg, wd, nhits, maxgap, gaps=None):
    """A long sequential hit history on the real code, recorded for TLC. gaps: a fixed list of time steps between
    the hits (every hit's condition holds where the settings allow) instead of random ones."""
    sysm = L.LimiterSystem(wd, cfg)
    try:
        with L.Recorder(sysm) as rec:
            now = 1
            kinds = L.cond_kinds(cfg)
            if gaps is not None:
                kinds = ['true'] if 'true' in kinds else kinds[:1]
            for h in range(nhits if gaps is None else len(gaps)):
                gap = rng.choice([0, 0, 1, 1, 2, 2, 3, maxgap]) if gaps is None else gaps[h]
                if gap:
                    now += gap
                    rec.tick(now)
                if h and (rng.random() < 0.2 or (gaps is not None and h % 3 == 0)):
                    rec.reinstall()       # the service sends a new configuration, this tracepoint unchanged in it
                sysm.hit(rng.choice(kinds))
                rec.quiet()
            return rec.trace(1), sysm.rig.escaped
    finally:
        sysm.close()


def window_args_leg(c, wd):
    """The time window given the documented way - tracepoint arguments window_start / window_end: a window that is over
    (an end of 1, in whatever unit), or has not begun (a start far in the future, in whatever unit), admits no collection."""
    from .. import rig as R
    for name, args in (('over', {'window_end': '1'}), ('not begun', {'window_start': str(10 ** 30)})):
        mod, path, marks = R.write_host(wd, L.HOST_SRC)
        rg = R.Rig()
        try:
            a = {'fire_count': '-1', 'fire_period': '0'}
            a.update(args)
            rg.install([{'id': 'tp-window', 'path': path.rsplit('/', 1)[-1], 'line': marks['hit'], 'args': a}])
            rg.run(mod.hit, 0, only_file=path)
            n = len(rg.snapshots())
        finally:
            rg.close()
            sys.modules.pop(mod.__name__, None)
        c.traces_validated += 1
        c.note_case(key=('window-args', name), nontrivial=True)
        if n:
            c.violation('a tracepoint whose time window (arguments %s) is %s collected %d snapshot(s)' % (args, name, n),
                        None, signature={'window': 'args-not-applied'})


MOVE_HOST = '''
def first(c):
    x = c + 1  # TP:first
    return x


def second(c):
    y = c + 2  # TP:second
    return y
'''


def moved_tracepoint_leg(c, wd):
    """A tracepoint (fire_count 1) collects once; the service then MOVES it to another line (same id, same arguments):
    at its new place it is a newly installed tracepoint - it collects once there; moved back, once again."""
    from .. import rig as R
    mod, path, marks = R.write_host(wd, MOVE_HOST)
    base = path.rsplit('/', 1)[-1]
    rg = R.Rig()
    try:
        got = []
        for place, fn in (('first', mod.first), ('second', mod.second), ('second', mod.second), ('first', mod.first)):
            rg.install([{'id': 'tp-moving', 'path': base, 'line': marks[place], 'args': {'fire_count': '1'}},
                        {'id': 'tp-other', 'path': 'elsewhere.py', 'line': 3 + len(got), 'args': {}}])
            n0 = len(rg.snapshots())
            rg.clock.set(10 * (len(got) + 1))
            rg.run(fn, 1, only_file=path)
            rg.run(fn, 1, only_file=path)
            got.append(len(rg.snapshots()) - n0)
        c.traces_validated += 1
        c.note_case(key=('moved-tracepoint',), nontrivial=True)
        # installed at `first`: 1; moved to `second`: 1; still at `second` in the next configuration (it stayed installed): 0;
        # moved back to `first`: 1
        if got != [1, 1, 0, 1]:
            p_ = c.save_replay({'kind': 'moved-tracepoint', 'collections': got, 'expected': [1, 1, 0, 1]})
            c.violation('a fire_count=1 tracepoint installed at one line, moved to another, kept there, moved back collected '
                        '%s times (two hits each), expected [1, 1, 0, 1]' % got, p_)
    finally:
        rg.close()
        sys.modules.pop(mod.__name__, None)


OVERTAKE_HOST = '''
OTHER = None


def meanwhile():
    """Called by the condition of the first hit: time passes and another thread hits the same line - and fires."""
    if OTHER is not None:
        OTHER()
    return True


def hit(c):
    x = c + 1  # TP:hit
    return x
'''


def overtaken_hit_leg(c, wd):
    """fire_count -1 and fire_period 0: every hit is wanted. A hit whose time was taken BEFORE another thread's later hit
    fired (it was still evaluating its condition) collects all the same."""
    import threading
    from .. import rig as R
    mod, path, marks = R.write_host(wd, OVERTAKE_HOST)
    base = path.rsplit('/', 1)[-1]
    rg = R.Rig()
    try:
        rg.install([{'id': 'tp-every', 'path': base, 'line': marks['hit'],
                     'args': {'fire_count': '-1', 'fire_period': '0', 'condition': 'meanwhile()'}}])
        rg.clock.set(10)
        state = {'nested': False}

        def other():
            if state['nested']:
                return
            state['nested'] = True
            rg.clock.set(12)            # time passes ...

            def second():
                state['second'] = rg.run(mod.hit, 100, only_file=path)
            th = threading.Thread(target=second)      # ... and another thread reaches the line, and fires
            th.start()
            th.join(30)
        mod.OTHER = other
        res = rg.run(mod.hit, 1, only_file=path)
        got = len(rg.snapshots())
        c.traces_validated += 1
        c.note_case(key=('overtaken-hit',), nontrivial=True)
        if res != ('ok', 2) or state.get('second') != ('ok', 101) or rg.escaped:
            p_ = c.save_replay({'kind': 'overtaken-hit', 'results': [repr(res), repr(state.get('second'))]})
            c.violation('overtaken hit: host changed / handler raised: %r %r %r' % (res, state.get('second'), rg.escaped), p_)
        elif got != 2:
            p_ = c.save_replay({'kind': 'overtaken-hit', 'collections': got, 'expected': 2})
            c.violation('fire_count=-1, fire_period=0: a hit whose time was taken before another thread\'s later hit fired '
                        'collected nothing (%d collections for 2 hits): every hit is within the limits' % got, p_)
    finally:
        mod.OTHER = None
        rg.close()
        sys.modules.pop(mod.__name__, None)


def multi_action_leg(c, wd):
    """The limits are kept PER ACTION of a tracepoint (snapshot, log, metric, span each count their own collections):
    a tracepoint with several actions and fire_count=2 is hit five times across three configurations of the service in
    which it is unchanged - every one of its actions performs exactly two collections."""
    from deepproto.proto.tracepoint.v1.tracepoint_pb2 import Metric, MetricType
    from .. import rig as R
    mod, path, marks = R.write_host(wd, MOVE_HOST)
    base = path.rsplit('/', 1)[-1]
    for label, args, with_metric in (
            ('snapshot+log+metric', {'fire_count': '2', 'fire_period': '0', 'log_msg': 'x is {c}'}, True),
            ('snapshot+metric', {'fire_count': '2', 'fire_period': '0'}, True),
            ('snapshot+span+metric', {'fire_count': '2', 'fire_period': '0', 'span': 'line'}, True),
            ('log+metric (no snapshot)', {'fire_count': '2', 'fire_period': '0', 'log_msg': 'c={c}', 'snapshot': 'no_collect'}, True),
            ('snapshot+log', {'fire_count': '2', 'fire_period': '0', 'log_msg': 'x is {c}'}, False)):
        plugin = R.RecPlugin(name='rec')
        rg = R.Rig(plugins=[plugin])
        try:
            metrics = [Metric(name='hits', type=MetricType.COUNTER)] if with_metric else []
            mine = {'id': 'tp-multi', 'path': base, 'line': marks['first'], 'args': dict(args), 'metrics': metrics}
            hits = 0
            for round_, nhits in enumerate((1, 2, 2)):
                tps = [dict(mine)]
                if round_ % 2 == 0:
                    tps.append({'id': 'tp-other-%d' % round_, 'path': 'elsewhere.py', 'line': 3 + round_, 'args': {}})
                rg.install(tps)
                for _ in range(nhits):
                    hits += 1
                    rg.clock.set(10 * hits)
                    rg.run(mod.first, hits, only_file=path)
            got = {'snapshot': len(rg.snapshots()),
                   'log': len([1 for k in plugin.calls if k[0] == 'log']),
                   'metric': len([1 for k in plugin.calls if k[0] == 'metric']),
                   'span': len(plugin.spans)}
            want = {'snapshot': 0 if args.get('snapshot') == 'no_collect' else 2, 'log': 2 if 'log_msg' in args else 0,
                    'metric': 2 if with_metric else 0, 'span': 2 if 'span' in args else 0}
            c.traces_validated += 1
            c.note_case(key=('multi-action', label), nontrivial=True)
            if got != want or rg.escaped:
                p_ = c.save_replay({'kind': 'multi-action', 'actions': label, 'args': args, 'collections': got, 'expected': want,
                                    'escaped': [repr(e) for e in rg.escaped]})
                c.violation('a fire_count=2 tracepoint with the actions %s, hit 5 times across 3 configurations in which it is '
                            'unchanged, performed %s collections, expected %s' % (label, got, want), p_)
        finally:
            rg.close()
    sys.modules.pop(mod.__name__, None)


def gate_schedules(c, cfgs, wd, line_level, max_preemptions, max_runs, nthreads=2):
    """Concurrent hits under the cooperative scheduler; every schedule's trace goes to TLC."""
    traces = []
    meta = []
    files = ('processor/context/action_context.py', 'api/tracepoint/trigger.py',
             'api/tracepoint/tracepoint_config.py') if line_level else ()
    for cfg in cfgs:
        holder = {}

        def make_run():
            sysm = L.LimiterSystem(wd, cfg, target='direct')
            sch = S.Scheduler(line_files=files)
            rec = L.Recorder(sysm, sched=sch, gates=not line_level)
            rec.__enter__()
            kinds = L.cond_kinds(cfg)
            for i in range(nthreads):
                k = kinds[0] if len(kinds) == 1 else 'true'
                sch.spawn('T%d' % (i + 1), lambda k=k: sysm.hit_direct(k))
            holder['cur'] = (sysm, rec)

            def finish(sched, schedule):
                rec.__exit__()
                rec.quiet()
                tr = rec.trace(nthreads)
                errs = [repr(m.error) for m in sched.threads.values() if m.error is not None]
                st = sysm.state()
                sysm.close()
                return tr, errs, st
            return sch, finish

        for schedule, (tr, errs, st) in S.explore(make_run, max_preemptions=max_preemptions, max_runs=max_runs):
            traces.append(tr)
            meta.append({'cfg': cfg, 'schedule': _compress(schedule), 'errors': errs, 'final': st})
    return traces, meta


def _compress(schedule):
    out = []
    for s in schedule:
        if out and out[-1][0] == s:
            out[-1][1] += 1
        else:
            out.append([s, 1])
    return out


def validate(c, traces, meta, kind):
    if not traces:
        return
    accepted, progress, r = tlc.validate_traces('Trace_Limiter', traces, constants=TRACE_CONSTS)
    c.states += r.distinct
    c.transitions += r.generated
    for i, tr in enumerate(traces):
        c.traces_validated += 1
        pushes = tr[-1].get('pushes', 0) if tr else 0
        c.note_case(key=(kind, str(meta[i])), nontrivial=sum(1 for e in tr if e.get('ev') == 'Arrive') >= 2)
        if meta[i].get('errors'):
            path = c.save_replay({'direction': 'C2S', 'module': 'Trace_Limiter', 'kind': kind, 'meta': meta[i],
                                  'trace': tr})
            c.violation('%s: exception escaped trace_call: %s' % (kind, meta[i]['errors']), path)
        elif i not in accepted:
            at = progress.get(i, 0)
            path = c.save_replay({'direction': 'C2S', 'module': 'Trace_Limiter', 'kind': kind, 'meta': meta[i],
                                  'trace': tr, 'rejected_at': at, 'next_event': tr[at - 1] if at - 1 < len(tr) else None})
            c.violation('%s trace rejected by Trace_Limiter at event %d: %s (meta %s)'
                        % (kind, at, tr[at - 1] if at - 1 < len(tr) else None, meta[i]), path)
    if traces:
        c.sample({'direction': 'C2S', 'kind': kind, 'meta': meta[0], 'trace_head': traces[0][:8]})


def apalache_leg(c):
    """An extra on top of TLC: Apalache discharges an inductive invariant that implies CountBound for ANY number of
    hits and any clock value (2 threads, four settings). Three runs: Init => IndInv, IndInv /\\ Next => IndInv',
    and the same induction step with the NonAtomicCheckRecord deviation, which must fail."""
    import os
    import shutil
    import subprocess
    import time
    if shutil.which('apalache-mc') is None:
        c.extra['apalache'] = 'apalache-mc not installed: step skipped'
        return
    wd = tlc.scratch('apa_')
    shutil.copy(os.path.join(tlc.SPEC, 'Limiter.tla'), wd)
    shutil.copy(os.path.join(tlc.SPEC, 'apalache', 'APA_Limiter.tla'), wd)
    runs = [('Init => IndInv', ['--cinit=CInit', '--init=Init', '--inv=IndInv', '--length=0'], True),
            ("IndInv /\\ Next => IndInv'", ['--cinit=CInit', '--init=IndInit', '--inv=IndInv', '--length=1'], True),
            ("IndInv /\\ NextSetBack => IndInv' (the clock may also be set back)",
             ['--cinit=CInit', '--init=IndInit', '--next=NextSetBack', '--inv=IndInv', '--length=1'], True),
            ('induction step with the deviation (must fail)', ['--cinit=CInitDeviation', '--init=IndInit',
                                                               '--inv=IndInv', '--length=1'], False)]
    out = []
    for label, args, expect_ok in runs:
        t0 = time.time()
        p = subprocess.run(['apalache-mc', 'check'] + args + ['--out-dir=' + os.path.join(wd, 'out'), 'APA_Limiter.tla'],
                           cwd=wd, stdout=subprocess.PIPE, stderr=subprocess.STDOUT, timeout=1800)
        text = p.stdout.decode('utf-8', 'replace')
        ok = 'EXITCODE: OK' in text
        violated = 'EXITCODE: ERROR (12)' in text
        out.append({'obligation': label, 'ok': ok, 'violated': violated, 'wall_s': round(time.time() - t0, 1)})
        if not ok and not violated:
            raise tlc.MachineryError('apalache failed on %s:\n%s' % (label, text[-1500:]))
        if expect_ok and not ok:
            c.violation('Apalache: %s does not hold for Limiter' % label,
                        c.save_replay({'module': 'APA_Limiter', 'obligation': label, 'output': text[-3000:]}))
        if not expect_ok and ok:
            raise tlc.MachineryError('apalache: the induction step holds even with the deviation (vacuous invariant)')
    c.extra['apalache'] = out


RACE_CFGS = [
    {'ck': 'int', 'cv': 1, 'pk': 'int', 'pv': 0, 'ws': 0, 'we': 0, 'cm': 'none'},
    {'ck': 'int', 'cv': 2, 'pk': 'int', 'pv': 2, 'ws': 0, 'we': 0, 'cm': 'none'},
    {'ck': 'absent', 'cv': 0, 'pk': 'absent', 'pv': 0, 'ws': 0, 'we': 0, 'cm': 'expr'},
    {'ck': 'int', 'cv': -1, 'pk': 'int', 'pv': 1, 'ws': 0, 'we': 0, 'cm': 'none'},
    {'ck': 'int', 'cv': 2, 'pk': 'int', 'pv': 0, 'ws': 0, 'we': 0, 'cm': 'none'},      # both concurrent hits are allowed
]


def run(c):
    quick = c.tier == 'quick'
    rng = random.Random(c.seed)
    wd = tlc.scratch('c04_')
    c.rule = ('cases = (a) walks through the 1-thread Limiter state graph replayed into the real limiter with state '
              'comparison after every hit, (b) long random hit histories and (c) every 2-thread schedule (method-level '
              'gates; line-level with bounded preemptions) recorded and validated by Trace_Limiter; non-trivial = at '
              'least two hits on the tracepoint; distinct by (settings, steps/schedule)')
    c.assumptions = ['time is the virtual clock (time_ns replaced in the modules that import it)',
                     'windows are set on LocationAction directly (build_trigger does not forward window_*)',
                     'a hit overtaken by a later-stamped hit may be denied (conservative spacing)']
    model_check(c, quick)
    graph = sequential_graph(c, quick)
    replay_sequential(c, graph, 150 if quick else 2500, rng, wd)
    # long recorded histories
    cfgs = sorted((to_json(graph.states[s]['cfg']) for s in graph.init), key=str)
    traces, meta = [], []
    for i in range(20 if quick else 200):
        cfg = rng.choice(cfgs)
        tr, esc = history_trace(rng, cfg, wd, rng.choice([5, 20, 60] if quick else [20, 100, 200]), 7)
        traces.append(tr)
        meta.append({'cfg': cfg, 'errors': esc, 'hits': sum(1 for e in tr if e.get('ev') == 'Arrive')})
    # bursts: several hits within one clock reading, for every settings record (coarse clocks, tight loops)
    for cfg in cfgs:
        for gaps in ([0, 0, 0, 0, 1, 0, 0, 2, 0], [0, 1, 1, 0, 0, 7, 0, 0]):
            tr, esc = history_trace(rng, cfg, wd, 0, 0, gaps=gaps)
            traces.append(tr)
            meta.append({'cfg': cfg, 'errors': esc, 'hits': len(gaps), 'gaps': gaps})
    # the same unparsable text given for one setting, then for the other, in one process (both orders): each setting
    # falls back to its own default whatever was parsed before
    unp = [x for x in cfgs if 'bad' in (x['ck'], x['pk'])]
    order = sorted(unp, key=lambda x: (x['pk'] != 'bad', str(x)))
    for cfg in order + order[::-1]:
        tr, esc = history_trace(rng, cfg, wd, 0, 0, gaps=[0, 1, 0, 2, 1, 1, 3])
        traces.append(tr)
        meta.append({'cfg': cfg, 'errors': esc, 'hits': 7, 'kind': 'unparsable-text-shared'})
    # the wall clock set back between the hits (Limiter!SetBack), every settings record
    for cfg in cfgs:
        for gaps in ([0, 3, -2, 1, 1, 3, -4, 2, 0, 5], [2, 2, -3, 0, 1, 1, 1, 6, -5, 1]):
            tr, esc = history_trace(rng, cfg, wd, 0, 0, gaps=gaps)
            traces.append(tr)
            meta.append({'cfg': cfg, 'errors': esc, 'hits': len(gaps), 'gaps': gaps, 'kind': 'clock-set-back'})
    validate(c, traces, meta, 'history')
    setback_leg(c, quick, rng, wd)
    window_args_leg(c, wd)
    moved_tracepoint_leg(c, wd)
    multi_action_leg(c, wd)
    overtaken_hit_leg(c, wd)
    # concurrent schedules
    traces, meta = gate_schedules(c, RACE_CFGS, wd, line_level=False, max_preemptions=8, max_runs=None)
    validate(c, traces, meta, 'gate-schedule')
    traces, meta = gate_schedules(c, [RACE_CFGS[0], RACE_CFGS[3], RACE_CFGS[4]] if quick else RACE_CFGS, wd, line_level=True,
                                  max_preemptions=1 if quick else 2, max_runs=150 if quick else 3000)
    validate(c, traces, meta, 'line-schedule')
    if not quick:
        traces, meta = gate_schedules(c, RACE_CFGS[:2], wd, line_level=False, max_preemptions=3, max_runs=2000,
                                      nthreads=3)
        validate(c, traces, meta, 'gate-schedule-3')
        apalache_leg(c)


if __name__ == '__main__':
    core.main('C04', run)

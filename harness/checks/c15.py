"""C15 - deferred work (spans, captures) is completed exactly once, in its own thread (spec/Dispatch.tla)."""
import random

from .. import core, tlc
from . import c03


def L(i, f, m, span):
    return dict(id=i, kind='line', file=f, line=m, span=span)


def M(i, f, name, span):
    return dict(id=i, kind='method', file=f, name=name, line=0, span=span)


# shapes that are easy to get wrong: back-to-back deferring lines, a deferring last line under a method span,
# recursion, generators, exceptions through several frames, the same function on two threads
CURATED = [
    ([L(1, 'a', 'f_first', 'line'), L(2, 'a', 'f_second', 'capture'), L(3, 'a', 'f_third', 'line')],
     [[('a.f', [('line',)])]]),
    ([L(1, 'a', 'f_first', 'line'), L(2, 'a', 'f_second', 'line'), L(3, 'a', 'f_third', 'line'), M(4, 'a', 'f', 'method')],
     [[('a.f', [('line',), ('line',)])], [('a.f', [])]]),
    ([L(1, 'a', 'f_plain', 'line'), L(2, 'a', 'f_plain', 'capture')], [[('a.f', [('line',), ('line',), ('line',)])]]),
    ([M(1, 'a', 'f', 'method'), L(2, 'a', 'f_last', 'line'), L(3, 'a', 'f_last', 'capture')],
     [[('a.f', [('call', 'a.g', [])])], [('a.f', [])], [('a.g', [])]]),
    ([M(1, 'a', 'f', 'method'), L(2, 'a', 'f_call', 'line')],
     [[('a.f', [('call', 'a.f', [('call', 'a.f', [])]), ('line',)])]]),
    ([M(1, 'a', 'gen', 'method'), L(2, 'a', 'gen_yield', 'line'), L(3, 'a', 'gen_first', 'line')],
     [[('a.f', [('gen', 2), ('gen', 1)])]]),
    ([M(1, 'a', 'f', 'method'), M(2, 'b', 'g', 'method'), L(3, 'b', 'g_first', 'line')],
     [[('a.f', [('try', 'b.g', [('call', 'a.g', [('raise',)])]), ('call', 'b.g', [('raise',)])])]]),
    ([M(1, 'a', 'f', 'method'), L(2, 'a', 'f_second', 'line'), L(3, 'a', 'f_last', 'line')],
     [[('a.f', [('line',)]), ('a.f', [('line',)])], [('a.f', [])], [('a.f', [])]]),
    # the service removes every tracepoint (or all but one) while spans opened by them are still pending
    ([M(1, 'a', 'f', 'method'), L(2, 'a', 'f_second', 'line'), L(3, 'a', 'f_last', 'line')],
     [[('a.f', [('line',), ('cfg', 0), ('line',)])], [('a.f', [('cfg', 255), ('line',)])]]),
    ([M(1, 'a', 'f', 'method'), M(2, 'a', 'g', 'method')],
     [[('a.f', [('call', 'a.g', [('cfg', 1), ('line',)]), ('cfg', 0), ('call', 'a.g', [])])]]),
]


DIRECT_HOST = '''import sys

H = None


def work(tag):
    H.trace_call(sys._getframe(), 'call', None)
    a = 1
    H.trace_call(sys._getframe(), 'line', None)  # TP:w1
    b = 2
    H.trace_call(sys._getframe(), 'line', None)  # TP:w2
    c = 3
    H.trace_call(sys._getframe(), 'line', None)  # TP:w3
    H.trace_call(sys._getframe(), 'return', tag)
    return tag
'''


def line_level_leg(c, wd, max_preemptions, max_runs):
    """Two threads deliver their own events to the real handler (the host function calls trace_call itself), the
    cooperative scheduler preempts at every line of trigger_handler.py / thread_local.py: whatever the interleaving,
    every span is closed once, by the thread that opened it, and nothing stays pending."""
    import threading
    from .. import rig as R
    from .. import sched as S
    mod, path, marks = R.write_host(wd, DIRECT_HOST)
    base = path.rsplit('/', 1)[-1]
    shown = [0]

    def make_run():
        plugin = R.role_plugin('sp', {'span'})
        rg = R.Rig(plugins=[plugin])
        inf = {'fire_count': '-1', 'fire_period': '0', 'snapshot': 'no_collect'}
        rg.install([dict(id='m', path=base, line=0, args=dict(inf, span='method', method_name='work')),
                    dict(id='l1', path=base, line=marks['w1'], args=dict(inf, span='line')),
                    dict(id='l2', path=base, line=marks['w2'], args=dict(inf, span='line'))])
        mod.H = rg.handler
        sch = S.Scheduler(line_files=('deep/processor/trigger_handler.py', 'deep/thread_local.py'))
        idents = {}
        results = {}

        def body(tag):
            idents[tag] = threading.get_ident()
            try:
                results[tag] = mod.work(tag)
            except BaseException as ex:
                results[tag] = repr(ex)
        for tag in ('A', 'B'):
            sch.spawn(tag, lambda tag=tag: body(tag))

        def finish(sched, schedule):
            problems = []
            for tag in ('A', 'B'):
                if results.get(tag) != tag:
                    problems.append('host thread %s got %r' % (tag, results.get(tag)))
            for sp in plugin.spans:
                opener = [t for t, i in idents.items() if i == sp.open_thread]
                if sp.closed != 1:
                    problems.append('span %s opened by thread %s was closed %d times' % (sp.tp_id, opener, sp.closed))
                elif sp.close_threads[0] != sp.open_thread:
                    problems.append('span %s opened by thread %s was closed by another thread' % (sp.tp_id, opener))
            if len(plugin.spans) != 6:
                problems.append('%d spans opened, expected 6' % len(plugin.spans))
            store = getattr(type(rg.handler._callbacks), '_ThreadLocal__store', {})
            left = {t: len(store[i]) for t, i in idents.items() if i in store and store[i]}
            for i in idents.values():
                store.pop(i, None)
            if left:
                problems.append('pending callback entries left after the threads ended: %s' % left)
            rg.close()
            return problems
        return sch, finish

    n = 0
    for schedule, problems in S.explore(make_run, max_preemptions=max_preemptions, max_runs=max_runs):
        n += 1
        c.traces_validated += 1
        c.note_case(key=('line-schedule', str(schedule)), nontrivial=True)
        if problems:
            comp = []
            for s_ in schedule:
                if comp and comp[-1][0] == s_:
                    comp[-1][1] += 1
                else:
                    comp.append([s_, 1])
            p_ = c.save_replay({'direction': 'C2S', 'kind': 'line-schedule', 'schedule': comp, 'problems': problems})
            c.violation('two threads, schedule %s: %s' % (comp, problems[:2]), p_)
            break
    import sys
    sys.modules.pop(mod.__name__, None)
    c.extra['line_schedules'] = n


SECOND_AGENT_HOST = '''
HOOK = None


def inner(n):
    return n * 2


def outer(n):
    x = inner(n) + 1  # TP:x
    if HOOK is not None:
        HOOK()
    return x
'''


def refused_handover_leg(c, wd):
    """A span and a snapshot opened by the SAME event, the hand-over of the snapshot refused (delivery was closed by a
    shutdown on another thread): whichever way the snapshot is handed over - at once (default stage) or when the line /
    the function ends (capture stages) - the span is still closed once, and nothing reaches the application."""
    import sys
    from .. import rig as R
    from deep.task import IllegalStateException
    mod, path, marks = R.write_host(wd, SECOND_AGENT_HOST)
    base = path.rsplit('/', 1)[-1]
    inf = {'fire_count': '-1', 'fire_period': '0'}
    for label, tps in (
            ('one tracepoint: snapshot at once + line span', [dict(id='t', line=marks['x'], args=dict(inf, span='line'))]),
            ('one tracepoint: snapshot at once + method span',
             [dict(id='t', line=0, args=dict(inf, span='method', method_name='outer'))]),
            ('snapshot tracepoint before a span tracepoint',
             [dict(id='t1', line=marks['x'], args=dict(inf)), dict(id='t2', line=marks['x'], args=dict(inf, span='line', snapshot='no_collect'))]),
            ('one tracepoint: line capture + line span', [dict(id='t', line=marks['x'], args=dict(inf, span='line', stage='line_capture'))])):
        plugin = R.role_plugin('rec', {'span'})
        rg = R.Rig(plugins=[plugin])
        try:
            rg.install([dict(t, path=base) for t in tps])
            rg.push.fail = IllegalStateException()
            res = rg.run(mod.outer, 4, only_file=path)
            spans = [(s_.name, s_.closed) for s_ in plugin.spans]
            bad = None
            if res != ('ok', 9) or rg.escaped:
                bad = 'host changed / handler raised: %r %r' % (res, rg.escaped)
            elif len(spans) != 1 or spans[0][1] != 1:
                bad = 'spans (name, times closed): %s - one was to be opened and closed once' % (spans,)
        finally:
            rg.close()
        c.traces_validated += 1
        c.note_case(key=('refused-handover', label), nontrivial=True)
        if bad:
            p_ = c.save_replay({'kind': 'refused-handover', 'tracepoints': label, 'what': bad})
            c.violation('snapshot hand-over refused (%s): %s' % (label, bad), p_)
    sys.modules.pop(mod.__name__, None)


RECURSION_HOST = '''
def fact(n):
    if n <= 1:
        return 1
    return n * fact(n - 1)


def down(n):
    if n == 0:
        raise ValueError('bottom')
    return down(n - 1)
'''


def recursion_capture_leg(c, wd):
    """A captured result is the value returned by THAT invocation - under recursion. (a) every level opens a deferred
    snapshot (fire_count -1): each carries its own level's result. (b) only the outermost invocation opens one
    (fire_count 1): it carries the outermost result - not that of the first inner invocation to return."""
    import sys
    from .. import rig as R
    mod, path, marks = R.write_host(wd, RECURSION_HOST)
    base = path.rsplit('/', 1)[-1]
    for label, count, want in (('every level opens', '-1', ['1', '2', '6']), ('only the outermost opens', '1', ['6'])):
        plugin = R.role_plugin('rec', {'span'})
        rg = R.Rig(plugins=[plugin])
        try:
            rg.install([dict(id='t-cap', path=base, line=0, args={'fire_count': count, 'fire_period': '0',
                                                                   'stage': 'method_capture', 'method_name': 'fact'}),
                        dict(id='t-span', path=base, line=0, args={'fire_count': count, 'fire_period': '0', 'span': 'method',
                                                                    'method_name': 'fact', 'snapshot': 'no_collect'})])
            res = rg.run(mod.fact, 3, only_file=path)
            got = sorted(s_.var_lookup[w.result.vid].value for s_ in rg.snapshots() for w in s_.watches
                         if w.source == 'CAPTURE' and w.result is not None and w.expression == 'return')
            spans = sorted(s_.closed for s_ in plugin.spans)
            bad = None
            if res != ('ok', 6) or rg.escaped:
                bad = 'host changed / handler raised: %r %r' % (res, rg.escaped)
            elif got != sorted(want):
                bad = 'captured return values %s, the invocations returned %s' % (got, sorted(want))
            elif spans != [1] * len(want):
                bad = 'spans closed %s times each' % spans
        finally:
            rg.close()
        c.traces_validated += 1
        c.note_case(key=('recursion-capture', label), nontrivial=True)
        if bad:
            p_ = c.save_replay({'kind': 'recursion-capture', 'case': label, 'what': bad})
            c.violation('method capture on a recursive function (%s): %s' % (label, bad), p_,
                        signature={'capture': 'nested-same-name'} if count == '1' else None)
    # (c) an exception that propagates through the recursion: every level's deferred snapshot carries the exception
    plugin = R.role_plugin('rec', {'span'})
    rg = R.Rig(plugins=[plugin])
    try:
        rg.install([dict(id='t-cap', path=base, line=0, args={'fire_count': '-1', 'fire_period': '0',
                                                               'stage': 'method_capture', 'method_name': 'down'})])
        res = rg.run(mod.down, 3, only_file=path)
        kinds = sorted(w.expression for s_ in rg.snapshots() for w in s_.watches if w.source == 'CAPTURE')
        bad = None
        if res[0] != 'exc' or rg.escaped:
            bad = 'host changed / handler raised: %r %r' % (res, rg.escaped)
        elif kinds != ['exception'] * 4:
            bad = 'the four invocations all raised ValueError, their deferred snapshots captured %s' % kinds
    finally:
        rg.close()
    c.traces_validated += 1
    c.note_case(key=('recursion-capture', 'propagating exception'), nontrivial=True)
    if bad:
        p_ = c.save_replay({'kind': 'recursion-capture', 'case': 'propagating exception', 'what': bad})
        c.violation('method capture on a recursive function (an exception propagates through every level): %s' % bad, p_,
                    None)
    sys.modules.pop(mod.__name__, None)


def second_agent_leg(c, wd):
    """What one agent has pending for a thread is that agent's: while a spanned / captured function is running, a SECOND
    agent comes and goes on the same thread (a library that starts its own agent lazily; a test fixture) - constructed
    only, started, or started and shut down again. The first agent's span is still closed once and its deferred
    snapshot still delivered, with the function's own return value."""
    import sys
    from .. import rig as R
    from deep.processor.trigger_handler import TriggerHandler
    mod, path, marks = R.write_host(wd, SECOND_AGENT_HOST)
    base = path.rsplit('/', 1)[-1]
    inf = {'fire_count': '-1', 'fire_period': '0'}
    for label in ('no second agent', 'constructed', 'started and shut down', 'started'):
        plugin = R.role_plugin('rec', {'span'})
        rg = R.Rig(plugins=[plugin])
        other = R.Rig()
        made = []

        def hook(label=label):
            if label == 'no second agent':
                return
            h2 = TriggerHandler(other.cfg, other.push)
            made.append(h2)
            if label != 'constructed':
                before = sys.gettrace()
                h2.start()
                if label == 'started and shut down':
                    h2.shutdown()
                else:
                    sys.settrace(before)      # (this run goes on under the harness's trace function)
        try:
            rg.install([dict(id='t-span', path=base, line=0, args=dict(inf, span='method', method_name='outer', snapshot='no_collect')),
                        dict(id='t-cap', path=base, line=0, args=dict(inf, stage='method_capture', method_name='outer'))])
            mod.HOOK = hook
            res = rg.run(mod.outer, 4, only_file=path)
            bad = None
            spans = [(s_.name, s_.closed) for s_ in plugin.spans]
            snaps = rg.snapshots()
            caps = [(w.expression, snaps[0].var_lookup[w.result.vid].value) for w in snaps[0].watches
                    if w.source == 'CAPTURE' and w.result is not None] if snaps else []
            if res != ('ok', 9) or rg.escaped:
                bad = 'host changed / handler raised: %r %r' % (res, rg.escaped)
            elif len(spans) != 1 or spans[0][1] != 1:
                bad = 'the span of the function: %s (opened once, to be closed once)' % (spans,)
            elif len(snaps) != 1 or caps != [('return', '9')]:
                bad = 'the deferred snapshot: %d delivered, captured %s (expected the return value 9)' % (len(snaps), caps)
        finally:
            mod.HOOK = None
            for h2 in made:
                try:
                    h2.shutdown()
                except BaseException:
                    pass
            other.close()
            rg.close()
        c.traces_validated += 1
        c.note_case(key=('second-agent', label), nontrivial=True)
        if bad:
            p_ = c.save_replay({'kind': 'second-agent', 'second_agent': label, 'what': bad})
            c.violation('a second agent %s on the thread while a spanned and captured function runs: %s' % (label, bad), p_)
    sys.modules.pop(mod.__name__, None)


def run(c):
    quick = c.tier == 'quick'
    rng = random.Random(c.seed)
    wd = tlc.scratch('c15_')
    c.rule = ('cases = live executions of script-driven host programs with line/method SPAN tracepoints (nested, on a '
              "function's last line, in recursion, generators, exception unwinding, threads with reused idents); a "
              'recording span processor logs every open/close per trace event; Trace_Dispatch judges ExactlyOnce, '
              'ClosedWhenInvocationEnds, SameThread, NothingLeft on every state; non-trivial = at least 2 spans closed')
    c.assumptions = ['a span may be closed by any later event of its thread up to the end of the opening invocation '
                     '(the property window), the matching algorithm itself is not pinned']
    c.mc('MC_Dispatch', c03.mc_cfg(idents=(1,), ev=6), label='process-all, 1 thread',
         must_cover=['EvCall', 'EvLine', 'EvReturn', 'EvException'])
    c.mc('MC_Dispatch', c03.mc_cfg(idents=(1, 2), fns='MCFnsOne', tps='MCTpSetsSpans', lines=(1,), ev=6, depth=2),
         label='spans, 2 idents with reuse', must_cover=['ThreadStart', 'ThreadEnd'])
    c.mc_expect_violation('MC_Dispatch', c03.mc_cfg(top=True, idents=(1,), fns='MCFnsOne', tps='MCTpSetsSpans',
                                                    lines=(1,), ev=4, depth=1, invs=['ClosedWhenInvocationEnds']),
                          'deviation TopOnly', what='ClosedWhenInvocationEnds')
    # 70 openings pending at once on one thread (a chain of 80 distinct functions, a method span on the first 70)
    deep = ([M(i + 1, 'a', 'chain_%d' % i, 'method') for i in range(70)], [[('a.chain_0', [])]])
    # a deferred snapshot and a span opened by the same event; when the invocation ends the hand-over of the snapshot is
    # refused (delivery was closed meanwhile): the span is completed all the same
    refused = ([dict(M(1, 'a', 'g', 'capture'), refuse_push=True), M(2, 'a', 'g', 'method')],
               [[('a.f', [('call', 'a.g', [('line',)]), ('line',)])]])
    traces, meta = c03.run_scenarios(c, rng, wd, 60 if quick else 1500, 0.8, 'spans', 's', curated=CURATED + [deep, refused])
    c03.validate(c, traces, meta, lambda m: m['closes'] >= 2)
    c.extra['spans_closed'] = sum(m['closes'] for m in meta)
    # capture tracepoints (deferred snapshots): completed once, on their thread, with the opening invocation's result
    traces, meta = c03.run_scenarios(c, rng, wd, 60 if quick else 1500, 0.8, 'captures', 'k', capture=True,
                                     curated=[([M(1, 'a', 'f', 'capture')], [[('a.f', [('try', 'a.g', [('raise',)]), ('line',)])]]),
                                              ([M(1, 'a', 'f', 'capture')], [[('a.f', [('call', 'a.f', [('line',)])])]]),
                                              ([M(1, 'a', 'f', 'capture')], [[('a.f', [('line',), ('cfg', 0), ('line',)])]]),
                                              ([M(1, 'a', 'g', 'capture'), L(2, 'a', 'f_call', 'capture')],
                                               [[('a.f', [('call', 'a.g', [('line',)]), ('try', 'a.g', [('raise',)])])]])])
    c03.validate(c, traces, meta, lambda m: m['closes'] >= 1)
    c.extra['captures_completed'] = sum(m['closes'] for m in meta)
    recursion_capture_leg(c, wd)
    second_agent_leg(c, wd)
    refused_handover_leg(c, wd)
    line_level_leg(c, wd, 1 if quick else 2, 700 if quick else 6000)     # (700: every schedule with one forced switch)


if __name__ == '__main__':
    core.main('C15', run)

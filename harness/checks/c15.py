"""C15 - deferred work (spans, captures) is completed exactly once, in its own thread (spec/Dispatch.tla)."""
import random

from .. import core, tlc
from . import c03


def run(c):
    quick = c.tier == 'quick'
    rng = random.Random(c.seed)
    wd = tlc.scratch('c15_')
    c.rule = ('cases = live executions of script-driven host programs with line/method SPAN tracepoints (nested, on a '
              "function's last line, in recursion, generators, exception unwinding, threads with reused idents); a "
              'recording span processor logs every open/close per trace event; Trace_Dispatch judges ExactlyOnce, '
              'ClosedWhenInvocationEnds, SameThread, NothingLeft on every state; non-trivial = at least 2 spans closed')
    c.assumptions = ['a span may be closed by any later event of its thread up to the end of the opening invocation '
                     '(the property window), the matching algorithm itself is not pinned']
    c.mc('MC_Dispatch', c03.mc_cfg(idents=(1,), ev=6), label='process-all, 1 thread',
         must_cover=['EvCall', 'EvLine', 'EvReturn', 'EvException'])
    c.mc('MC_Dispatch', c03.mc_cfg(idents=(1, 2), fns='MCFnsOne', tps='MCTpSetsSpans', lines=(1,), ev=6, depth=2),
         label='spans, 2 idents with reuse', must_cover=['ThreadStart', 'ThreadEnd'])
    c.mc_expect_violation('MC_Dispatch', c03.mc_cfg(top=True, idents=(1,), fns='MCFnsOne', tps='MCTpSetsSpans',
                                                    lines=(1,), ev=4, depth=1, invs=['ClosedWhenInvocationEnds']),
                          'deviation TopOnly', what='ClosedWhenInvocationEnds')
    traces, meta = c03.run_scenarios(c, rng, wd, 60 if quick else 1500, 0.8, 'spans', 's')
    c03.validate(c, traces, meta, lambda m: m['closes'] >= 2)
    c.extra['spans_closed'] = sum(m['closes'] for m in meta)
    # capture tracepoints (deferred snapshots): completed once, on their thread, with the opening invocation's result
    traces, meta = c03.run_scenarios(c, rng, wd, 60 if quick else 1500, 0.8, 'captures', 'k', capture=True)
    c03.validate(c, traces, meta, lambda m: m['closes'] >= 1)
    c.extra['captures_completed'] = sum(m['closes'] for m in meta)


if __name__ == '__main__':
    core.main('C15', run)

"""C03 - trigger placement: actions fire at exactly the configured locations (spec/Dispatch.tla)."""
import random

from .. import core, tlc
from .. import dispatch_drv as D
from .. import hostprog as H

MC_INVS = ['Placement', 'ExactlyOnce', 'ClosedWhenInvocationEnds', 'SameThread', 'NothingLeft']
TR_INVS = ['ExactlyOnce', 'ClosedWhenInvocationEnds', 'SameThread', 'NothingLeftItems', 'NotBeforeItems']
# (placement on traces: enforced event by event in Trace_Dispatch!TrEvent - fired = Matching under the configuration in force)
TRACE_CONSTS = dict(Idents=set(range(1, 13)), Fns=tlc.Lit('{}'), Lines=tlc.Lit('{}'), TpSets=tlc.Lit('{}'),
                    MaxEvents=1000000, MaxDepth=100000, MaxGen=100000, TopOnly=False,
                    IdleFramesBlind=True, ReinstallMay=True)       # traces are judged against what the code does; C03 judges them a second
                                                # time against the property as stated (validate(..., ideal=True))

LINE_MARKS = [('a', 'f_first'), ('a', 'f_second'), ('a', 'f_third'), ('a', 'f_second'), ('a', 'f_call'), ('a', 'f_plain'), ('a', 'f_last'), ('a', 'g_first'), ('a', 'g_last'),
              ('b', 'f_first'), ('b', 'f_last'), ('b', 'g_last'), ('a', 'gen_first'), ('a', 'gen_yield'),
              ('a', 'ktag'), ('a', 'kctag'), ('a', 'kf_first'), ('a', 'kf_last')]
METHODS = [('a', 'f'), ('a', 'g'), ('b', 'f'), ('b', 'g'), ('a', 'gen'), ('a', 'nosuch'),
           ('a', 'kf'), ('a', 'en')]       # names of which other function names are a suffix (f) or a prefix/suffix part (gen)


def mc_cfg(top=False, idents=(1, 2), fns='MCFns', tps='MCTpSets', lines=(1, 2), ev=6, depth=2, invs=MC_INVS, blind=False, reinstall=False):
    return dict(constants=dict(Idents=set(idents), Fns=tlc.Lit('<- ' + fns), Lines=set(lines),
                               TpSets=tlc.Lit('<- ' + tps), MaxEvents=ev, MaxDepth=depth, MaxGen=2, TopOnly=top,
                               IdleFramesBlind=blind, ReinstallMay=reinstall),
                invariants=invs, properties=['NoMiss', 'NoActionElsewhere'], deadlock=False)


def random_tps(rng, span_bias, capture=False):
    tps = []
    n = rng.randint(1, 5)
    for i in range(n):
        span = 'none'
        if rng.random() < span_bias:
            span = 'x'
        if rng.random() < 0.6:
            f, m = rng.choice(LINE_MARKS)
            if tps and rng.random() < 0.3:
                prev = [t for t in tps if t['kind'] == 'line']
                if prev:
                    f, m = prev[0]['file'], prev[0]['line']       # two tracepoints on one line
            tps.append(dict(id=i + 1, kind='line', file=f, line=m,
                            span=('capture' if capture else 'line') if span == 'x' else 'none'))
            if rng.random() < 0.35:
                # a sibling on the same line whose action always fails; listed FIRST so it is processed first
                tps.insert(len(tps) - 1, dict(id=100 + i, kind='line', file=f, line=m, span='none', faulty=True))
        else:
            f, name = rng.choice(METHODS)
            tps.append(dict(id=i + 1, kind='method', file=f, name=name, line=0,
                            span=('capture' if capture else 'method') if span == 'x' else 'none'))
    # some of them are registered in code instead of coming from the service: in force alongside the service's, whatever
    # the service sends later
    for t in tps:
        if not t.get('faulty') and rng.random() < 0.25:
            t['reg'] = True
    return tps


def random_plan(rng):
    plan = []
    for _ in range(rng.randint(1, 3)):
        stage = []
        for _ in range(rng.choice([1, 1, 2])):
            stage.append((rng.choice(['a.f', 'a.g', 'b.f']), H.random_script(rng)))
        plan.append(stage)
    return plan


def run_scenarios(c, rng, wd, n, span_bias, kind, tagbase, capture=False, curated=()):
    traces, meta = [], []
    for i in range(n + len(curated)):
        if i < len(curated):
            tps, plan = curated[i]
        else:
            tps = random_tps(rng, span_bias, capture)
            plan = random_plan(rng)
        sc = D.Scenario(wd, '%s%d' % (tagbase, i), tps)
        try:
            ref = sc.reference(plan)
            sc.run(plan)
            tr = sc.trace()
            problems = []
            known, known_caught = [], []
            if sc.results != ref:
                problems.append('host results changed: with agent %s, without %s' % (sc.results, ref))
            esc = [r for r in sc.records if r.get('escaped')]
            if esc:
                problems.append('trace_call raised: %s' % esc[:2])
            if any(r['ev'] == 'stray' for r in sc.records):
                problems.append('agent effect outside any trace event')
            for tag, text in sc.capture_problems():
                if tag == 'result-nested':
                    known.append(text)
                elif tag == 'result-caught':
                    known_caught.append(text)
                else:
                    problems.append(text)
            problems += sc.span_problems()
            if sc.leftover:
                problems.append('pending callback entries left in the shared store after all threads ended: %s'
                                % sc.leftover)
            traces.append(tr)
            nev = sum(1 for e in tr[1:] if e['ev'] in ('call', 'line', 'return', 'exception'))
            nf = sum(len(e.get('fired', [])) for e in tr[1:])
            meta.append({'kind': kind, 'tps': sc.all_model_tps, 'plan': plan, 'events': nev, 'firings': nf,
                         'closes': sum(len(e.get('closed', [])) for e in tr[1:]), 'problems': problems,
                         'known': known, 'known_caught': known_caught})
        finally:
            sc.close()
    return traces, meta


def validate(c, traces, meta, nontrivial, ideal=False):
    """Judge recorded executions with Trace_Dispatch. ideal=True (C03 only): the traces in which the agent was blind for
    some invocation (it began while no tracepoint was installed) are judged a second time against the property as
    stated - every event handled; a rejection at an event the agent never saw is the recorded finding."""
    if not traces:
        return
    if ideal:
        sub = [i for i, tr in enumerate(traces) if any(e.get('blind') for e in tr[1:])]
        if sub:
            consts = dict(TRACE_CONSTS, IdleFramesBlind=False)
            acc2, prog2, r2 = tlc.validate_traces('Trace_Dispatch', [traces[i] for i in sub], constants=consts,
                                                  invariants=TR_INVS, timeout=1800)
            c.states += r2.distinct
            c.transitions += r2.generated
            for k, i in enumerate(sub):
                if k in acc2:
                    continue
                at = prog2.get(k, 0)
                ev = traces[i][at - 1] if 0 < at <= len(traces[i]) else None
                text = ('%s: a tracepoint is configured for %s but the agent never saw the event: the invocation began '
                        'while no tracepoint at all was installed (tracepoints %s; plan %s)'
                        % (meta[i]['kind'], ev, meta[i]['tps'], meta[i]['plan']))
                if ev is not None and ev.get('blind'):
                    c.violation(text, None, signature={'placement': 'invocation-began-while-idle'})
                else:
                    path = c.save_replay({'direction': 'C2S', 'module': 'Trace_Dispatch', 'meta': meta[i],
                                          'trace': traces[i], 'ideal': True, 'rejected_at': at})
                    c.violation('%s (property as stated): trace rejected by Trace_Dispatch at event %d: %s; tracepoints '
                                '%s; plan %s' % (meta[i]['kind'], at, ev, meta[i]['tps'], meta[i]['plan']), path)
    accepted, progress, r = tlc.validate_traces('Trace_Dispatch', traces, constants=TRACE_CONSTS, invariants=TR_INVS,
                                                timeout=1800)
    c.states += r.distinct
    c.transitions += r.generated
    if not r.ok:
        st = r.trace[-1][2] if r.trace else {}
        path = c.save_replay({'direction': 'C2S', 'module': 'Trace_Dispatch', 'violation': r.violation,
                              'trace_id': st.get('tid'), 'position': st.get('l'),
                              'scenario': meta[st['tid'] - 1] if st.get('tid') else None})
        c.violation('TLC: %s on a recorded execution (trace %s, event %s; scenario %s)'
                    % (r.violation, st.get('tid'), st.get('l'),
                       {k: meta[st['tid'] - 1][k] for k in ('tps', 'plan')} if st.get('tid') else None), path)
        return
    for i, tr in enumerate(traces):
        m = meta[i]
        c.traces_validated += 1
        c.note_case(key=(m['kind'], str(m['tps']), str(m['plan'])), nontrivial=nontrivial(m))
        bad = '; '.join(m['problems']) if m['problems'] else None
        if m.get('known'):
            c.violation('capture in nested same-name invocations: %s' % m['known'][:2], None,
                        signature={'capture': 'nested-same-name'})
        if m.get('known_caught'):
            c.violation('capture of an exception the invocation caught: %s' % m['known_caught'][:2], None,
                        signature={'capture': 'caught-exception'})
        if bad is None and i not in accepted:
            at = progress.get(i, 0)
            bad = 'trace rejected by Trace_Dispatch at event %d: %s' % (at, tr[at - 1] if at - 1 < len(tr) else None)
        if bad:
            path = c.save_replay({'direction': 'C2S', 'module': 'Trace_Dispatch', 'meta': m, 'trace': tr})
            c.violation('%s: %s; tracepoints %s; plan %s' % (m['kind'], bad, m['tps'], m['plan']), path)
            if len(c.violations) >= 8:
                return
    c.sample({'direction': 'C2S', 'tps': meta[0]['tps'], 'plan': meta[0]['plan'], 'trace_head': traces[0][:8]})


RACE_HOST = '''import sys

H = None


def work(n):
    H.trace_call(sys._getframe(), 'call', None)
    a = n
    H.trace_call(sys._getframe(), 'line', None)  # TP:stable
    b = a + 1
    H.trace_call(sys._getframe(), 'line', None)  # TP:stable2
    H.trace_call(sys._getframe(), 'return', b)
    return b
'''


def own_frames_leg(c, wd):
    """The agent runs code of its own on threads that are traced like any other (its delivery workers, its poll thread).
    A tracepoint that names a file and line of the AGENT's code - the application has no such file, but many projects have
    an `__init__.py`, a `utils.py` ... with enough lines - matches nothing of the program: it must never act."""
    import inspect
    import threading
    import time
    from .. import lifecycle_drv as LD
    import deep.push.push_service as ps_mod
    src, first = inspect.getsourcelines(ps_mod.PushService._push_task)
    line = first + 1                  # the first statement of the delivery task, run on a worker thread
    out = {}

    def body():
        sysm = LD.LifeSystem(wd, False, 'None', 'None')
        problems = []
        try:
            sysm.start()
            t0 = time.time()
            while sysm.deep.task_handler._pending and time.time() - t0 < 5:
                time.sleep(0.005)
            own = sysm.deep.register_tracepoint('push_service.py', line, {'log_msg': 'inside the agent'}, [])
            t0 = time.time()
            while sysm.deep.task_handler._pending and time.time() - t0 < 5:
                time.sleep(0.005)
            del sysm.plugins[0].calls[:]
            res = sysm.mod.beat(1)            # a hit of the application's line: a snapshot is delivered by a worker thread
            t0 = time.time()
            while (sysm.deep.task_handler._pending or not sysm.sent) and time.time() - t0 < 5:
                time.sleep(0.005)
            time.sleep(0.2)
            logs = [c_[1] for c_ in sysm.plugins[0].calls if c_[0] == 'log']
            if res != 2:
                problems.append('host result %r' % (res,))
            if any('inside the agent' in m for m in logs):
                problems.append('a tracepoint naming push_service.py#%d acted inside the agent\'s own delivery task (%d '
                                'log line(s))' % (line, sum(1 for m in logs if 'inside the agent' in m)))
            own.unregister()
            sysm.deep.shutdown()
        finally:
            sysm.close()
        out['problems'] = problems
    th = threading.Thread(target=body)
    th.start()
    th.join(60)
    if 'problems' not in out:
        raise tlc.MachineryError('own-frames case did not finish (the agent may have dead-locked on its own frames)')
    c.traces_validated += 1
    c.note_case(key=('own-frames',), nontrivial=True)
    if out['problems']:
        p_ = c.save_replay({'kind': 'own-frames', 'problems': out['problems']})
        c.violation('a tracepoint whose file and line exist only in the agent\'s own code: %s' % out['problems'], p_)


def registration_race_leg(c, wd, max_preemptions, max_runs):
    """Only tracepoints registered in code (the service has sent nothing): one of them is unregistered by another thread
    while an event that matches the OTHERS is being dispatched - they act on every hit of their lines all the same."""
    import sys
    from .. import rig as R
    from .. import sched as S
    mod, path, marks = R.write_host(wd, RACE_HOST)
    base = path.rsplit('/', 1)[-1]
    inf = {'fire_count': '-1', 'fire_period': '0', 'snapshot': 'no_collect'}

    def make_run():
        plugin = R.role_plugin('lg', {'log'})
        rg = R.Rig(plugins=[plugin])
        r0 = rg.register({'path': 'elsewhere.py', 'line': 5, 'args': dict(inf, log_msg='never')})
        rg.register({'path': base, 'line': marks['stable'], 'args': dict(inf, log_msg='hit 1')})
        rg.register({'path': base, 'line': marks['stable2'], 'args': dict(inf, log_msg='hit 2')})
        mod.H = rg.handler
        sch = S.Scheduler(line_files=('deep/processor/trigger_handler.py',))
        results = {}

        def host():
            results['host'] = [mod.work(1), mod.work(2)]

        def updater():
            rg.tps.remove_custom(r0)
        # (the host thread first: the default schedule runs it to the end, ONE forced switch lets the whole unregister
        #  happen at any point of the dispatch - every such schedule is within reach of a small budget)
        sch.spawn('H', host)
        sch.spawn('U', updater)

        def finish(sched, schedule):
            logs = [c_[1] for c_ in plugin.calls if c_[0] == 'log']
            problems = []
            if results.get('host') != [2, 3]:
                problems.append('host results %r' % (results.get('host'),))
            for i in (1, 2):
                n_ = sum(1 for m_ in logs if m_ == '[deep] hit %d' % i)
                if n_ != 2:
                    problems.append('registration %d (never unregistered) acted %d times on 2 hits of its line' % (i, n_))
            if rg.escaped:
                problems.append('handler raised %r' % (rg.escaped,))
            rg.close()
            return problems
        return sch, finish
    n = 0
    for schedule, problems in S.explore(make_run, max_preemptions=max_preemptions, max_runs=max_runs):
        n += 1
        c.traces_validated += 1
        c.note_case(key=('registration-race', str(schedule)), nontrivial=True)
        if problems:
            p_ = c.save_replay({'direction': 'C2S', 'kind': 'registration-race', 'schedule': _compress(schedule),
                                'problems': problems})
            c.violation('unregister racing with an event, schedule %s: %s' % (_compress(schedule), problems[:2]), p_)
            break
    sys.modules.pop(mod.__name__, None)
    c.extra['registration_race_schedules'] = n


def reconfig_race_leg(c, wd, max_preemptions, max_runs):
    """A configuration update (Dispatch!Reconfigure) lands while another thread is in the middle of an event: a
    tracepoint that is in the old AND in the new configuration acts on every hit of its line, whatever the interleaving
    (line-level schedules inside trigger_handler.py)."""
    import sys
    from .. import rig as R
    from .. import sched as S
    mod, path, marks = R.write_host(wd, RACE_HOST)
    base = path.rsplit('/', 1)[-1]
    inf = {'fire_count': '-1', 'fire_period': '0', 'snapshot': 'no_collect'}

    def tp(i, line):
        return dict(id='s%d' % i, path=base, line=marks[line], args=dict(inf, log_msg='hit %d' % i))

    def make_run():
        plugin = R.role_plugin('lg', {'log'})
        rg = R.Rig(plugins=[plugin])
        from deep.grpc import convert_response
        from deepproto.proto.tracepoint.v1.tracepoint_pb2 import TracePointConfig

        def triggers(tps):
            return convert_response([TracePointConfig(ID=t['id'], path=t['path'], line_number=t['line'], args=t['args'])
                                     for t in tps])
        rg.handler.new_config(triggers([tp(1, 'stable'), tp(2, 'stable2')]))
        mod.H = rg.handler
        sch = S.Scheduler(line_files=('deep/processor/trigger_handler.py',))
        results = {}
        newer = [triggers([tp(1, 'stable'), tp(2, 'stable2'), tp(3, 'stable')]), triggers([tp(2, 'stable2'), tp(1, 'stable')])]

        def host():
            results['host'] = [mod.work(1), mod.work(2)]

        def updater():
            for cfg in newer:
                rg.handler.new_config(cfg)
        sch.spawn('U', updater)     # (first: the default schedule runs it to the end, one forced switch parks it anywhere)
        sch.spawn('H', host)

        def finish(sched, schedule):
            logs = [c_[1] for c_ in plugin.calls if c_[0] == 'log']
            problems = []
            if results.get('host') != [2, 3]:
                problems.append('host results %r' % (results.get('host'),))
            for i in (1, 2):
                n = sum(1 for m_ in logs if m_ == '[deep] hit %d' % i)
                if n != 2:
                    problems.append('tracepoint s%d (in every configuration) acted %d times on 2 hits of its line' % (i, n))
            if rg.escaped:
                problems.append('handler raised %r' % (rg.escaped,))
            rg.close()
            return problems
        return sch, finish
    n = 0
    for schedule, problems in S.explore(make_run, max_preemptions=max_preemptions, max_runs=max_runs):
        n += 1
        c.traces_validated += 1
        c.note_case(key=('reconfig-race', str(schedule)), nontrivial=True)
        if problems:
            p_ = c.save_replay({'direction': 'C2S', 'kind': 'reconfig-race', 'schedule': _compress(schedule),
                                'problems': problems})
            c.violation('configuration update racing with an event, schedule %s: %s' % (_compress(schedule), problems[:2]), p_)
            break
    sys.modules.pop(mod.__name__, None)
    c.extra['reconfig_race_schedules'] = n


def _compress(schedule):
    out = []
    for s_ in schedule:
        if out and out[-1][0] == s_:
            out[-1][1] += 1
        else:
            out.append([s_, 1])
    return out


def run(c):
    quick = c.tier == 'quick'
    rng = random.Random(c.seed)
    wd = tlc.scratch('c03_')
    c.rule = ('cases = live executions of script-driven host programs (nested calls across two files with equal function '
              'names, recursion, caught/propagating exceptions, generators, 1-2 threads per stage, idents reused across '
              'stages) with 1-5 random tracepoints (line/method, duplicates on one line, never-executed locations); every '
              'trace event is logged with the tracepoints that acted during it and validated by Trace_Dispatch '
              '(fired set = Matching at every event); non-trivial = at least 3 firings')
    c.assumptions = ['tracepoints are installed before the host program starts',
                     'fire_count=-1 / fire_period=0 so that the limiter never interferes (it is C04)']
    c.mc('MC_Dispatch', mc_cfg(idents=(1,), ev=6, reinstall=True), label='1 thread, 6 events, configuration withdrawn and back',
         must_cover=['EvCall', 'EvLine', 'EvReturn', 'EvException', 'EvCatch', 'Reconfigure'])
    c.mc_expect_violation('MC_Dispatch', mc_cfg(idents=(1,), ev=4, depth=1, blind=True, reinstall=True), 'deviation IdleFramesBlind',
                          what='NoMiss')
    if not quick:
        c.mc('MC_Dispatch', mc_cfg(idents=(1, 2), ev=6), label='2 idents, 6 events', timeout=1800)
    # a method tracepoint names a function NAME: every function of that name in the file (here a module-level f and a
    # method K.f), each time it is entered, in any order
    same_name = [([dict(id=1, kind='method', file='a', name='f', line=0, span='none'),
                   dict(id=2, kind='line', file='a', line='kf_first', span='none')],
                  [[('a.f', [('call', 'a.kf', [('line',)]), ('call', 'a.f', []), ('call', 'a.kf', [])])],
                   [('a.kf', [('call', 'a.f', [])])], [('a.f', [])]]),
                 ([dict(id=1, kind='method', file='a', name='f', line=0, span='none')],
                  [[('a.kf', [])], [('a.f', [])], [('a.kf', [])], [('a.f', [])]]),
                 # a method tracepoint names ONE function name: not the functions whose name merely ends (or begins) like it
                 ([dict(id=1, kind='method', file='a', name='kf', line=0, span='none'),
                   dict(id=2, kind='method', file='a', name='en', line=0, span='none'),
                   dict(id=3, kind='method', file='a', name='ge', line=0, span='none')],
                  [[('a.f', [('call', 'a.kf', [('line',)]), ('gen', 2), ('call', 'a.g', [])])], [('a.kf', [])]]),
                 # a tracepoint of the service and one registered in code on the same line, while the service's
                 # configuration changes several times: each acts once per arrival at the line, all the time
                 ([dict(id=1, kind='line', file='a', line='f_plain', span='none'),
                   dict(id=2, kind='line', file='a', line='f_plain', span='none', reg=True),
                   dict(id=3, kind='line', file='a', line='g_first', span='none', reg=True)],
                  [[('a.f', [('line',), ('cfg', 255), ('line',), ('cfg', 1), ('call', 'a.g', []), ('cfg', 0), ('line',)])]]),
                 # a method tracepoint without a method name (it never acts) in files whose source cannot be loaded: whatever
                 # its own location test does with that, the other tracepoints of the file act as ever
                 ([dict(id=1, kind='method', file='a', name='', line=0, span='method', hide_source=True),
                   dict(id=2, kind='line', file='a', line='f_plain', span='none'),
                   dict(id=3, kind='method', file='a', name='g', line=0, span='none')],
                  [[('a.f', [('line',), ('call', 'a.g', [('line',)]), ('line',)])]]),
                 # the configuration is withdrawn, a function is entered while NOTHING is installed, and the configuration
                 # comes back while that invocation is still running: its later lines are configured locations
                 ([dict(id=1, kind='line', file='a', line='f_plain', span='none')],
                  [[('a.f', [('cfg', 0), ('call', 'a.f', [('cfg', 255), ('line',), ('line',)]), ('line',)])]])]
    traces, meta = run_scenarios(c, rng, wd, 60 if quick else 1500, 0.2, 'placement', 'p', curated=same_name)
    reconfig_race_leg(c, wd, 1 if quick else 2, 600 if quick else 4000)      # (quick: every schedule with one forced switch)
    registration_race_leg(c, wd, 1 if quick else 2, 400 if quick else 4000)
    own_frames_leg(c, wd)
    # "acts when execution reaches that line" also in a later life of the agent, for a tracepoint registered in code
    # against a service that has nothing for this client (shared with C12)
    from .. import e2e_leg
    e2e_leg.two_lives_leg(c, same_object=True, service_empty=True)
    validate(c, traces, meta, lambda m: m['firings'] >= 3, ideal=True)
    c.extra['events_judged'] = sum(m['events'] for m in meta)
    c.extra['firings'] = sum(m['firings'] for m in meta)


if __name__ == '__main__':
    core.main('C03', run)

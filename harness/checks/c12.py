"""C12 - installed tracepoints converge to the service's latest configuration (spec/ConfigSync.tla)."""
import random
import threading
import time

from .. import core, tlc
from .. import configsync_drv as D
from ..tlaparse import to_json

INVS = ['Converged', 'LastGoodInForce', 'HashHonest', 'RemovesExactlyIt', 'HandlesUnique', 'AlongsideService', 'TypeOK']


def mc_cfg(cap=False, hil=False, ver=2, regs=2, polls=3, invs=INVS):
    return dict(constants=dict(Workers={'W1', 'W2'}, MaxVersion=ver, MaxRegs=regs, MaxPolls=polls,
                               Locations={'L1', 'L2', 'M1'}, CapturedConfig=cap, HandleIsLocation=hil),
                invariants=invs, properties=['NeverOlder', 'NoChangeIsNoop'], deadlock=False)


def replay(c, behs, kind, want=lambda names: True):
    shown = 0
    for beh in behs:
        names = [a for a, _, _ in beh[1:]]
        if not want(names):
            continue
        sysm = D.SyncSystem()
        steps = []
        bad = None
        try:
            for (a, args, st) in beh[1:]:
                steps.append([a] + [to_json(x) for x in args])
                try:
                    sysm.do(a, args)
                except BaseException as ex:
                    bad = 'step %s raised %r' % (steps[-1], ex)
                    break
                real = sysm.project()
                exp = D.expected(to_json(st))
                if a == 'PollAnswer' and real['last_request_hash'] != st['reqHash']:
                    bad = 'poll request carried hash %s, the spec says %s' % (real['last_request_hash'], st['reqHash'])
                    break
                real.pop('last_request_hash')
                if real != exp:
                    bad = 'after %s: implementation %s, spec %s' % (steps[-1], real, exp)
                    break
        finally:
            try:
                sysm.deep.task_handler._pool = None
            except Exception:
                pass
        c.traces_validated += 1
        c.note_case(key=(kind, str(steps)), nontrivial=sum(1 for n in names if n == 'Apply') >= 2)
        if len(c.samples) < 3:
            c.sample({'direction': 'S2C', 'module': 'ConfigSync', 'steps': steps})
        if bad:
            path = c.save_replay({'direction': 'S2C', 'module': 'ConfigSync', 'steps': steps, 'mismatch': bad})
            if c.violation('%s: %s' % (kind, bad), path):
                shown += 1
                if shown >= 6:
                    return


CONCURRENT_SCRIPTS = [
    [('SvcChange', ()), ('PollAnswer', ('update',)), ('SvcChange', ()), ('PollAnswer', ('update',))],
    [('SvcChange', ()), ('PollAnswer', ('update',)), ('Register', ('L1',)), ('SvcChange', ()), ('PollAnswer', ('update',))],
    [('Register', ('L1',)), ('Unregister', (1,))],
    [('Register', ('L1',)), ('Register', ('L1',)), ('Unregister', (1,)), ('SvcChange', ()), ('PollAnswer', ('update',))],
]


def concurrent_leg(c, scripts, max_preemptions, max_runs, kind='line-schedule'):
    """Every bounded-preemption schedule of the polling/registering thread and the two pool workers (line level in
    tracepoint_config.py): once everything has settled the handler must have the latest state (Converged)."""
    from .. import sched as S
    shown = 0
    for script in scripts:
        def make_run():
            sysm = D.ConcurrentSync(script)
            sysm.spawn()

            def finish(sched, schedule):
                return sysm.finish()
            return sysm.sched, finish
        n = 0
        for schedule, final in S.explore(make_run, max_preemptions=max_preemptions, max_runs=max_runs):
            n += 1
            c.traces_validated += 1
            c.note_case(key=(kind, str(script), str(schedule)), nontrivial=True)
            bad = None
            if final['errors']:
                bad = 'exception: %s' % final['errors']
            elif final['installed']['cfg'] != final['polled'] or final['installed']['regs'] != sorted(final['custom']):
                bad = 'after everything settled the handler has %s but the service config is %s and the custom ' \
                      'registrations are %s' % (final['installed'], final['polled'], final['custom'])
            elif final['hash'] != final['polled']:
                bad = 'hash %s but polled config %s' % (final['hash'], final['polled'])
            if bad:
                comp = []
                for s_ in schedule:
                    if comp and comp[-1][0] == s_:
                        comp[-1][1] += 1
                    else:
                        comp.append([s_, 1])
                path = c.save_replay({'direction': 'C2S', 'module': 'ConfigSync', 'kind': kind, 'script': script,
                                      'schedule': comp, 'final': final})
                if c.violation('%s script %s schedule %s: %s' % (kind, script, comp, bad), path):
                    shown += 1
                break
        if shown >= 4:
            return


def mixed_locations_leg(c):
    """Always replayed (the sampled behaviours reach it only with some seeds): a method registration and a line registration
    of the same file, then the method one is unregistered - the handler ends up with exactly the line one, also after a
    service update on top."""
    sysm = D.SyncSystem()

    def drain():
        while sysm.pool.queue:
            sysm.pool.take('W1')
            sysm.pool.apply('W1')
    # (None = the background tasks run now; two calls without one in between are applied together, so the handler goes
    #  from [method registration] to [line registration] in ONE update - lists of equal length)
    # (in both directions: method -> line, line -> method)
    steps = [('Register', ('M1',)), None, ('Unregister', (1,)), ('Register', ('L1',)), None,
             ('Unregister', (2,)), ('Register', ('M1',)), None,
             ('Register', ('L1',)), None, ('Unregister', (3,)), None, ('SvcChange', ()), ('PollAnswer', ('update',)), None]
    want = {1: [1], 4: [2], 7: [3], 9: [3, 4], 11: [4], 14: [4]}
    for i, step in enumerate(steps):
        try:
            if step is None:
                drain()
            else:
                sysm.do(step[0], step[1])
        except BaseException as ex:
            p_ = c.save_replay({'kind': 'mixed-locations', 'step': i, 'raised': repr(ex)})
            c.violation('method and line registrations of one file: step %d (%s) raised %r' % (i, step, ex), p_)
            return
        if i in want:
            got = sorted(sysm.project()['installed']['regs'])
            c.traces_validated += 1
            c.note_case(key=('mixed-locations', i), nontrivial=True)
            if got != want[i]:
                p_ = c.save_replay({'kind': 'mixed-locations', 'steps': [list(x) if x else None for x in steps[:i + 1]],
                                    'installed': got, 'expected': want[i]})
                c.violation('method and line registrations of one file: after %s the handler acts on registrations %s, '
                            'expected %s' % ([x for x in steps[:i + 1] if x], got, want[i]), p_)
                return


def timer_survives(c):
    """A failing / unintelligible poll leaves polling running (RepeatedTimer + LongPoll.start with a tiny interval)."""
    sysm = D.SyncSystem()
    sysm.cfg._ConfigService__custom['POLL_TIMER'] = 0.01
    kinds = ['error', 'malformed', 'error', 'update', 'no_change', 'malformed', 'unknown_type', 'no_change']
    sysm.svc = 1
    seen = []

    orig = sysm._answer

    def answer(request):
        k = kinds[min(len(seen), len(kinds) - 1)]
        seen.append(k)
        sysm.answer_kind = k
        return orig(request)
    sysm.chan.script('/poll', answer)
    from concurrent.futures import ThreadPoolExecutor
    sysm.deep.task_handler._pool = ThreadPoolExecutor(max_workers=2)
    try:
        sysm.deep.poll.start()
        t0 = time.time()
        while len(seen) < len(kinds) + 2 and time.time() - t0 < 5:
            time.sleep(0.01)
        alive = sysm.deep.poll.timer.thread.is_alive()
        try:
            sysm.deep.poll.shutdown()
        except BaseException:      # e.g. the timer thread was never started: judged below (alive is False)
            pass
    finally:
        sysm.deep.task_handler._pool.shutdown(wait=True)
    c.traces_validated += 1
    c.note_case(key=('timer', tuple(kinds)), nontrivial=True)
    proj = sysm.project()
    if len(seen) < len(kinds) + 2 or not alive:
        p = c.save_replay({'kind': 'timer', 'answers': seen, 'alive': alive})
        c.violation('polling stopped after a failed/malformed poll: %d polls seen, timer alive=%s' % (len(seen), alive), p)
    elif proj['hash'] != 1 or proj['installed']['cfg'] != 1:
        p = c.save_replay({'kind': 'timer', 'answers': seen, 'state': proj})
        c.violation('after error/malformed/update/no_change polls the agent has %s' % proj, p)


def run(c):
    quick = c.tier == 'quick'
    c.rule = ('cases = behaviours of ConfigSync.tla (tlc -simulate) replayed on the real Deep/TracepointConfigService/'
              'LongPoll/TriggerHandler with a manual 2-worker pool and a fake channel, projected state compared after '
              'every action (hash, polled, custom, queued tasks, installed), request hash compared with the spec; plus '
              'the real timer with failing polls; non-trivial = at least two update tasks applied')
    c.assumptions = ['the service answers UPDATE only when the request hash differs from its current version',
                     'update_listeners is atomic with respect to other update tasks (checked at line level in thorough)']
    c.mc('ConfigSync', mc_cfg(ver=2, regs=2, polls=3), label='2 versions, 2 registrations, 3 polls',
         must_cover=['SvcChange', 'PollSend', 'PollAnswer', 'Register', 'Unregister', 'Take', 'Apply'])
    if not quick:
        c.mc('ConfigSync', mc_cfg(ver=3, regs=2, polls=4), label='3 versions, 2 registrations, 4 polls', timeout=1800)
    c.mc_expect_violation('ConfigSync', mc_cfg(cap=True, regs=0, invs=['Converged']), 'deviation CapturedConfig',
                          what='Converged')
    sim = tlc.simulate('ConfigSync', mc_cfg(ver=3, regs=3, polls=6), num=150 if quick else 4000, depth=30,
                       seed=c.seed + 3)
    c.transitions += sim.generated
    replay(c, sim.behaviours, 'simulate')
    concurrent_leg(c, CONCURRENT_SCRIPTS[:2], 2 if quick else 3, 400 if quick else 6000)
    timer_survives(c)
    # end to end: a real gRPC server, the real deep.start(), hits and shutdown, judged by the composition DeepAgent
    import random
    from .. import e2e_leg
    e2e_leg.e2e_leg(c, random.Random(c.seed + 21), 8 if quick else 120)
    mixed_locations_leg(c)
    e2e_leg.two_lives_leg(c)
    e2e_leg.two_lives_leg(c, same_object=True)
    e2e_leg.two_lives_leg(c, same_object=True, register=False)
    # the held configuration is not only the service's: with a service that has nothing for this client (it answers
    # 'no change' from the first poll on) the registrations made in code are all there is - and are acted on in every life
    e2e_leg.two_lives_leg(c, same_object=True, service_empty=True)
    if not quick:
        e2e_leg.repo_it_leg(c)


if __name__ == '__main__':
    core.main('C12', run)

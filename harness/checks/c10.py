"""C10 - conditions gate firing without using budget; expressions see the frame's scope; errors contained.

Specs: Limiter.tla (RejectedHitIsFree, ConditionGates, NoSpuriousDenial with per-hit condition truth) and
ExprScope.tla (the scope / failure table, one state per case).
"""
import builtins
import random
import sys

from .. import core, tlc
from .. import rig as R
from .. import limiter_drv as L
from ..tlaparse import to_json
from . import c04

SCOPE_SRC = '''GN = 22
sh = 44
abs = 55


def scoped(c):
    ln = 11
    sh = 33
    x = c  # TP:scoped
    return x
'''

CLASSBODY_SRC = '''GN = 22
sh = 44
abs = 55


def scoped(c):
    class Body:
        ln = 11
        sh = 33
        x = c  # TP:scoped
    return Body.x
'''

EXPR = {'local': 'ln', 'hostglobal': 'GN', 'builtin': 'len((1,2,3))', 'shadow_lg': 'sh', 'shadow_gb': 'abs',
        'agentonly': 'len(uuid.__name__)', 'undefined': 'no_such_name_q',
        'local_nested': '(lambda: ln)()', 'shadow_nested': 'next(sh for _ in (1,))',
        # locals() is the paused frame's locals: `ln` is in it, the module global `GN` is not
        'via_locals': "locals()['ln'] + (1000 if 'GN' in locals() else 0)"}
VALUE = {'L': {'local': 11, 'shadow_lg': 33, 'local_nested': 11, 'shadow_nested': 33, 'via_locals': 11}, 'G': {'hostglobal': 22, 'shadow_gb': 55}, 'B': {'builtin': 3}}
# what a wrong resolution would produce (used to recognise "resolved although it must not")
WRONG = {'agentonly': {'4'}, 'undefined': set(), 'shadow_lg': {'44'}, 'shadow_gb': set(), 'shadow_nested': {'44'},
         'via_locals': {'1011'}}
NB_EXPR = 'ln + 100'     # the neighbouring well-behaved expression, value 111


def wrap_expr(e, wrap):
    if wrap == 'plain':
        return e
    if wrap == 'padded':
        return ' \t' + e              # leading blanks and tabs: still the same expression
    if wrap == 'raises_exception':
        return '(%s) // 0' % e
    if wrap == 'syntax_error':
        return '%s =' % e               # cannot be compiled at all: a failure like any other, never "no condition"
    if wrap == 'raises_true_text':
        return "(_ for _ in ()).throw(ValueError('true'))"
    if wrap == 'raises_t_text':
        return '(1, 2)[ln]'             # IndexError: tuple index out of range
    return '(_ for _ in ()).throw(KeyboardInterrupt)'


def is_error_type(tname):
    t = getattr(builtins, tname, None)
    return isinstance(t, type) and issubclass(t, BaseException)


def run_case(case, expected, wd):
    """One state of ExprScope -> one execution of the real agent. Returns None or a mismatch text."""
    from deepproto.proto.tracepoint.v1.tracepoint_pb2 import Metric, LabelExpression, MetricType
    nc, site, wrap, nb = case['nc'], case['site'], case['wrap'], case['nb']
    expr = wrap_expr(EXPR[nc], wrap)
    src = expected['src']
    val = VALUE[src][nc] if src != 'ERR' else None
    plugin = R.role_plugin('rec', {'log', 'metric'})
    rg = R.Rig(plugins=[plugin])
    mod, path, marks = R.write_host(wd, CLASSBODY_SRC if case.get('frame') == 'classbody' else SCOPE_SRC)
    base = path.rsplit('/', 1)[-1]
    tp = {'id': 'tp-scope', 'path': base, 'line': marks['scoped'], 'args': {}, 'watches': [], 'metrics': []}
    mine = [expr]
    exprs = ([NB_EXPR] if nb == 'ok_before' else []) + mine + ([NB_EXPR] if nb == 'ok_after' else [])
    if site == 'condition':
        bare = expr.strip() if wrap == 'padded' else expr
        tp['args']['condition'] = ('(%s) == %d' % (bare, val)) if src != 'ERR' else ('(%s) is not None' % bare)
        if wrap == 'padded':
            tp['args']['condition'] = ' \t' + tp['args']['condition']
        if nb != 'none':
            tp['watches'] = [NB_EXPR]
        # the tracepoint has a metric as well: the condition gates every action of the tracepoint
        tp['metrics'] = [Metric(name='cm', type=MetricType.COUNTER, expression=NB_EXPR)]
    elif site == 'watch':
        tp['watches'] = exprs
    elif site == 'logfield':
        tp['args']['log_msg'] = 'a ' + ' | '.join('{%s}' % e for e in exprs) + ' z'
    elif site == 'metric':
        # every metric also has a label expression of its own: a failing VALUE expression costs the value only
        tp['metrics'] = [Metric(name='m%d' % i, type=MetricType.COUNTER, expression=e,
                                labelExpressions=[LabelExpression(key='own', expression=NB_EXPR)])
                         for i, e in enumerate(exprs)]
    elif site == 'label':
        tp['metrics'] = [Metric(name='m', type=MetricType.GAUGE,
                                labelExpressions=[LabelExpression(key='k%d' % i, expression=e)
                                                  for i, e in enumerate(exprs)])]
    try:
        rg.install([tp])
        res = rg.run(mod.scoped, 7, only_file=path)
        if res != ('ok', 7):
            return 'host result changed: %r' % (res,)
        if rg.escaped:
            return 'handler raised into the host: %r' % rg.escaped
        snaps = rg.snapshots()
        idx = exprs.index(expr) if site != 'condition' else None
        if site == 'condition':
            fired = len(snaps) == 1
            if fired != expected['fires']:
                return 'condition %r: fired=%s expected %s' % (tp['args']['condition'], fired, expected['fires'])
            nmet = len([c_ for c_ in plugin.calls if c_[0] == 'metric'])
            if nmet != (1 if expected['fires'] else 0):
                return 'condition %r (%s): the metric of the tracepoint was reported %d time(s)' % (
                    tp['args']['condition'], 'holds' if expected['fires'] else 'does not hold', nmet)
            if fired and nb != 'none':
                w = snaps[0].watches[0]
                if w.error is not None or snaps[0].var_lookup[w.result.vid].value != '111':
                    return 'neighbour watch damaged'
            return None
        if len(snaps) != 1:
            return '%s site: expected the action to run and deliver 1 snapshot, got %d' % (site, len(snaps))
        snap = snaps[0]

        def watch_text(w):
            if w.error is not None:
                return ('ERR', w.error)
            v = snap.var_lookup.get(w.result.vid)
            if v is None:
                return ('DANGLING', w.result.vid)
            if is_error_type(v.type):
                return ('ERR', v.value)
            return ('OK', v.value)

        if site == 'watch':
            ws = [w for w in snap.watches if w.source == 'WATCH']
            if [w.expression for w in ws] != exprs:
                return 'watch list %r != %r' % ([w.expression for w in ws], exprs)
            got = [watch_text(w) for w in ws]
        elif site == 'logfield':
            logs = [c_ for c_ in plugin.calls if c_[0] == 'log']
            if len(logs) != 1:
                return 'expected 1 log call, got %d' % len(logs)
            msg = logs[0][1]
            if not (msg.startswith('[deep] a ') and msg.endswith(' z')):
                return 'log message frame lost: %r' % msg
            parts = msg[len('[deep] a '):-2].split(' | ')
            if len(parts) != len(exprs):
                return 'log fields lost: %r' % msg
            ws = [w for w in snap.watches if w.source == 'LOG']
            named = [w.expression for w in ws]
            # (a field that is not an expression at all AND holds a ':' can be read as "expression : format spec" as well:
            #  either way it is one failing field)
            same = len(named) == len(exprs) and all(
                a == b or (wrap == 'syntax_error' and b == expr and ':' in b and b.startswith(a)) for a, b in zip(named, exprs))
            if not same:
                return 'LOG watch list %r != %r' % (named, exprs)
            got = []
            for p_, w in zip(parts, ws):
                k, _ = watch_text(w)
                got.append((k, p_))
        elif site == 'metric':
            ms = [c_ for c_ in plugin.calls if c_[0] == 'metric']
            if [m[2] for m in ms] != ['m%d' % i for i in range(len(exprs))]:
                return 'metric calls %r' % (ms,)
            got = [('ERR' if m[7] == 1 else 'OK', _num(m[7])) for m in ms]
            for m in ms:
                if m[3].get('own') not in ('111', '111.0'):
                    return 'metric %s: its label expression shows %r (labels %r), expected 111 - whatever the value ' \
                           'expression does' % (m[2], m[3].get('own'), m[3])
        else:
            ms = [c_ for c_ in plugin.calls if c_[0] == 'metric']
            if len(ms) != 1:
                return 'metric calls %r' % (ms,)
            labels = ms[0][3]
            got = [('?', labels.get('k%d' % i)) for i in range(len(exprs))]
        # neighbours intact
        for i, e in enumerate(exprs):
            if e == NB_EXPR and i != idx:
                if got[i][1] not in ('111', '111.0'):
                    return 'neighbour expression damaged: %r' % (got[i],)
        kind, text = got[idx]
        if src != 'ERR':
            if text not in (str(val), str(float(val))):
                return '%s: expression %r shows %r, expected the %s value %r' % (site, expr, text, src, val)
        else:
            if kind == 'OK' and site in ('watch', 'logfield'):
                return '%s: expression %r must fail but produced value %r' % (site, expr, text)
            if text in WRONG.get(nc, set()) and wrap in ('plain', 'padded'):
                return '%s: expression %r resolved (%r) although the name is not in the frame scope' % (site, expr, text)
            if site == 'metric' and text != '1':
                return 'metric: failing expression must report 1, got %r' % (text,)
        return None
    finally:
        rg.close()
        sys.modules.pop(mod.__name__, None)


def _num(v):
    f = float(v)
    return str(int(f)) if f == int(f) else str(f)


def run(c):
    quick = c.tier == 'quick'
    rng = random.Random(c.seed)
    wd = tlc.scratch('c10_')
    c.rule = ('cases = (a) every state of ExprScope (name class x site x failure wrap x neighbour) run once against the '
              'real evaluator, (b) walks of the 1-thread Limiter graph with per-hit condition truth replayed into the '
              'real code, (c) long recorded hit histories with conditions validated by Trace_Limiter; non-trivial = '
              'a failing/invisible expression, or a history with a rejected hit followed by a later hit')
    c.assumptions = ['expressions are side-effect free', 'truthiness is asserted only for True/False/failing results']
    # --- the gate part on the Limiter model, condition-heavy settings
    c.mc('MC_Limiter', c04.mc_cfg('MCConfigsCond', threads=2, maxnow=3, hits=3), label='conditions, 2 threads',
         must_cover=['EvalCond', 'Reserve', 'Collect'])
    r = c.mc('MC_Limiter', c04.mc_cfg('MCConfigsCond', threads=1, maxnow=4, hits=4), label='conditions, graph',
             dump=True, coverage=False)
    c04.replay_sequential(c, r.graph, 150 if quick else 10000, rng, wd)
    # the same gate with a wall clock that may be set back between the hits (Limiter!SetBack): a rejected hit is still
    # free, a condition that holds is still honoured when the limits allow; walked and replayed like the ideal graph
    cfg = c04.mc_cfg('MCConfigsCond', threads=1, maxnow=3 if quick else 4, hits=4)
    cfg['next_'] = 'NextSetBack'
    rb = c.mc('MC_Limiter', cfg, label='conditions, clock set back, graph', dump=True, coverage=False)
    c04.replay_sequential(c, rb.graph, 60 if quick else 3000, rng, wd)
    cfgs = sorted((to_json(r.graph.states[s]['cfg']) for s in r.graph.init), key=str)
    traces, meta = [], []
    for i in range(15 if quick else 1000):
        cfg = rng.choice([x for x in cfgs if x['cm'] == 'expr'])
        tr, esc = c04.history_trace(rng, cfg, wd, rng.choice([10, 40]), 5)
        traces.append(tr)
        meta.append({'cfg': cfg, 'errors': esc, 'hits': sum(1 for e in tr if e.get('ev') == 'Arrive')})
    c04.validate(c, traces, meta, 'history')
    # --- the scope table
    r = c.mc('ExprScope', dict(invariants=['AgentInvisible', 'FrameScope', 'FailureIsLocal'], deadlock=False),
             label='scope table', dump=True, coverage=False)
    states = sorted(r.graph.states.values(), key=lambda s: str(to_json(s)))
    bad = 0
    for st in states:
        case, exp = to_json(st['case']), to_json(st['expected'])
        msg = run_case(case, exp, wd)
        c.traces_validated += 1
        c.note_case(key=('scope', str(case)), nontrivial=exp['src'] == 'ERR' or case['nc'].startswith('shadow'))
        if msg:
            bad += 1
            path = c.save_replay({'direction': 'S2C', 'module': 'ExprScope', 'case': case, 'expected': exp,
                                  'mismatch': msg})
            c.violation('ExprScope case %s: %s' % (case, msg), path,
                        signature={'module': 'ExprScope', 'nc': case['nc'], 'site': case['site'], 'wrap': case['wrap']})
    c.sample({'direction': 'S2C', 'module': 'ExprScope', 'case': to_json(states[0]['case']),
              'expected': to_json(states[0]['expected'])})


if __name__ == '__main__':
    core.main('C10', run)

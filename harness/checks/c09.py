"""C09 - delivery off the application thread, exactly once; flush drains (spec/TaskFlush.tla)."""
import random
import threading

from .. import core, tlc, fakes
from .. import rig as R
from .. import sched as S

INVS = ['ExactlyOnce', 'OffThread', 'FlushNeverRaises', 'FlushDrains', 'RefusedVisibly', 'PendingAccurate', 'TypeOK']


def mc_cfg(rr=False, iag=False, subs=2, jobs=3, live=True, fail=True):
    return dict(spec='Spec',
                constants=dict(Submitters={'S%d' % i for i in range(1, subs + 1)}, Workers={'W1', 'W2'},
                               MaxJobs=jobs, MaxSubmits=jobs + 1, FailMay=fail, ResultReRaises=rr, IndexAfterGet=iag),
                invariants=INVS, properties=['ClosedRefuses'] + (['AllAcceptedFinish', 'FlushTerminates'] if live else []),
                deadlock=False)


TRACE_CONSTS = dict(Submitters={'S1', 'S2'}, Workers={'W1', 'W2'}, MaxJobs=8, MaxSubmits=50, FailMay=True,
                    ResultReRaises=False, IndexAfterGet=False)


class System:
    """The real TaskHandler with a controlled pool; scripted submitters and a flusher."""

    def __init__(self, line_level, script):
        from deep.task import TaskHandler
        import deep.task as task_mod
        self.sched = S.Scheduler(line_files=('deep/task/__init__.py',) if line_level else ())
        self.events = []
        self.lock = threading.Lock()
        self.handler = TaskHandler()
        self.handler._pool.shutdown(wait=False)
        self.pool = fakes.ControlledPool(self.sched, log=self.log)
        self.handler._pool = self.pool
        self.tl = threading.local()
        self.script = script
        self.task_mod = task_mod
        self.ran = {}
        # label futures with the handler's own job id
        orig_next = getattr(self.handler, '_next_id', None)
        if orig_next is not None:
            def next_id():
                v = orig_next()
                self.tl.jid = v
                return v
            self.handler._next_id = next_id
        psub = self.pool.submit

        def submit(fn, *a, **kw):
            f = psub(fn, *a, **kw)
            jid = getattr(self.tl, 'jid', None)
            if jid is not None:
                f.jid = jid
            return f
        self.pool.submit = submit
        self.flush_result = None

    def log(self, **e):
        with self.lock:
            self.events.append(e)

    def make_task(self, label, fails):
        def task():
            me = self.sched.me()
            self.ran.setdefault(label, []).append(me.name if me else 'unmanaged')
            self.sched.point('in-task')
            if fails == 'exc':
                raise ValueError("task %s failed" % label)
            if fails == 'base':
                raise self.task_mod.IllegalStateException()
            return label
        return task

    def submitter(self, name, jobs):
        def body():
            for label, fails in jobs:
                self.sched.point('before-submit')
                self.log(ev='SubmitStart', s=name)
                self.tl.jid = None
                try:
                    self.handler.submit_task(self.make_task(label, fails))
                    self.log(ev='SubmitEnd', s=name, res='accepted', id=getattr(self.tl, 'jid', None) or 0)
                except self.task_mod.IllegalStateException:
                    self.log(ev='SubmitEnd', s=name, res='refused', id=0)
        return body

    def flusher(self):
        self.sched.point('before-flush')
        self.log(ev='FlushStart')
        try:
            self.handler.flush()
            self.flush_result = 'returned'
        except BaseException as ex:
            self.flush_result = 'raised'
            self.flush_error = repr(ex)
        self.log(ev='FlushEnd', res=self.flush_result)

    def spawn(self):
        for name, jobs in self.script['submitters'].items():
            self.sched.spawn(name, self.submitter(name, jobs))
        if self.script.get('flush', True):
            self.sched.spawn('F', self.flusher)
        self.sched.spawn('W1', self.pool.worker)
        self.sched.spawn('W2', self.pool.worker)

    def finish(self):
        # everything that can run has run; stop the idle workers
        self.pool.stop = True
        for w in ('W1', 'W2'):
            while not self.sched.threads[w].done and w in self.sched.enabled():
                self.sched.step(w)
        self.sched.join()
        self.log(ev='Quiet', open=bool(self.handler._open), pending=sorted(self.handler._pending.keys()))
        return [{'script': 1}] + self.events


SCRIPTS = [
    {'submitters': {'S1': [('a', None)]}},
    {'submitters': {'S1': [('a', 'exc')]}},
    {'submitters': {'S1': [('a', 'exc'), ('b', None)]}},
    {'submitters': {'S1': [('a', None)], 'S2': [('b', 'base')]}},
    {'submitters': {'S1': [('a', 'exc'), ('b', None), ('c', 'exc')]}},
    {'submitters': {'S1': [('a', None), ('b', 'exc')], 'S2': [('c', None)]}},
    # two application threads hand over one snapshot each at the same time (no flush: fewer threads, so that the
    # line-level exploration reaches every preemption inside submit_task)
    {'submitters': {'S1': [('a', None)], 'S2': [('b', None)]}, 'flush': False},
]


def explore(c, scripts, line_level, max_preemptions, max_runs, kind):
    traces, meta = [], []
    for sc in scripts:
        holder = {}

        def make_run():
            sysm = System(line_level, sc)
            sysm.spawn()
            holder['s'] = sysm

            def finish(sched, schedule):
                return sysm.finish(), sysm
            return sysm.sched, finish

        class _Expl:
            pass
        for schedule, (tr, sysm) in explore_runs(make_run, max_preemptions, max_runs):
            traces.append(tr)
            errs = [n + ':' + repr(m.error) for n, m in sysm.sched.threads.items() if m.error is not None]
            meta.append({'script': sc, 'schedule': _compress(schedule), 'flush': sysm.flush_result,
                         'flush_error': getattr(sysm, 'flush_error', None), 'ran': sysm.ran, 'errors': errs})
    validate(c, traces, meta, kind)


def explore_runs(make_run, max_preemptions, max_runs):
    """Like sched.explore, but the run's finish() drives the remaining idle workers itself."""
    return S.explore(make_run, max_preemptions=max_preemptions, max_runs=max_runs)


def _compress(schedule):
    out = []
    for s in schedule:
        if out and out[-1][0] == s:
            out[-1][1] += 1
        else:
            out.append([s, 1])
    return out


def validate(c, traces, meta, kind):
    if not traces:
        return
    accepted, progress, r = tlc.validate_traces('Trace_TaskFlush', traces, constants=TRACE_CONSTS)
    c.states += r.distinct
    c.transitions += r.generated
    shown = 0
    for i, tr in enumerate(traces):
        c.traces_validated += 1
        m = meta[i]
        njobs = sum(len(v) for v in m['script']['submitters'].values())
        c.note_case(key=(kind, str(m['script']), str(m['schedule'])),
                    nontrivial=any(f for v in m['script']['submitters'].values() for _, f in v) or njobs >= 2)
        bad = None
        for label, threads in m['ran'].items():
            if len(threads) != 1:
                bad = 'task %s ran %d times' % (label, len(threads))
            elif not threads[0].startswith('W'):
                bad = 'task %s ran on %s, not on a pool worker' % (label, threads[0])
        if m['errors']:
            bad = 'exception in a harness thread: %s' % m['errors']
        if bad is None and i not in accepted:
            at = progress.get(i, 0)
            bad = 'trace rejected by Trace_TaskFlush at event %d: %s' % (at, tr[at - 1] if at - 1 < len(tr) else None)
        if bad:
            sig = None
            path = c.save_replay({'direction': 'C2S', 'module': 'Trace_TaskFlush', 'kind': kind, 'meta': m, 'trace': tr})
            if c.violation('%s: %s (flush=%s %s; script %s)' % (kind, bad, m['flush'], m.get('flush_error'), m['script']),
                           path, signature=sig):
                shown += 1
                if shown >= 8:
                    break
    c.sample({'direction': 'C2S', 'kind': kind, 'meta': meta[0], 'trace_head': traces[0][:10]})


def real_pool_smoke(c, rng, n):
    """The real PushService + real 2-thread pool + fake channel: each snapshot sent once, off-thread; failures
    contained; flush returns normally. (An extra on top of the model-based legs; uncontrolled timing.)"""
    from deep.push import PushService
    from deep.task import TaskHandler
    import deep.push as push_mod
    for it in range(n):
        chan = fakes.FakeChannel()
        grpc = fakes.FakeGrpc(chan, metadata=[('authorization', 'x')])
        th = TaskHandler()
        ps = PushService(grpc, th)
        k = rng.randint(1, 8)
        plan = [rng.choice(['ok', 'ok', 'convert_none', 'rpc_error', 'convert_raises']) for _ in range(k)]
        sent = []
        main = threading.get_ident()
        # the application thread that hits the tracepoint: the main thread, a plain thread, or a worker of the
        # application's OWN executor (whose threads are named like the agent's workers: "ThreadPoolExecutor-N_M")
        where = ('main', 'thread', 'app_pool')[it % 3]
        app_idents = set()
        handover_errors = []

        def on_app_thread(fn):
            def body():
                app_idents.add(threading.get_ident())
                try:
                    fn()
                except BaseException as ex:       # a failing conversion or send belongs to the worker, not to this thread
                    handover_errors.append(repr(ex))
            if where == 'main':
                body()
            elif where == 'thread':
                t_ = threading.Thread(target=body, name='app-worker')
                t_.start()
                t_.join(30)
            else:
                from concurrent.futures import ThreadPoolExecutor
                with ThreadPoolExecutor(max_workers=1) as app_pool:
                    app_pool.submit(body).result(30)

        class Snap:
            def __init__(self, i):
                self.i = i
                self.id = i
        orig_convert = push_mod.convert_snapshot

        def convert(s):
            p = plan[s.i]
            if p == 'convert_none':
                return None
            if p == 'convert_raises':
                raise RuntimeError('convert failed')
            from deepproto.proto.tracepoint.v1.tracepoint_pb2 import Snapshot
            return Snapshot(ID=s.i.to_bytes(16, 'big'))

        def answer(req):
            i = int.from_bytes(req.ID, 'big')
            sent.append((i, threading.get_ident()))
            if plan[i] == 'rpc_error':
                raise fakes.FakeRpcError('unavailable')
            return None
        chan.script('/send', answer)
        push_mod.convert_snapshot = convert
        try:
            on_app_thread(lambda: [ps.push_snapshot(Snap(i)) for i in range(k)])
            try:
                th.flush()
                fl = 'returned'
            except BaseException as ex:
                fl = 'raised ' + repr(ex)
            # work handed over after closing (a thread that still runs the agent after shutdown): refused visibly, and
            # neither dropped silently nor sent from the calling thread
            plan.append('ok')
            nsent = len(sent)
            try:
                ps.push_snapshot(Snap(k))
                late = 'accepted silently'
            except BaseException as ex:
                late = 'refused'
            import time as _t
            t0 = _t.time()
            while th._pending and _t.time() - t0 < 2:       # the done-callbacks run a moment after the waiters wake
                _t.sleep(0.005)
            late_sent = [t for i, t in sent[nsent:]]
        finally:
            push_mod.convert_snapshot = orig_convert
            th._pool.shutdown(wait=True)
        c.traces_validated += 1
        c.note_case(key=('real-pool', where, tuple(plan)), nontrivial=any(p != 'ok' for p in plan))
        exp = sorted(i for i, p in enumerate(plan[:k]) if p in ('ok', 'rpc_error'))
        got = sorted(i for i, _ in sent if i < k)
        bad = None
        if handover_errors:
            bad = 'handing a snapshot over raised on the application thread (%s): %s' % (where, handover_errors[:2])
        elif fl != 'returned':
            bad = 'flush %s' % fl
        elif late != 'refused' or late_sent:
            bad = 'a snapshot handed over after flush was %s and sent %d time(s)%s' % (
                late, len(late_sent), ' on the application thread' if main in late_sent else '')
        elif got != exp:
            bad = 'sent %s expected %s' % (got, exp)
        elif any(t == main or t in app_idents for _, t in sent):
            bad = 'a snapshot was sent on the application thread that handed it over (%s)' % where
        elif th._pending:
            bad = 'pending not empty after flush: %s' % list(th._pending)
        if bad:
            path = c.save_replay({'direction': 'C2S', 'kind': 'real-pool', 'plan': plan, 'handed_over_on': where, 'what': bad})
            c.violation('real pool: %s (plan %s)' % (bad, plan), path)
            return


def wall_clock_leg(c):
    """Flush waits for the accepted tasks - whatever the WALL clock does meanwhile (set forward by an hour, set back):
    waiting is a matter of elapsed time. Two uploads are held in the channel; the wall clock jumps with every reading;
    flush is still waiting after half a second and returns once both uploads are through."""
    import time as time_mod
    from deep.push import PushService
    from deep.task import TaskHandler
    import deep.push as push_mod
    from deepproto.proto.tracepoint.v1.tracepoint_pb2 import Snapshot
    for label, jump in (('set forward one hour', 3600.0), ('set back one hour', -3600.0), ('steady', 0.0)):
        chan = fakes.FakeChannel()
        th = TaskHandler()
        ps = PushService(fakes.FakeGrpc(chan, metadata=[]), th)
        release = threading.Event()
        sent = []

        def answer(req):
            release.wait(20)
            sent.append(int.from_bytes(req.ID, 'big'))
            return None
        chan.script('/send', answer)

        class Snap:
            def __init__(self, i):
                self.i = i
                self.id = i
        orig_convert = push_mod.convert_snapshot
        push_mod.convert_snapshot = lambda s_: Snapshot(ID=s_.i.to_bytes(16, 'big'))
        real_time = time_mod.time
        offset = [0.0]
        flusher = {}

        def wall():
            if threading.get_ident() == flusher.get('id'):
                offset[0] += jump          # every reading taken by the flushing thread sees the clock moved again
            return real_time() + offset[0]
        out = {}
        try:
            for i in range(2):
                ps.push_snapshot(Snap(i))

            def fl():
                flusher['id'] = threading.get_ident()
                try:
                    th.flush()
                    out['flush'] = 'returned'
                except BaseException as ex:
                    out['flush'] = 'raised %r' % (ex,)
                out['sent_at_return'] = len(sent)
            time_mod.time = wall
            t_ = threading.Thread(target=fl)
            t_.start()
            t_.join(0.5)
            early = not t_.is_alive()
            release.set()
            t_.join(30)
        finally:
            time_mod.time = real_time
            push_mod.convert_snapshot = orig_convert
            release.set()
            th._pool.shutdown(wait=True)
        bad = None
        if early:
            bad = 'flush returned while both accepted uploads were still running (%s sent)' % out.get('sent_at_return')
        elif out.get('flush') != 'returned':
            bad = 'flush %s' % out.get('flush', 'did not return')
        elif out.get('sent_at_return') != 2 or sorted(sent) != [0, 1]:
            bad = 'flush returned with %s of 2 uploads through (sent %s)' % (out.get('sent_at_return'), sent)
        c.traces_validated += 1
        c.note_case(key=('wall-clock', label), nontrivial=True)
        if bad:
            path = c.save_replay({'direction': 'C2S', 'kind': 'wall-clock-during-flush', 'clock': label, 'what': bad})
            c.violation('wall clock %s while flush waits: %s' % (label, bad), path)


def deep_wiring_leg(c):
    """The wiring inside Deep: the delivery the application hands over goes through the task handler that shutdown()
    drains and closes - a delivery in flight holds shutdown() back, and one handed over afterwards is refused."""
    import time
    from .. import lifecycle_drv as L
    from deep.api.tracepoint.eventsnapshot import EventSnapshot
    from deep.api.tracepoint.tracepoint_config import TracePointConfig
    from deep.api.resource import Resource
    wd = tlc.scratch('c09w_')
    out = {}

    def body():
        sysm = L.LifeSystem(wd, True, 'None', 'None')
        problems = []
        try:
            sysm.start()
            gate = threading.Event()
            snap = EventSnapshot(TracePointConfig('x', 'f.py', 1, {}, [], []), 1, Resource.create(), [], {})
            snap._id = 2001
            sysm.send_blocks[2001] = gate
            main = threading.get_ident()
            sysm.deep.push.push_snapshot(snap)
            done = threading.Event()

            def sd():
                try:
                    sysm.deep.shutdown()
                finally:
                    done.set()
            th = threading.Thread(target=sd)
            th.start()
            early = done.wait(0.5)                # the send is still held: shutdown() must be waiting for it
            if early:
                problems.append('shutdown() returned while a delivery handed over before it was still in flight')
            # a second caller of shutdown() (another thread, an atexit handler racing a signal handler) while the first one
            # is still draining: it does not return as if everything had been delivered either
            done2 = threading.Event()

            def sd2():
                try:
                    sysm.deep.shutdown()
                finally:
                    done2.set()
            th2 = threading.Thread(target=sd2)
            th2.start()
            if done2.wait(0.5) and not done.is_set() and sysm.sent.count((2001).to_bytes(16, 'big')) == 0:
                problems.append('a second shutdown() call returned while the delivery handed over before it was still in '
                                'flight (the first call was still draining)')
            gate.set()
            done2.wait(20)
            if not done.wait(20):
                problems.append('shutdown() did not return after the delivery had finished')
            if sysm.sent.count((2001).to_bytes(16, 'big')) != 1:
                problems.append('the delivery in flight at shutdown was sent %d time(s)' % sysm.sent.count((2001).to_bytes(16, 'big')))
            late = EventSnapshot(TracePointConfig('x', 'f.py', 1, {}, [], []), 1, Resource.create(), [], {})
            late._id = 2002
            try:
                sysm.deep.push.push_snapshot(late)
                time.sleep(0.2)
                problems.append('a delivery handed over after shutdown() was accepted%s' % (
                    ' and sent' if (2002).to_bytes(16, 'big') in sysm.sent else ' silently'))
            except BaseException:
                pass
            # a second life of the same agent (the service has a new configuration by then): work is accepted, done
            # off the application thread and drained again
            try:
                sysm.start()
            except BaseException as ex:
                problems.append('the second start() of the agent raised %r' % (ex,))
            if sysm.deep.started:
                again = EventSnapshot(TracePointConfig('x', 'f.py', 1, {}, [], []), 1, Resource.create(), [], {})
                again._id = 2003
                try:
                    sysm.deep.push.push_snapshot(again)
                except BaseException as ex:
                    problems.append('second life: a delivery was refused: %r' % (ex,))
                sysm.deep.shutdown()
                if sysm.sent.count((2003).to_bytes(16, 'big')) != 1:
                    problems.append('second life: the delivery handed over before shutdown() was sent %d time(s) when '
                                    'shutdown() returned' % sysm.sent.count((2003).to_bytes(16, 'big')))
        finally:
            sysm.close()
        out['problems'] = problems
    th = threading.Thread(target=body)
    th.start()
    th.join(90)
    if 'problems' not in out:
        raise tlc.MachineryError('Deep wiring case did not finish')
    c.traces_validated += 1
    c.note_case(key=('deep-wiring',), nontrivial=True)
    if out['problems']:
        p_ = c.save_replay({'direction': 'C2S', 'kind': 'deep-wiring', 'problems': out['problems']})
        c.violation('delivery through the Deep object: %s' % out['problems'], p_)


ISO_INVS = ['FlushCoversOwn', 'PendingAccurate', 'WaitsOnlyOwn']


def iso_cfg(shared=False, jobs=2):
    return dict(spec='Spec', constants=dict(Handlers={'A', 'B'}, MaxJobs=jobs, SharedTable=shared),
                invariants=ISO_INVS, deadlock=False)


class _ManualPool:
    """An executor whose jobs finish when the replayed behaviour says so (no threads: every step is deterministic)."""

    def __init__(self, waits):
        self.waits = waits
        self.futures = []

    def submit(self, fn, *a, **kw):
        from concurrent.futures import Future, TimeoutError as FTimeout
        waits = self.waits

        class ManualFuture(Future):
            def _wait(self, what, timeout):
                if not self.done():
                    waits.append(self)
                    if timeout is not None:
                        raise FTimeout()          # "the time flush is willing to wait has passed"
                    raise RuntimeError('flush would wait for ever on an unfinished job')
                return what(self, 0)

            def exception(self, timeout=None):
                return self._wait(Future.exception, timeout)

            def result(self, timeout=None):
                return self._wait(Future.result, timeout)
        f = ManualFuture()
        f.set_running_or_notify_cancel()
        self.futures.append(f)
        return f

    def shutdown(self, wait=True, **kw):
        pass


def isolation_leg(c, rng, nwalks):
    """HandlerIsolation behaviours replayed into two real TaskHandlers of one process (jobs finish when the behaviour
    says so): after every step the handlers' open flags and pending tables are compared with the model state, and a
    flush has to wait for exactly the unfinished jobs of its own handler."""
    from deep.task import TaskHandler
    import deep.task as task_mod
    c.mc_expect_violation('HandlerIsolation', iso_cfg(shared=True), 'deviation SharedTable', what='FlushCoversOwn')
    r = c.mc('HandlerIsolation', iso_cfg(), label='two handlers, 2 jobs each', dump=True, coverage=False)
    from ..tlaparse import to_json
    done = 0
    for walk in core.random_walks(r.graph, rng, nwalks, max_len=14):
        handlers, pools, waits, job_of = {}, {}, [], {}
        for h in ('A', 'B'):
            th = TaskHandler()
            th._pool.shutdown(wait=False)
            pools[h] = _ManualPool(waits)
            th._pool = pools[h]
            handlers[h] = th
        steps, bad = [], None
        for (_, _, st) in walk[1:]:
            name, h, jid = to_json(st['last'])
            steps.append([name, h, jid])
            th = handlers[h]
            try:
                if name == 'Submit':
                    n0 = len(pools[h].futures)
                    th.submit_task(lambda: None)
                    if len(pools[h].futures) != n0 + 1:
                        bad = 'submit on an open handler did not reach its pool'
                        break
                    job_of[id(pools[h].futures[-1])] = (h, jid)
                elif name == 'Refused':
                    try:
                        th.submit_task(lambda: None)
                        bad = 'a closed handler accepted a task'
                        break
                    except task_mod.IllegalStateException:
                        pass
                elif name == 'Finish':
                    fut = [f for f in pools[h].futures if job_of[id(f)] == (h, jid)][0]
                    fut.set_result(None)
                elif name == 'Flush':
                    del waits[:]
                    box = {}

                    def fl():
                        try:
                            th.flush()
                            box['r'] = 'returned'
                        except BaseException as ex:
                            box['r'] = 'raised %r' % (ex,)
                    t = threading.Thread(target=fl, daemon=True)
                    t.start()
                    t.join(3)
                    waited = {job_of[id(f)] for f in waits}
                    own = {tuple(j) for j in to_json(st['waited'])[h]} if isinstance(to_json(st['waited']), dict) else None
                    unfinished = {job_of[id(f)] for f in pools[h].futures if not f.done()}
                    if t.is_alive():
                        # it blocks on something we cannot see (another way of waiting): fine as long as it is held by
                        # an unfinished job of its own; let everything finish and go on to the next behaviour
                        for hh in pools:
                            for f in pools[hh].futures:
                                if not f.done():
                                    f.set_result(None)
                        t.join(15)
                        if not unfinished:
                            bad = 'flush blocked although every job of its handler had finished'
                        break
                    if box.get('r') != 'returned':
                        bad = 'flush %s' % box.get('r')
                        break
                    if not unfinished <= waited:
                        bad = 'flush(%s) returned without waiting for its unfinished job(s) %s (it waited for %s)' % (
                            h, sorted(unfinished - waited), sorted(waited))
                        break
                elif name == 'Reopen':
                    th.open()
            except BaseException as ex:
                bad = 'step %s raised %r' % (name, ex)
                break
            # projection: open flags and the job numbers each handler still tracks
            want_open = to_json(st['isOpen'])
            got_open = {k: bool(handlers[k]._open) for k in handlers}
            if got_open != want_open:
                bad = 'open flags %s, model %s' % (got_open, want_open)
                break
            running = {tuple(j) for j in to_json(st['running'])}
            for k in handlers:
                alive = {job_of[id(f)] for f in pools[k].futures if not f.done()}
                if alive != {j for j in running if j[0] == k}:
                    raise tlc.MachineryError('isolation replay lost track of the jobs: %s vs %s' % (alive, running))
                tracked = {job_of.get(id(f)) for f in handlers[k]._pending.values()}
                if not alive <= tracked:
                    bad = 'handler %s no longer tracks its unfinished job(s) %s (its table: %s)' % (
                        k, sorted(alive - tracked), sorted(x for x in tracked if x))
                    break
            if bad:
                break
        for hh in pools:
            for f in pools[hh].futures:
                if not f.done():
                    f.set_result(None)
        c.traces_validated += 1
        done += 1
        c.note_case(key=('isolation', str(steps)), nontrivial=len({s_[1] for s_ in steps}) == 2)
        if bad:
            p_ = c.save_replay({'direction': 'S2C', 'module': 'HandlerIsolation', 'steps': steps, 'mismatch': bad})
            c.violation('two handlers: %s after %s' % (bad, steps), p_)
            return
    c.sample({'direction': 'S2C', 'module': 'HandlerIsolation', 'walks': done})


def run(c):
    quick = c.tier == 'quick'
    rng = random.Random(c.seed)
    c.rule = ('cases = every schedule (bounded preemptions) of scripted submitters + flusher + 2 pool workers on the real '
              'TaskHandler with a controlled executor, at method-gate and at line granularity inside task/__init__.py, '
              'each recorded and validated by Trace_TaskFlush; plus randomized runs on the real 2-thread pool through '
              'PushService and a fake channel; non-trivial = a failing task or at least two tasks')
    c.assumptions = ['tasks finish within the 10 s that flush waits per task',
                     'ThreadPoolExecutor/Future semantics are those of CPython 3.12 (Future subclass used as the probe)']
    c.mc('TaskFlush', mc_cfg(subs=1, jobs=3, live=True), label='ideal, 1 submitter, 3 jobs, liveness',
         must_cover=['CheckOpen', 'NextId', 'PoolSubmit', 'Track', 'AddCallback', 'Start', 'Finish', 'WorkerCallback',
                     'FlushClose', 'FlushSnapshot', 'FlushWait', 'FlushReturn'])
    if not quick:
        c.mc('TaskFlush', mc_cfg(subs=2, jobs=3, live=False), label='ideal, 2 submitters, 3 jobs')
        c.mc('TaskFlush', mc_cfg(subs=2, jobs=2, live=True), label='ideal, 2 submitters, 2 jobs, liveness')
    c.mc_expect_violation('TaskFlush', mc_cfg(rr=True, subs=1, jobs=2, live=False), 'deviation ResultReRaises',
                          what='FlushNeverRaises')
    c.mc_expect_violation('TaskFlush', mc_cfg(iag=True, subs=1, jobs=2, live=False), 'deviation IndexAfterGet',
                          what='FlushNeverRaises')
    explore(c, SCRIPTS[:4] if quick else SCRIPTS, line_level=False, max_preemptions=2 if quick else 3,
            max_runs=250 if quick else 4000, kind='gate-schedule')
    explore(c, [SCRIPTS[6]] + SCRIPTS[1:3] if quick else [SCRIPTS[6]] + SCRIPTS[:5], line_level=True, max_preemptions=1 if quick else 2,
            max_runs=200 if quick else 3000, kind='line-schedule')
    real_pool_smoke(c, rng, 15 if quick else 150)
    wall_clock_leg(c)
    deep_wiring_leg(c)
    isolation_leg(c, rng, 60 if quick else 3000)


if __name__ == '__main__':
    core.main('C09', run)

"""C18 - resource identity: merge precedence, mandatory keys, bounded attribute store
(spec/Attributes.tla, spec/ResourceMerge.tla)."""
import os
import random

from .. import core, tlc
from .. import rig as R  # noqa: F401
from ..tlaparse import to_json

ENC_TEXT = 'src1%2Cx%3Dy%20z'        # one value: 'src1,x=y z'
ENC_VALUE = 'src1,x=y z'
VALUE_LIMIT = 5
VALUES = {'short_str': 'abc', 'long_str': 'abcdefghij', 'int': 7, 'bool': True, 'float': 1.5, 'bytes_ok': b'xyz',
          'bytes_bad': b'\xff\xfe', 'seq_same': ['a', 'b'], 'seq_none': ['a', None], 'seq_mixed': ['a', 1],
          'seq_badtype': [{'x': 1}], 'dict_value': {'a': 1}, 'none_value': None,
          'zero_int': 0, 'false_bool': False, 'empty_str': '', 'empty_seq': [],
          'seq_long': ['abcdefghij', 'b'], 'seq_bytes': [b'xyz', b'q'],
          'tup_same': ('a', 'b'), 'tup_long': ('abcdefghij', 'b'), 'tup_bytes': (b'xyz', b'q'),
          'bytes_long': '\u00e4\u00f6\u00fc\u00e4\u00f6\u00fc\u00e4\u00f6'.encode('utf-8'),
          'seq_bytes_long': ['\u00e4\u00f6\u00fc\u00e4\u00f6\u00fc\u00e4\u00f6'.encode('utf-8'), b'q']}
STORED = {'short_str': 'abc', 'cut_str': 'abcde', 'int': 7, 'bool': True, 'float': 1.5, 'decoded_str': 'xyz',
          'tuple_same': ('a', 'b'), 'tuple_with_none': ('a', None), 'zero_int': 0, 'false_bool': False,
          'empty_str': '', 'empty_tuple': (), 'tuple_cut': ('abcde', 'b'), 'tuple_decoded': ('xyz', 'q'),
          'decoded_cut_str': '\u00e4\u00f6\u00fc\u00e4\u00f6', 'tuple_decoded_cut': ('\u00e4\u00f6\u00fc\u00e4\u00f6', 'q')}
STORED_CLASS = {repr((type(v).__name__, v)): k for k, v in STORED.items()}
KEYS = {'empty_key': '', 'nonstr_key': 5}
ATTR_INVS = ['WithinCapacity', 'OnlyCleanValues', 'KeysUnique', 'EveryDropCounted']


def attr_cfg(ops=4):
    return dict(constants=dict(Caps=tlc.Lit('{0, 1, 2, NoCap}'), NoCap=tlc.Lit('NoCap'), MaxOps=ops,
                               GoodKeys={'k1', 'k2', 'k3'}),
                invariants=ATTR_INVS, properties=['FrozenRejectsAll'], deadlock=False)


def project(box):
    items = []
    for k, v in box.items():
        cls = STORED_CLASS.get(repr((type(v).__name__, v)), 'UNKNOWN:%r' % (v,))
        items.append({'k': k, 'v': cls})
    return items


def apply_op(box, op, key, vc):
    raised = False
    try:
        if op == 'set':
            box[KEYS.get(key, key)] = VALUES[vc]
        elif op == 'del':
            del box[key]
        else:
            box._immutable = True
    except (TypeError, KeyError):
        raised = True
    return raised


def record_sequence(rng, nops, nkeys, cap):
    from deep.api.attributes import BoundedAttributes
    box = BoundedAttributes(max_length=None if cap < 0 else cap, immutable=False, max_value_len=VALUE_LIMIT)
    keys = ['k%d' % i for i in range(1, nkeys + 1)]
    tr = [{'cap': cap}]
    for _ in range(nops):
        r = rng.random()
        if r < 0.8:
            op, key, vc = 'set', rng.choice(keys + ['empty_key', 'nonstr_key']), rng.choice(sorted(VALUES))
        elif r < 0.97:
            op, key, vc = 'del', rng.choice(keys), 'int'
        else:
            if box._immutable:
                continue
            op, key, vc = 'freeze', 'k1', 'int'
        raised = apply_op(box, op, key, vc)
        tr.append({'op': op, 'key': key, 'vc': vc, 'raised': raised, 'items': project(box), 'dropped': box.dropped})
    return tr


def attributes_leg(c, rng, quick):
    c.mc('Attributes', attr_cfg(4 if quick else 5), label='3 keys, caps {0,1,2,unbounded}', must_cover=['Freeze'])
    traces = []
    for _ in range(150 if quick else 15000):
        traces.append(record_sequence(rng, rng.choice([5, 20, 80, 300]), rng.choice([2, 4, 12]), rng.choice([-1, 0, 1, 2, 3, 8])))
    consts = dict(Caps=tlc.Lit('{}'), NoCap=tlc.Lit('NoCap'), MaxOps=100000,
                  GoodKeys={'k%d' % i for i in range(1, 13)})
    for lo in range(0, len(traces), 1000):
        chunk = traces[lo:lo + 1000]
        accepted, progress, r = tlc.validate_traces('Trace_Attributes', chunk, constants=consts,
                                                    invariants=['TraceInvariant'], timeout=1800)
        c.states += r.distinct
        c.transitions += r.generated
        if not r.ok:
            c.violation('TLC: %s on a recorded BoundedAttributes run' % r.violation,
                        c.save_replay({'module': 'Trace_Attributes', 'violation': r.violation}))
        for i, tr in enumerate(chunk):
            c.traces_validated += 1
            c.note_case(key=('attrs', str(tr[:6]), len(tr)), nontrivial=len(tr) >= 6)
            if i not in accepted:
                at = progress.get(i, 0)
                path = c.save_replay({'direction': 'C2S', 'module': 'Trace_Attributes', 'trace': tr, 'rejected_at': at})
                if c.violation('BoundedAttributes run (cap %s) rejected at operation %d: %s; before: %s'
                               % (tr[0]['cap'], at - 1, tr[at - 1] if at - 1 < len(tr) else None,
                                  tr[at - 2] if at >= 3 else None), path) and len(c.violations) >= 6:
                    return
    c.sample({'direction': 'C2S', 'module': 'Trace_Attributes', 'trace_head': traces[0][:5]})


def resource_case(srcs):
    """srcs: [[keys, schema] ...] for env, code, plugin1.. -> (owner map, problems)."""
    from deep.api.resource import Resource, SERVICE_NAME
    real_key = {'svc': SERVICE_NAME, 'k1': 'k1', 'k2': 'k2'}
    saved = {k: os.environ.get(k) for k in ('DEEP_RESOURCE_ATTRIBUTES', 'DEEP_SERVICE_NAME')}
    problems = []
    try:
        env = srcs[0]
        pairs = ['%s=%s' % (k, ENC_TEXT if env.get('encoded') else 'src1') for k in sorted(env['keys']) if k != 'svc']
        if 'svc' in env['keys'] and env.get('blank'):
            pairs.append('service.name=')
        os.environ.pop('DEEP_RESOURCE_ATTRIBUTES', None)
        os.environ.pop('DEEP_SERVICE_NAME', None)
        if pairs:
            os.environ['DEEP_RESOURCE_ATTRIBUTES'] = ','.join(pairs)
        if 'svc' in env['keys'] and not env.get('blank'):
            if env.get('emptyVar'):
                # the name comes through the attribute list, DEEP_SERVICE_NAME is exported but empty
                os.environ['DEEP_RESOURCE_ATTRIBUTES'] = ','.join(pairs + ['service.name=src1'])
                os.environ['DEEP_SERVICE_NAME'] = ''
            else:
                os.environ['DEEP_SERVICE_NAME'] = 'src1'
        code = srcs[1]
        res = Resource.create({real_key[k]: ('' if (k == 'svc' and code.get('blank')) else 'src2') for k in code['keys']},
                              code['schema'] or None)
        for i, p in enumerate(srcs[2:], 3):
            other = Resource({real_key[k]: ('' if (k == 'svc' and p.get('blank')) else 'src%d' % i) for k in p['keys']},
                             p['schema'] or None)
            before_a = dict(res.attributes), res.schema_url
            before_b = dict(other.attributes), other.schema_url
            merged = res.merge(other)
            if (dict(res.attributes), res.schema_url) != before_a or (dict(other.attributes), other.schema_url) != before_b:
                problems.append('merge modified an operand')
            res = merged
        owner = {}
        for k, rk in real_key.items():
            v = res.attributes.get(rk)
            if v is None:
                owner[k] = 99
            elif v == '':
                owner[k] = max(i for i, sr in enumerate(srcs, 1) if k in sr['keys'])   # the blank value of its last giver
            elif isinstance(v, str) and v.startswith('src'):
                owner[k] = int(v[3])
                if v not in ('src%d' % owner[k], ENC_VALUE):
                    problems.append('attribute %s arrived as %r' % (rk, v))
                if v == ENC_VALUE and not (owner[k] == 1 and srcs[0].get('encoded')):
                    problems.append('attribute %s = %r but nobody provided that' % (rk, v))
                if owner[k] == 1 and srcs[0].get('encoded') and k != 'svc' and v != ENC_VALUE:
                    problems.append('the environment gave %s the encoded value %r, it arrived as %r' % (rk, ENC_TEXT, v))
            else:
                owner[k] = 0
        for must in ('telemetry.sdk.language', 'telemetry.sdk.name', 'telemetry.sdk.version', SERVICE_NAME):
            if not res.attributes.get(must):
                problems.append('mandatory key %s missing' % must)
        try:
            res.attributes['x'] = 1
            problems.append('the resource attributes accepted a modification')
        except TypeError:
            pass
        from deep.grpc import convert_resource
        msg = convert_resource(res)
        wire = {kv.key: kv.value.string_value for kv in msg.attributes}
        for rk in real_key.values():
            if res.attributes.get(rk) is not None and wire.get(rk) != res.attributes.get(rk):
                problems.append('resource on the wire: %s=%r' % (rk, wire.get(rk)))
        return owner, res.schema_url, problems
    finally:
        for k, v in saved.items():
            if v is None:
                os.environ.pop(k, None)
            else:
                os.environ[k] = v


_deep_counter = [0]


def deep_start_case(srcs, second=None):
    """The same assembly done by the agent itself: Deep.start() with the environment and resource-provider plugins
    (srcs[1], the code source, provides nothing). Returns (owner per key, schema, problems); the resource is read from
    the configuration AND from the first poll request. With `second` (another list of sources) the agent is shut down,
    the environment and what the plugins provide are changed, and the SAME Deep object is started again: returns a
    list of two such triples - the second life's identity is that of the second environment."""
    import sys
    import types
    import deep.api.plugin as plugin_mod
    from deep.api.deep import Deep
    from deep.api.plugin import ResourceProvider
    from deep.api.resource import Resource, SERVICE_NAME
    from deep.config import ConfigService
    from deep.config.tracepoint_config import TracepointConfigService
    from deepproto.proto.poll.v1.poll_pb2 import PollResponse, ResponseType
    from .. import fakes
    real_key = {'svc': SERVICE_NAME, 'k1': 'k1', 'k2': 'k2'}
    saved = {k: os.environ.get(k) for k in ('DEEP_RESOURCE_ATTRIBUTES', 'DEEP_SERVICE_NAME')}
    saved_builtin = plugin_mod.DEEP_PLUGINS
    plugin_mod.DEEP_PLUGINS = []
    _deep_counter[0] += 1
    m = types.ModuleType('vres_%d_%d' % (os.getpid(), _deep_counter[0]))
    d = None
    current = {'srcs': srcs}
    results = []
    try:
        names = []
        for i in (3, 4):
            def make(i=i):
                class Provider(ResourceProvider):
                    def resource(self):
                        p = current['srcs'][i - 1]
                        return Resource({real_key[k]: ('' if (k == 'svc' and p.get('blank')) else 'src%d' % i)
                                         for k in p['keys']}, p['schema'] or None)
                Provider.__name__ = 'P%d' % i
                return Provider
            setattr(m, 'P%d' % i, make())
            names.append('%s.P%d' % (m.__name__, i))
        sys.modules[m.__name__] = m
        cfg = ConfigService({'SERVICE_URL': 'fake:1', 'SERVICE_SECURE': 'False', 'POLL_TIMER': 1000, 'NO_TRACE': True,
                             'PLUGINS': names}, tracepoints=TracepointConfigService())
        d = Deep(cfg)
        chan = fakes.FakeChannel()
        d.grpc.start = lambda: setattr(d.grpc, 'channel', chan)
        d.grpc._metadata = []
        polled = []

        def poll(request):
            polled.append({kv.key: kv.value.string_value for kv in request.resource.attributes})
            return PollResponse(ts_nanos=1, current_hash='', response_type=ResponseType.NO_CHANGE)
        chan.script('/poll', poll)
        for life_srcs in [srcs] + ([second] if second is not None else []):
            current['srcs'] = life_srcs
            problems = []
            env = life_srcs[0]
            pairs = ['%s=%s' % (k, ENC_TEXT if env.get('encoded') else 'src1') for k in sorted(env['keys']) if k != 'svc']
            if 'svc' in env['keys'] and env.get('blank'):
                pairs.append('service.name=')
            os.environ.pop('DEEP_RESOURCE_ATTRIBUTES', None)
            os.environ.pop('DEEP_SERVICE_NAME', None)
            if pairs:
                os.environ['DEEP_RESOURCE_ATTRIBUTES'] = ','.join(pairs)
            if 'svc' in env['keys'] and not env.get('blank'):
                if env.get('emptyVar'):
                    os.environ['DEEP_RESOURCE_ATTRIBUTES'] = ','.join(pairs + ['service.name=src1'])
                    os.environ['DEEP_SERVICE_NAME'] = ''
                else:
                    os.environ['DEEP_SERVICE_NAME'] = 'src1'
            del polled[:]
            d.start()
            res = cfg.resource
            owner = {}
            for k, rk in real_key.items():
                v = res.attributes.get(rk)
                if v is None:
                    owner[k] = 99
                elif isinstance(v, str) and v.startswith('src'):
                    owner[k] = int(v[3])
                    if v not in ('src%d' % owner[k], ENC_VALUE):
                        problems.append('attribute %s arrived as %r' % (rk, v))
                    if owner[k] == 1 and env.get('encoded') and k != 'svc' and v != ENC_VALUE:
                        problems.append('the environment gave %s the encoded value %r, it arrived as %r' % (rk, ENC_TEXT, v))
                else:
                    owner[k] = 0
            for must in ('telemetry.sdk.language', 'telemetry.sdk.name', 'telemetry.sdk.version', SERVICE_NAME):
                if not res.attributes.get(must):
                    problems.append('mandatory key %s missing' % must)
            if not polled:
                problems.append('no poll request was sent by start()')
            else:
                for rk in real_key.values():
                    if res.attributes.get(rk) is not None and polled[0].get(rk) != res.attributes.get(rk):
                        problems.append('resource in the poll request: %s=%r, configured %r' % (rk, polled[0].get(rk),
                                                                                              res.attributes.get(rk)))
            results.append((owner, res.schema_url, problems))
            d.shutdown()
        return results if second is not None else results[0]
    finally:
        try:
            if d is not None:
                d.shutdown()
        except BaseException:
            pass
        plugin_mod.DEEP_PLUGINS = saved_builtin
        sys.modules.pop(m.__name__, None)
        for k, v in saved.items():
            if v is None:
                os.environ.pop(k, None)
            else:
                os.environ[k] = v


def deep_start_leg(c, quick):
    cfg = dict(constants=dict(NPlugins=2, NoCode=True, PluginMayBlank=False), invariants=['ServiceNameAlways', 'ServiceNameNotBlankAfterCreate',
                                                                  'ServiceNameNeverBlank', 'LaterWins'], deadlock=False)
    c.mc('ResourceMerge', cfg, label='Deep.start: env, 2 plugins (a plugin may provide an empty service name)',
         must_cover=['Provide', 'MergeNext'])
    c.mc_expect_violation('ResourceMerge', dict(cfg, constants=dict(NPlugins=2, NoCode=True, PluginMayBlank=True)),
                          "deviation: a plugin's empty service name overrides the name", what='ServiceNameNeverBlank')
    sim = tlc.simulate('ResourceMerge', cfg, num=60 if quick else 2000, depth=12, seed=c.seed + 9)
    c.transitions += sim.generated
    seen = set()
    shown = 0
    cases = []
    for beh in sim.behaviours:
        final = beh[-1][2]
        if final['pc'] != 5:
            continue
        srcs = [{'keys': sorted(s['keys']), 'schema': s['schema'], 'blank': s['blank'], 'emptyVar': s['emptyVar'],
                 'encoded': s['encoded']}
                for s in to_json(final['srcs'])]
        if str(srcs) in seen:
            continue
        seen.add(str(srcs))
        cases.append((srcs, final))
    import threading
    # every case is the first life of one run and the second life (same Deep object, the environment and what the
    # plugins provide changed in between) of the previous one
    for idx, (srcs, final) in enumerate(cases):
        nxt = cases[(idx + 1) % len(cases)] if len(cases) > 1 else None
        out = {}

        def body():
            out['r'] = deep_start_case(srcs, second=nxt[0] if nxt else None)
        th = threading.Thread(target=body)       # start()/shutdown() touch the calling thread's trace hooks
        th.start()
        th.join(60)
        if 'r' not in out:
            raise tlc.MachineryError('Deep.start case did not finish')
        lives = out['r'] if nxt else [out['r']]
        for life_no, ((owner, schema, problems), (ls, lf)) in enumerate(zip(lives, [(srcs, final)] + ([nxt] if nxt else [])), 1):
            exp = {k: lf['acc']['owner'][k] for k in ('svc', 'k1', 'k2')}
            problems = list(problems)
            if owner != exp:
                problems.append('value sources %s, spec %s' % (owner, exp))
            if (schema or '') != lf['acc']['schema']:
                problems.append('schema %r, spec %r' % (schema, lf['acc']['schema']))
            c.traces_validated += 1
            c.note_case(key=('deep-start', life_no, str(ls)), nontrivial=sum(len(s_['keys']) for s_ in ls[2:]) >= 1)
            if problems:
                path = c.save_replay({'direction': 'S2C', 'module': 'ResourceMerge', 'via': 'Deep.start', 'life': life_no,
                                      'sources': ls, 'previous_life': srcs if life_no == 2 else None, 'problems': problems})
                if c.violation('Deep.start (life %d of one Deep object) with resource sources %s: %s' % (life_no, ls, problems[:2]),
                               path):
                    shown += 1
                    if shown >= 6:
                        return


def resource_leg(c, quick):
    c.mc('ResourceMerge', dict(constants=dict(NPlugins=2, NoCode=False, PluginMayBlank=False), invariants=['ServiceNameAlways', 'ServiceNameNotBlankAfterCreate', 'ServiceNameNeverBlank', 'LaterWins'],
                               deadlock=False), label='env, code, 2 plugins', must_cover=['Provide', 'MergeNext'])
    sim = tlc.simulate('ResourceMerge', dict(constants=dict(NPlugins=2, NoCode=False, PluginMayBlank=False), invariants=['ServiceNameAlways', 'ServiceNameNotBlankAfterCreate', 'ServiceNameNeverBlank', 'LaterWins'],
                                             deadlock=False), num=150 if quick else 4000, depth=12, seed=c.seed + 8)
    c.transitions += sim.generated
    seen = set()
    shown = 0
    for beh in sim.behaviours:
        final = beh[-1][2]
        if final['pc'] != 5:
            continue
        srcs = [{'keys': sorted(s['keys']), 'schema': s['schema'], 'blank': s['blank'], 'emptyVar': s['emptyVar'],
                 'encoded': s['encoded']}
                for s in to_json(final['srcs'])]
        if str(srcs) in seen:
            continue
        seen.add(str(srcs))
        owner, schema, problems = resource_case(srcs)
        exp = {k: final['acc']['owner'][k] for k in ('svc', 'k1', 'k2')}
        if owner != exp:
            problems.append('value sources %s, spec %s' % (owner, exp))
        if (schema or '') != final['acc']['schema']:
            problems.append('schema %r, spec %r' % (schema, final['acc']['schema']))
        c.traces_validated += 1
        c.note_case(key=('resource', str(srcs)), nontrivial=sum(len(s['keys']) for s in srcs) >= 2)
        if len(c.samples) < 3:
            c.sample({'direction': 'S2C', 'module': 'ResourceMerge', 'sources': srcs, 'expected_owner': exp})
        if problems:
            path = c.save_replay({'direction': 'S2C', 'module': 'ResourceMerge', 'sources': srcs, 'problems': problems})
            if c.violation('resource sources %s: %s' % (srcs, problems[:2]), path):
                shown += 1
                if shown >= 6:
                    return


def merge_in_leg(c, rng, n):
    """merge_in is a sequence of Set steps of the model (one per pair of the source, in the source's order): after random
    histories on two twin containers one gets `merge_in(source)`, the other the same pairs set one by one (each of those
    steps is what Trace_Attributes validates) - contents, order and drop counter agree. Sources: a dict, and containers
    with the same / another / no value limit, bounded and unbounded."""
    from deep.api.attributes import BoundedAttributes
    shown = 0
    for it in range(n):
        cap = rng.choice([None, 0, 1, 2, 3, 5])
        twins = [BoundedAttributes(max_length=cap, immutable=False, max_value_len=VALUE_LIMIT) for _ in range(2)]
        keys = ['k%d' % i for i in range(1, 7)]
        hist = []
        for _ in range(rng.randint(0, 6)):
            k, vc = rng.choice(keys), rng.choice(sorted(VALUES))
            hist.append((k, vc))
            for b in twins:
                apply_op(b, 'set', k, vc)
        pairs = [(rng.choice(keys + ['empty_key', 'nonstr_key']), rng.choice(sorted(VALUES))) for _ in range(rng.randint(1, 5))]
        kind = rng.choice(['dict', 'same_limit', 'other_limit', 'no_limit', 'bounded_source'])
        if kind == 'dict':
            source = {}
        else:
            source = BoundedAttributes(max_length=2 if kind == 'bounded_source' else None, immutable=False,
                                       max_value_len={'same_limit': VALUE_LIMIT, 'other_limit': VALUE_LIMIT + 3,
                                                      'no_limit': None, 'bounded_source': VALUE_LIMIT}[kind])
        for k, vc in pairs:
            try:
                source[KEYS.get(k, k)] = VALUES[vc]
            except TypeError:
                pass          # (a dict refuses an unhashable key itself)
        frozen = rng.random() < 0.1
        if frozen:
            for b in twins:
                b._immutable = True
        outcome = []
        for b, how in zip(twins, ('merge_in', 'one by one')):
            try:
                if how == 'merge_in':
                    b.merge_in(source)
                else:
                    for k, v in list(source.items()):
                        b[k] = v
                outcome.append('done')
            except TypeError:
                outcome.append('refused')
        a, b = twins
        bad = None
        if outcome[0] != outcome[1]:
            bad = 'merge_in %s, setting the pairs one by one %s' % tuple(outcome)
        elif list(a.items()) != list(b.items()) or a.dropped != b.dropped:
            bad = 'merge_in leaves %s dropped=%d, the same pairs set one by one %s dropped=%d' % (
                list(a.items()), a.dropped, list(b.items()), b.dropped)
        elif cap is not None and len(a) > cap:
            bad = '%d entries in a container of capacity %d' % (len(a), cap)
        c.traces_validated += 1
        c.note_case(key=('merge-in', cap, kind, str(hist), str(pairs)), nontrivial=len(hist) + len(pairs) >= 3)
        if bad:
            path = c.save_replay({'leg': 'merge_in', 'capacity': cap, 'history': hist, 'source_kind': kind, 'source': pairs,
                                  'frozen': frozen, 'problems': [bad]})
            if c.violation('merge_in of a %s source into a container of capacity %s (after %d sets): %s'
                           % (kind, cap, len(hist), bad), path):
                shown += 1
                if shown >= 4:
                    return


def limits_leg(c):
    """Containers of ANY configuration: the value limit as a parameter (the recorded runs use one limit). A limit that
    is no limit at all (negative) is refused like a negative capacity is, or - if accepted - still only ever shortens a
    string to a prefix of at most max(limit, 0) characters."""
    from deep.api.attributes import BoundedAttributes
    for limit in (None, 0, 1, 3, 5, 10, 11, -1, -3):
        for cap in (None, 0, 1, 2):
            problems = []
            try:
                box = BoundedAttributes(max_length=cap, immutable=False, max_value_len=limit)
            except ValueError:
                if limit is None or limit >= 0:
                    problems.append('a valid configuration was refused')
                box = None
            if box is not None:
                for given in ('', 'a', 'hello', 'abcdefghij', 'abcdefghijk'):
                    box['k'] = given
                    box['s'] = [given, 'zz']
                    for got in ([box['k'], box['s'][0]] if cap is None or cap >= 2 else []):
                        if limit is None:
                            ok = got == given
                        else:
                            ok = given.startswith(got) and len(got) == min(len(given), max(limit, 0))
                        if not ok:
                            problems.append('limit %r: %r stored as %r' % (limit, given, got))
            c.traces_validated += 1
            c.note_case(key=('limits', limit, cap), nontrivial=True)
            if problems:
                path = c.save_replay({'leg': 'limits', 'value_limit': limit, 'capacity': cap, 'problems': problems})
                if c.violation('BoundedAttributes(max_length=%r, max_value_len=%r): %s' % (cap, limit, problems[:3]), path):
                    return


def executable_name_leg(c):
    """ServiceNameAlways for every code-provided attribute set: the fallback name is built from
    process.executable.name, which - like every attribute - may be text, a number, a flag, bytes or a sequence."""
    from deep.api.resource import Resource, SERVICE_NAME, PROCESS_EXECUTABLE_NAME
    saved = {k: os.environ.pop(k, None) for k in ('DEEP_RESOURCE_ATTRIBUTES', 'DEEP_SERVICE_NAME')}
    try:
        for label, exe in (('text', 'worker'), ('number', 123), ('zero', 0), ('flag', True), ('float', 1.5),
                           ('bytes', b'worker'), ('sequence', ['a', 'b']), ('tuple', ('a', 'b')), ('empty', ''),
                           ('invalid', {'a': 1})):
            for env_exe in (False, True):
                for given_name in (None, '', 'mine'):
                    problems = []
                    attrs = {PROCESS_EXECUTABLE_NAME: exe}
                    if given_name is not None:
                        attrs[SERVICE_NAME] = given_name
                    os.environ.pop('DEEP_RESOURCE_ATTRIBUTES', None)
                    if env_exe:
                        os.environ['DEEP_RESOURCE_ATTRIBUTES'] = 'process.executable.name=fromenv'
                    try:
                        res = Resource.create(attrs)
                        name = res.attributes.get(SERVICE_NAME)
                        if not isinstance(name, str) or not name:
                            problems.append('service name %r' % (name,))
                        elif given_name and name != given_name:
                            problems.append('the given service name %r became %r' % (given_name, name))
                        elif not given_name and not name.startswith('unknown_service:'):
                            problems.append('fallback name %r' % (name,))
                        for must in ('telemetry.sdk.language', 'telemetry.sdk.name', 'telemetry.sdk.version'):
                            if not res.attributes.get(must):
                                problems.append('mandatory key %s missing' % must)
                    except Exception as e:
                        problems.append('Resource.create raised %s: %s' % (type(e).__name__, e))
                    c.traces_validated += 1
                    c.note_case(key=('exe-name', label, env_exe, given_name), nontrivial=True)
                    if problems:
                        path = c.save_replay({'leg': 'executable_name', 'executable_name': repr(exe), 'from_env_too': env_exe,
                                              'service_name_given': given_name, 'problems': problems})
                        if c.violation('Resource.create with process.executable.name=%r (service name given: %r): %s'
                                       % (exe, given_name, problems[:2]), path):
                            return
    finally:
        for k, v in saved.items():
            os.environ.pop(k, None)
            if v is not None:
                os.environ[k] = v


def run(c):
    quick = c.tier == 'quick'
    rng = random.Random(c.seed)
    c.rule = ('cases = (a) random operation sequences (set/delete/freeze, up to 300 operations, up to 12 keys, 13 value '
              'classes, invalid keys, capacities 0/1/2/3/8/unbounded) on a real BoundedAttributes recorded and validated '
              'by Trace_Attributes; (b) behaviours of ResourceMerge.tla (what environment, code and two plugins provide, '
              'schema URLs, empty service names from any source) assembled with the real Resource.create / merge and by '
              'Deep.start (two lives) and compared; (c) curated: the value limit as a parameter, every kind of '
              'process.executable.name in the service-name fallback; non-trivial = at least 5 '
              'operations / 2 provided keys')
    c.assumptions = ['Freeze is modelled by setting the flag the constructor sets last',
                     'environment-provided attributes are given through DEEP_RESOURCE_ATTRIBUTES / DEEP_SERVICE_NAME']
    attributes_leg(c, rng, quick)
    merge_in_leg(c, rng, 400 if quick else 40000)
    limits_leg(c)
    executable_name_leg(c)
    resource_leg(c, quick)
    deep_start_leg(c, quick)


if __name__ == '__main__':
    core.main('C18', run)

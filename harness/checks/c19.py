"""C19 - configuration resolves with documented precedence and works from the environment (spec/ConfigResolve.tla)."""
import json
import os
import subprocess
import sys
from concurrent.futures import ThreadPoolExecutor

from .. import core, tlc
from ..tlaparse import to_json

INVS = ['CodeWins', 'EnvBacksDocumented', 'AbsentOtherwise', 'ExclusionWins', 'AppIffIncludedOrRoot', 'SameEitherWay', 'FunctionsAreCalled', 'ShortIsSuffix', 'RootCodeWins', 'EachStartOnItsOwn']


def probe(case):
    env = {k: v for k, v in os.environ.items() if not k.startswith('DEEP_') or k == 'DEEP_VERIF'}
    p = subprocess.run([sys.executable, '-m', 'harness.cfgprobe', json.dumps(case)], env=env, cwd=tlc.VERIF,
                       stdout=subprocess.PIPE, stderr=subprocess.PIPE, timeout=120)
    for line in p.stdout.decode().split('\n'):
        if line.startswith('RESULT '):
            return json.JSONDecoder().raw_decode(line[7:])[0]
    raise tlc.MachineryError('config probe produced no result: %s %s' % (p.stdout[-300:], p.stderr[-600:]))


def lookup_case(case):
    key = 'SERVICE_URL' if case['key'] == 'documented' else 'MY_CUSTOM_KEY'
    pc = {'kind': 'lookup', 'key': key, 'code': {}, 'env': {}, 'callables': []}
    if case['code'] == 'none':
        pc['code'][key] = None
    elif case['code'] == 'value':
        pc['code'][key] = 'from-code'
    elif case['code'] in ('callable', 'method', 'partial'):
        pc['code'][key] = 'from-callable'
        pc['callables'] = [key]
        pc['callable_kind'] = case['code']
    if case['env'] == 'text':
        pc['env']['DEEP_' + key] = 'from-env'
    res = probe(pc)
    if 'error' in res:
        return 'lookup raised %s' % res['error']
    got = {'from-code': 'code', 'from-callable': 'code_called', 'from-env': 'env_text', 'deep:43315': 'default',
           None: 'absent'}.get(res.get('value'), 'other:%r' % (res.get('value'),))
    return got


CONSUMER_VALUES = {
    'POLL_TIMER': ({'POLL_TIMER': 0.02}, {'POLL_TIMER': '0.02'}, {'DEEP_POLL_TIMER': '0.02'}),
    'SERVICE_SECURE_false': ({'SERVICE_SECURE': False}, {'SERVICE_SECURE': 'False'}, {'DEEP_SERVICE_SECURE': 'False'}),
    'SERVICE_SECURE_true': ({'SERVICE_SECURE': True}, {'SERVICE_SECURE': 'True'}, {'DEEP_SERVICE_SECURE': 'True'}),
    'IN_APP_INCLUDE': ({'IN_APP_INCLUDE': ['/x/inc1', '/x/inc2']}, {'IN_APP_INCLUDE': '/x/inc1,/x/inc2'},
                       {'DEEP_IN_APP_INCLUDE': '/x/inc1,/x/inc2'}),
    'IN_APP_EXCLUDE': ({'IN_APP_EXCLUDE': ['/x/app/ex1', '/x/app/ex2']}, {'IN_APP_EXCLUDE': '/x/app/ex1,/x/app/ex2'},
                       {'DEEP_IN_APP_EXCLUDE': '/x/app/ex1,/x/app/ex2'}),
    'IN_APP_EXCLUDE_trailing_comma': ({'IN_APP_EXCLUDE': ['/x/app/ex1', '']}, {'IN_APP_EXCLUDE': '/x/app/ex1,'},
                                      {'DEEP_IN_APP_EXCLUDE': '/x/app/ex1,'}),
    'IN_APP_INCLUDE_empty': ({'IN_APP_INCLUDE': ['']}, {'IN_APP_INCLUDE': ''}, {'DEEP_IN_APP_INCLUDE': ''}),
    'IN_APP_EXCLUDE_empty': ({'IN_APP_EXCLUDE': ['']}, {'IN_APP_EXCLUDE': ''}, {'DEEP_IN_APP_EXCLUDE': ''}),
    'AUTH_BASIC': ({'SERVICE_AUTH_PROVIDER': 'deep.api.auth.BasicAuthProvider', 'SERVICE_USERNAME': 'u',
                    'SERVICE_PASSWORD': 'p'},) * 2 + ({'DEEP_SERVICE_AUTH_PROVIDER': 'deep.api.auth.BasicAuthProvider',
                                                        'DEEP_SERVICE_USERNAME': 'u', 'DEEP_SERVICE_PASSWORD': 'p'},),
    'SERVICE_URL': ({'SERVICE_URL': 'host1:1234'}, {'SERVICE_URL': 'host1:1234'}, {'DEEP_SERVICE_URL': 'host1:1234'}),
    'APP_ROOT': ({'APP_ROOT': '/x/app'}, {'APP_ROOT': '/x/app'}, {'DEEP_APP_ROOT': '/x/app'}),
    'NO_TRACE_false': ({'NO_TRACE': False}, {'NO_TRACE': 'false'}, {'DEEP_NO_TRACE': 'false'}),
    'NO_TRACE_true': ({'NO_TRACE': True}, {'NO_TRACE': 'true'}, {'DEEP_NO_TRACE': 'true'}),
}


def root_case(case):
    pc = {'kind': 'app_root_src', 'code': {}, 'env': {}}
    if case['code'] == 'value':
        pc['code']['APP_ROOT'] = '/x/from_code'
    if case['env'] == 'text':
        pc['env']['DEEP_APP_ROOT'] = '/x/from_env'
    res = probe(pc)
    if 'error' in res:
        return 'deep.start raised %s' % res['error']
    return {'/x/from_code': 'code', '/x/from_env': 'env_text', res.get('computed'): 'computed'}.get(
        res.get('root'), 'other:%r' % (res.get('root'),))


def consumer_case(case):
    setting, form = case['setting'], case['form']
    idx = {'code_typed': 0, 'code_text': 1, 'env_text': 2}[form]
    val = CONSUMER_VALUES[setting][idx]
    pc = {'code': {}, 'env': {}}
    if idx == 2:
        pc['env'] = dict(val)
    else:
        pc['code'] = dict(val)
    if setting == 'POLL_TIMER':
        pc['kind'] = 'poll_timer'
        res = probe(pc)
        ok = 'error' not in res and res.get('polls', 0) >= 5 and res.get('alive')
        return 'timer_keeps_firing' if ok else 'timer stopped: %s' % res
    if setting.startswith('SERVICE_SECURE') or setting == 'SERVICE_URL':
        pc['kind'] = 'channel'
        if setting == 'SERVICE_URL':
            pc['code']['SERVICE_SECURE'] = 'False'
        res = probe(pc)
        if 'error' in res or len(res.get('calls', [])) != 1:
            return 'channel not created: %s' % res
        k, url = res['calls'][0]
        if setting == 'SERVICE_URL':
            return 'channel_to_that_url' if url == 'host1:1234' else 'channel to %r' % url
        return k + '_channel'
    if setting == 'AUTH_BASIC':
        pc['kind'] = 'auth'
        res = probe(pc)
        ok = res.get('metadata') == [['authorization', 'Basic%20dTpw']]
        return 'basic_authorization_metadata' if ok else 'metadata %s' % res
    if setting == 'IN_APP_INCLUDE':
        pc['kind'] = 'app_frame'
        pc['code']['APP_ROOT'] = '/x/app'
        pc['paths'] = ['/x/inc1/m.py', '/x/inc2/m.py', '/x/other/m.py']
        res = probe(pc)
        fr = res.get('frames')
        ok = fr is not None and fr[0][0] is True and fr[1][0] is True and fr[2][0] is False \
            and fr[0][1] == '/x/inc1' and fr[1][1] == '/x/inc2'
        return 'both_prefixes_are_app' if ok else 'frames %s' % res
    if setting == 'IN_APP_EXCLUDE':
        pc['kind'] = 'app_frame'
        pc['code']['APP_ROOT'] = '/x/app'
        # the interpreter's own files (a virtualenv inside the application root) are never the application's: the same
        # in all three forms
        pc['paths'] = ['/x/app/ex1/m.py', '/x/app/ex2/m.py', '/x/app/ok/m.py', '<exec_prefix>/lib/site.py']
        pc['code']['APP_ROOT'] = '/'
        res = probe(pc)
        fr = res.get('frames')
        ok = fr is not None and fr[0][0] is False and fr[1][0] is False and fr[2][0] is True and fr[3][0] is False
        return 'both_prefixes_are_excluded' if ok else 'frames %s' % res
    if setting in ('IN_APP_EXCLUDE_trailing_comma', 'IN_APP_INCLUDE_empty', 'IN_APP_EXCLUDE_empty'):
        pc['kind'] = 'app_frame'
        pc['code']['APP_ROOT'] = '/x/app'
        pc['paths'] = ['/x/app/ex1/m.py', '/x/app/ok/m.py', '/y/lib/m.py']
        res = probe(pc)
        fr = res.get('frames')
        if fr is None:
            return 'frames %s' % res
        flags = [f[0] for f in fr]
        if setting == 'IN_APP_EXCLUDE_trailing_comma':
            return 'named_prefix_excluded_rest_of_root_app' if flags == [False, True, False] and fr[1][1] == '/x/app' \
                else 'frames %s' % fr
        want = 'only_root_is_app' if setting == 'IN_APP_INCLUDE_empty' else 'all_of_root_is_app'
        return want if flags == [True, True, False] and fr[0][1] == '/x/app' and fr[2][1] is None else 'frames %s' % fr
    if setting.startswith('NO_TRACE'):
        pc['kind'] = 'trace_hooks'
        res = probe(pc)
        return {True: 'hooks_installed', False: 'hooks_untouched'}.get(res.get('installed'), 'probe: %s' % res)
    if setting == 'APP_ROOT':
        pc['kind'] = 'app_root'
        pc['paths'] = ['/x/app/m.py', '/y/m.py']
        res = probe(pc)
        fr = res.get('frames')
        ok = fr is not None and fr[0] == [True, '/x/app'] and fr[1][0] is False
        return 'root_prefix_is_app' if ok else 'frames %s' % res
    return 'unknown setting'


def path_cases(c, cases):
    from .. import rig as R  # noqa: F401
    from deep.config import ConfigService
    from deep.config.tracepoint_config import TracepointConfigService

    import pathlib
    # three renderings of the segment sequences of the model. 'closed': prefixes end in a separator (text prefix and
    # path prefix coincide). 'open': prefixes are given the way deep.start() computes the root - no trailing separator -
    # and one segment's text begins with the other's ('/app' against '/app-vendor/...'): "under" is about PATHS.
    # 'pathlib': the prefixes are given in code as pathlib.Path objects.
    names = {'closed': {'a': 'a', 'b': 'b'}, 'open': {'a': 'app', 'b': 'app-vendor'}, 'pathlib': {'a': 'app', 'b': 'app-vendor'}}
    for st, rendering in [(st_, r_) for st_ in cases for r_ in ('closed', 'open', 'pathlib')]:
        def s(seq, rendering=rendering):
            return '/' + '/'.join(names[rendering][x] for x in seq) + ('/' if rendering == 'closed' else '')
        case, exp = st['case'], st['expected']
        file = s(case['file']) + ('' if rendering == 'closed' else '/') + 'm.py'
        inc = sorted(s(p) for p in case['inc'])
        exc = sorted(s(p) for p in case['exc'])
        root = s(case['root'])
        if rendering == 'pathlib':
            cfg = ConfigService({'IN_APP_INCLUDE': [pathlib.Path(x) for x in inc], 'IN_APP_EXCLUDE': [pathlib.Path(x) for x in exc],
                                 'APP_ROOT': pathlib.Path(root)}, tracepoints=TracepointConfigService())
        else:
            cfg = ConfigService({'IN_APP_INCLUDE': inc, 'IN_APP_EXCLUDE': exc, 'APP_ROOT': root},
                                tracepoints=TracepointConfigService())
        try:
            app, match = cfg.is_app_frame(file)
            bad = None
            if bool(app) != bool(exp['app']):
                bad = 'app flag %s, expected %s (by %s)' % (app, exp['app'], exp['by'])
            else:
                pool = {'exclude': exc, 'include': inc, 'root': [root], 'none': [None]}[exp['by']]
                match = match if match is None else str(match)
                if match not in pool or (match is not None and not file.startswith(match)):
                    bad = 'matched prefix %r, expected one of %s' % (match, pool)
            if bad is None:
                # the short path: the file name with the matched prefix removed
                from deep.processor.frame_collector import FrameCollector

                class Src:
                    is_app_frame = staticmethod(cfg.is_app_frame)
                fc = FrameCollector(Src(), None)
                short, flag = fc.parse_short_name(file)
                want = file if exp['by'] == 'none' else '/'.join([names[rendering][x] for x in exp['short']] + ['m.py'])
                # (a prefix given without its trailing separator leaves that separator at the front of the short path)
                if (short != want and not (rendering != 'closed' and short == '/' + want)) or bool(flag) != bool(exp['app']):
                    bad = 'short path %r (app=%s), expected %r' % (short, flag, want)
                # the frames of ONE stack are named by one collector, one after the other: what a frame is called does
                # not depend on the frames named before it
                for p_ in [x for x in inc + exc + [root] if x]:
                    if bad:
                        break
                    fc2 = FrameCollector(Src(), None)
                    fc2.parse_short_name(p_ + ('' if rendering == 'closed' else '/') + 'zz.py')
                    again = fc2.parse_short_name(file)
                    if (again[0], bool(again[1])) != (short, bool(flag)):
                        bad = 'named %r (app=%s) after a frame of %szz.py in the same stack, %r (app=%s) on its own' % (
                            again[0], again[1], p_, short, flag)
                # a prefix can name one FILE (a generated module next to hand-written ones): the file is excluded, the files
                # next to it are judged on their own - also when they follow it in one stack
                if not bad and rendering != 'pathlib':
                    sib = file.rsplit('/', 1)[0] + '/generated_one.py'
                    cfg3 = ConfigService({'IN_APP_INCLUDE': inc, 'IN_APP_EXCLUDE': exc + [sib], 'APP_ROOT': root},
                                         tracepoints=TracepointConfigService())

                    class Src3:
                        is_app_frame = staticmethod(cfg3.is_app_frame)
                    fc3 = FrameCollector(Src3(), None)
                    first = fc3.parse_short_name(sib)
                    again = fc3.parse_short_name(file)
                    if first[1]:
                        bad = 'the excluded file %s is an application frame' % sib
                    elif (again[0], bool(again[1])) != (short, bool(flag)):
                        bad = 'named %r (app=%s) after the excluded file %s of the same directory, %r (app=%s) on its own' % (
                            again[0], again[1], sib, short, flag)
        except BaseException as ex:
            bad = 'is_app_frame raised %r' % (ex,)
        c.traces_validated += 1
        c.note_case(key=('path', rendering, file, str(inc), str(exc), root), nontrivial=bool(inc or exc))
        if bad:
            path = c.save_replay({'direction': 'S2C', 'module': 'ConfigResolve', 'table': 'path', 'file': file, 'rendering': rendering,
                                  'include': inc, 'exclude': exc, 'root': root, 'what': bad})
            c.violation('is_app_frame(%s) with include=%s exclude=%s root=%s (%s): %s' % (file, inc, exc, root, rendering, bad), path)
            if len(c.violations) >= 6:
                return


def run(c):
    c.rule = ('cases = every state of ConfigResolve.tla: 16 lookup cases (documented/unknown key x code absent/None/'
              'value/callable x environment) and 24 consumer cases (8 documented settings x given as typed code value / '
              'text in code / DEEP_ environment variable), each run in a fresh interpreter against the real consumer '
              '(poll timer, channel creation, auth metadata, app-frame test, deep.start APP_ROOT), and 448 path cases '
              'against is_app_frame, each in three renderings (prefixes closed by a separator / open, one segment text '
              'beginning like the other / given as pathlib.Path); non-trivial = an environment or non-default form / a non-empty prefix list')
    c.assumptions = ['grpc.insecure_channel / secure_channel are replaced by recorders in the probe interpreter']
    r = c.mc('ConfigResolve', dict(invariants=INVS, deadlock=False), label='four tables', dump=True, coverage=False)
    states = [to_json(s) for s in r.graph.states.values()]
    c.exhaustive = True
    lookups = [s for s in states if s['table'] == 'lookup']
    consumers = [s for s in states if s['table'] == 'consumer']
    paths = [s for s in states if s['table'] == 'path']
    roots = [s for s in states if s['table'] == 'root']
    rootseqs = [s for s in states if s['table'] == 'rootseq']
    with ThreadPoolExecutor(12) as ex:
        rres = list(ex.map(lambda s: root_case(s['case']), roots))
        lres = list(ex.map(lambda s: lookup_case(s['case']), lookups))
        cres = list(ex.map(lambda s: consumer_case(s['case']), consumers))
    for s, got in zip(lookups, lres):
        c.traces_validated += 1
        c.note_case(key=('lookup', str(s['case'])), nontrivial=s['case']['env'] == 'text' or s['case']['code'] != 'absent')
        if got != s['expected']['src']:
            path = c.save_replay({'direction': 'S2C', 'module': 'ConfigResolve', 'table': 'lookup', 'case': s['case'],
                                  'got': got, 'expected': s['expected']['src']})
            c.violation('lookup %s resolved from %s, expected %s' % (s['case'], got, s['expected']['src']), path)
    for s, got in zip(roots, rres):
        c.traces_validated += 1
        c.note_case(key=('root', str(s['case'])), nontrivial=True)
        if got != s['expected']['src']:
            path = c.save_replay({'direction': 'S2C', 'module': 'ConfigResolve', 'table': 'root', 'case': s['case'],
                                  'got': got, 'expected': s['expected']['src']})
            c.violation('deep.start() with APP_ROOT %s took the application root from %s, expected %s'
                        % (s['case'], got, s['expected']['src']), path)
    for s, got in zip(consumers, cres):
        c.traces_validated += 1
        c.note_case(key=('consumer', str(s['case'])), nontrivial=True)
        if got != s['expected']['behaviour']:
            path = c.save_replay({'direction': 'S2C', 'module': 'ConfigResolve', 'table': 'consumer', 'case': s['case'],
                                  'got': got, 'expected': s['expected']['behaviour']})
            c.violation('setting %s given as %s: %s (expected %s)' % (s['case']['setting'], s['case']['form'], got,
                                                                      s['expected']['behaviour']), path,
                        signature={'setting': s['case']['setting'], 'form': s['case']['form']})
    # several configurations resolved in ONE process (table rootseq of ConfigResolve: each start on its own)
    import random as _random
    rs_rng = _random.Random(c.seed)
    if c.tier != 'quick':
        pick = rootseqs
    else:
        # always: the sequences in which no start names its root in code (every pair of sources); plus a sample
        must = [s_ for s_ in rootseqs if all(rc['code'] == 'absent' for rc in s_['case']) and len(s_['case']) == 2]
        rest = [s_ for s_ in rootseqs if s_ not in must]
        pick = must + rs_rng.sample(rest, min(len(rest), 6))

    def seq_case(st):
        seq = []
        for i, rc in enumerate(st['case']):
            if rc['code'] == 'value':
                seq.append('code')
            elif rc['env'] == 'text':
                seq.append('env')
            else:
                seq.append('computed_other' if i % 2 else 'computed_here')
        return seq, probe({'kind': 'root_sequence', 'seq': seq, 'code': {}, 'env': {}})
    with ThreadPoolExecutor(6) as ex:
        sres = list(ex.map(seq_case, pick))
    for st, (seq, res) in zip(pick, sres):
        c.traces_validated += 1
        c.note_case(key=('root-sequence', str(seq)), nontrivial=True)
        bad = None
        src_of = {'code': 'code', 'env': 'env_text', 'computed_here': 'computed', 'computed_other': 'computed'}
        if [src_of[x] for x in seq] != list(st['expected']['src']):
            raise tlc.MachineryError('root sequence %s does not realise the spec case %s' % (seq, st['case']))
        if 'error' in res:
            bad = 'raised %s' % res['error']
        elif res.get('roots') != res.get('want'):
            bad = 'application roots %s, expected %s' % (res.get('roots'), res.get('want'))
        elif res.get('plain_after') != res.get('plain_before'):
            bad = 'a configuration made afterwards without APP_ROOT resolves %r, before the agents were started it ' \
                  'resolved %r' % (res.get('plain_after'), res.get('plain_before'))
        if bad:
            path = c.save_replay({'direction': 'S2C', 'module': 'ConfigResolve', 'table': 'rootseq', 'seq': seq,
                                  'result': res})
            c.violation('agents configured one after the other in one process %s: %s' % (seq, bad), path)
    path_cases(c, paths)
    c.sample({'direction': 'S2C', 'lookup': lookups[0], 'consumer': consumers[0], 'path': paths[0]})


if __name__ == '__main__':
    core.main('C19', run)

"""C13 - a registration handle removes exactly its own tracepoint (spec/ConfigSync.tla Register/Unregister)."""
import sys

from .. import core, tlc
from .. import configsync_drv as D
from .. import rig as R
from . import c12


def behavioural(c, wd):
    """Which tracepoint remains is also checked by behaviour: hit the line, look at whose watches come back."""
    src = '''
def spot(a):
    b = a + 1
    return b  # TP:spot
'''
    mod, path, marks = R.write_host(wd, src)
    base = path.rsplit('/', 1)[-1]
    sysm = D.SyncSystem()
    push = R.RecordingPush()
    sysm.deep.trigger_handler._push_service = push
    clock = R.VirtualClock().install()
    try:
        line = marks['spot']
        inf = {'fire_count': '-1', 'fire_period': '0'}
        h1 = sysm.deep.register_tracepoint(base, line, dict(inf), ['a + 1000'])
        h2 = sysm.deep.register_tracepoint(base, line, dict(inf), ['a + 2000'])
        h3 = sysm.deep.register_tracepoint(base, line, dict(inf), ['a + 3000'])
        sysm.svc = 1
        sysm.do('PollAnswer', ('update',))

        def drain():
            while sysm.pool.queue:
                sysm.pool.take('W1')
                sysm.pool.apply('W1')

        def hit():
            del push.snapshots[:]
            tf_rig = R.Rig.__new__(R.Rig)
            tf_rig.handler = sysm.deep.trigger_handler
            tf_rig.escaped, tf_rig.returned_none, tf_rig.events, tf_rig.on_event = [], 0, 0, None
            res = R.Rig.run(tf_rig, mod.spot, 1, only_file=path)
            vals = sorted(s.var_lookup[w.result.vid].value for s, _ in push.snapshots for w in s.watches
                          if w.result is not None and w.result.vid in s.var_lookup)
            return res, vals, tf_rig.escaped
        steps = [('all three', None, ['1001', '2001', '3001']), ('unregister 2nd', h2, ['1001', '3001']),
                 ('unregister 2nd again', h2, ['1001', '3001']), ('unregister 3rd', h3, ['1001']),
                 ('unregister 1st', h1, [])]
        for name, handle, want in steps:
            if handle is not None:
                handle.unregister()
            drain()
            res, vals, esc = hit()
            c.traces_validated += 1
            c.note_case(key=('behavioural', name), nontrivial=True)
            if res != ('ok', 2) or esc or vals != want:
                p = c.save_replay({'kind': 'behavioural', 'step': name, 'got': vals, 'want': want, 'res': repr(res)})
                c.violation('registrations on one line, %s: snapshots carry watches %s, expected %s (host %r %r)'
                            % (name, vals, want, res, esc), p)
                break
        # a registration the agent cannot interpret fails visibly and changes nothing
        before = D.reg_tags(sysm.tps._custom), len(sysm.tps._custom)
        try:
            sysm.deep.register_tracepoint(base, line, {'stage': 'no_such_stage'}, ['r99'])
            visible = False
        except Exception:
            visible = True
        after = D.reg_tags(sysm.tps._custom), len(sysm.tps._custom)
        drain()
        res, vals, esc = hit()
        c.traces_validated += 1
        c.note_case(key=('behavioural', 'uninterpretable'), nontrivial=True)
        if not visible or before != after or res != ('ok', 2) or esc:
            p = c.save_replay({'kind': 'uninterpretable', 'visible': visible, 'before': before, 'after': after})
            c.violation('uninterpretable registration: raised=%s custom before=%s after=%s host=%r escaped=%s'
                        % (visible, before, after, res, esc), p)
    finally:
        clock.uninstall()
        sys.modules.pop(mod.__name__, None)


def while_shut_down_leg(c, wd):
    """register_tracepoint / unregister while the agent is shut down (between two lives): each call either does its work -
    a handle is returned, the tracepoint acts in the next life, unregister removes it - or is refused and changes
    nothing. A call that raises AND leaves a registration behind (no handle to remove it) is neither."""
    import threading
    import time
    from .. import lifecycle_drv as LD
    out = {}

    def body():
        sysm = LD.LifeSystem(wd, True, 'None', 'None')
        problems = []
        try:
            base = sysm.path.rsplit('/', 1)[-1]
            sysm.start()
            sysm.deep.shutdown()
            before = len(sysm.tps._custom)
            handle, raised = None, None
            try:
                handle = sysm.deep.register_tracepoint(base, sysm.marks['beat'], {'fire_count': '-1', 'fire_period': '0',
                                                                              'log_msg': 'registered {n}',
                                                                              'snapshot': 'no_collect'}, [])
            except BaseException as ex:
                raised = ex
            after = len(sysm.tps._custom)
            if raised is not None and after != before:
                problems.append('register_tracepoint() on a shut down agent raised %r AND left the registration behind: '
                                'no handle exists to remove it' % (raised,))
            if raised is None and handle is None:
                problems.append('register_tracepoint() returned no handle')
            sysm.start()
            t0 = time.time()
            while sysm.deep.task_handler._pending and time.time() - t0 < 5:
                time.sleep(0.005)
            ids = sorted({a.id for t in sysm.deep.trigger_handler._tp_config for a in t.actions})
            regs = [i for i in ids if i != 'life']
            if handle is not None and len(regs) != 1:
                problems.append('a tracepoint registered while the agent was shut down is not acted on in the next life '
                                '(installed: %s)' % ids)
            if handle is None and regs:
                problems.append('a refused registration is acted on in the next life (installed: %s)' % ids)
            sysm.deep.shutdown()
            if handle is not None:
                try:
                    handle.unregister()
                except BaseException as ex:
                    problems.append('unregister() on a shut down agent raised %r' % (ex,))
                if len(sysm.tps._custom) != before:
                    problems.append('unregister() on a shut down agent did not remove the registration')
        finally:
            sysm.close()
        out['problems'] = problems
    th = threading.Thread(target=body)
    th.start()
    th.join(90)
    if 'problems' not in out:
        raise tlc.MachineryError('while-shut-down case did not finish')
    c.traces_validated += 1
    c.note_case(key=('while-shut-down',), nontrivial=True)
    if out['problems']:
        p_ = c.save_replay({'kind': 'while-shut-down', 'problems': out['problems']})
        c.violation('registration API used between two lives of the agent: %s' % out['problems'][:2], p_)


def run(c):
    quick = c.tier == 'quick'
    wd = tlc.scratch('c13_')
    c.rule = ('cases = behaviours of ConfigSync.tla rich in Register/Unregister (several registrations on one location, '
              'repeated unregister, interleaved service updates) replayed on the real Deep.register_tracepoint / '
              'TracepointRegistration.unregister with state comparison after every action, plus a behavioural run (which '
              "registrations' watches come back when the line is hit); non-trivial = at least two registrations")
    c.assumptions = ['registrations are distinguished by their watch expression']
    c.mc('ConfigSync', c12.mc_cfg(ver=1, regs=3, polls=2), label='3 registrations, 1 service update',
         must_cover=['Register', 'Unregister', 'Apply'])
    c.mc_expect_violation('ConfigSync', c12.mc_cfg(hil=True, ver=0, regs=2, polls=0, invs=['RemovesExactlyIt']),
                          'deviation HandleIsLocation', what='RemovesExactlyIt')
    sim = tlc.simulate('ConfigSync', c12.mc_cfg(ver=1, regs=4, polls=2), num=200 if quick else 4000, depth=30,
                       seed=c.seed + 5)
    c.transitions += sim.generated
    c12.replay(c, sim.behaviours, 'register/unregister',
               want=lambda names: names.count('Register') >= 2 and 'Unregister' in names)
    c12.concurrent_leg(c, c12.CONCURRENT_SCRIPTS[2:], 2 if quick else 3, 400 if quick else 6000)
    behavioural(c, wd)
    c12.mixed_locations_leg(c)
    while_shut_down_leg(c, wd)


if __name__ == '__main__':
    core.main('C13', run)

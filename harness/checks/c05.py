"""C05 - collection is bounded and spends its budget breadth-first (spec/Collector.tla)."""
import random

from .. import core, tlc
from .. import graphs as G

INVS = ['CountBound', 'DepthBound', 'CollBound', 'BreadthFirst', 'LocalsFirst', 'CompleteWhenNotCut', 'Closed',
        'OneIdPerObject', 'TablesAligned', 'WatchClosed', 'WatchDedup', 'WatchBound', 'FramesShareBudget']
FRAMES2 = dict(n=2, kinds=('int', 'list'), max_child=2, max_roots=2, vars_set=(1, 2, 3, 4), str_set=(2,), coll_set=(2,),
               depth_set=(2, 3), max_frames=2)
SMALL = dict(n=2, kinds=('int', 'str', 'list', 'obj'), max_child=2, max_roots=2, vars_set=(1, 2, 3), str_set=(2,),
             coll_set=(1, 2), depth_set=(1, 2, 3))
MEDIUM = dict(n=3, kinds=('int', 'list', 'dict'), max_child=2, max_roots=2, vars_set=(1, 2, 4), str_set=(2,),
              coll_set=(1, 2), depth_set=(2, 3))
QUICK3 = dict(n=3, kinds=('int', 'list'), max_child=2, max_roots=2, vars_set=(2, 4), str_set=(2,), coll_set=(1, 2),
              depth_set=(3,))


def mc_cfg(b, pop=False, live=False, invs=INVS):
    return dict(spec='MCSpec',
                constants=dict(Instances=tlc.Lit('{}'), PopFromEnd=pop, DanglingOnBudget=b.get('dangling', False), N=b['n'],
                               KindsUsed=set(b['kinds']), MaxChild=b['max_child'], MaxRoots=b['max_roots'],
                               VarsSet=set(b['vars_set']), StrSet=set(b['str_set']), CollSet=set(b['coll_set']),
                               DepthSet=set(b['depth_set']), MaxWatch=b.get('max_watch', 0),
                               WVarsSet=set(b.get('wvars_set', (3,))), MaxFrames=b.get('max_frames', 0)),
                invariants=invs, properties=['NoRepeatDescent'] + (['Terminates'] if live else []), deadlock=False)


TRACE_CONSTS = dict(Instances=tlc.Lit('{}'), PopFromEnd=False, DanglingOnBudget=False)


def run_instances(c, insts, wd, kind, watches=()):
    """Run the real collector on each instance; returns (traces, meta)."""
    runner = G.CollectorRun(wd)
    traces, meta = [], []
    skipped = 0
    for inst in insts:
        built = G.build(inst)
        if built is None:
            skipped += 1
            continue
        res, snaps, escaped = runner.run(inst, built, watches=watches)
        hdr = G.instance_header(inst, built)
        problem = None
        result = None
        if res != ('ok', 0) or escaped:
            problem = 'host changed / handler raised: %r %r' % (res, escaped)
        elif len(snaps) != 1:
            problem = 'expected 1 snapshot, got %d' % len(snaps)
        else:
            try:
                result = G.project(snaps[0], built)
            except ValueError as ex:
                problem = str(ex)
        traces.append([hdr, result if result is not None else {'order': [], 'kids': [], 'vlen': [], 'trunc': [], 'wres': []}])
        meta.append({'kind': kind, 'instance': hdr, 'problem': problem,
                     'nvars': len(result['order']) if result else 0})
    return traces, meta, skipped


def run_pair_instances(c, pairs, wd, kind):
    """Two (or three) snapshot tracepoints on one line, each with its OWN limits, collecting the same frame in one event:
    every snapshot is judged against the Collector machine under the limits of its own tracepoint."""
    runner = G.CollectorRun(wd)
    traces, meta = [], []
    for insts in pairs:
        built = G.build(insts[0])
        if built is None:
            continue
        res, by, escaped = runner.run_pair(insts, built)
        for k, inst in enumerate(insts):
            hdr = G.instance_header(inst, built)
            problem, result = None, None
            if res != ('ok', 0) or escaped:
                problem = 'host changed / handler raised: %r %r' % (res, escaped)
            elif len(by.get(k, [])) != 1:
                problem = 'expected 1 snapshot of tracepoint %d of the line, got %d' % (k, len(by.get(k, [])))
            else:
                try:
                    result = G.project(by[k][0], built)
                except ValueError as ex:
                    problem = str(ex)
            traces.append([hdr, result if result is not None else {'order': [], 'kids': [], 'vlen': [], 'trunc': [], 'wres': []}])
            meta.append({'kind': '%s (tracepoint %d of %d on the line)' % (kind, k + 1, len(insts)), 'instance': hdr,
                         'problem': problem, 'nvars': len(result['order']) if result else 0})
    return traces, meta


def run_frame_instances(c, insts, wd, kind):
    """Instances with frames below the paused one (frame_type all_frame): one table, one budget, one identity cache."""
    runner = G.CollectorRun(wd)
    traces, meta = [], []
    skipped = 0
    for inst in insts:
        built = G.build(inst)
        if built is None:
            skipped += 1
            continue
        res, snaps, escaped = runner.run_frames(inst, built)
        hdr = G.instance_header(inst, built)
        problem, result = None, None
        if res != ('ok', 0) or escaped:
            problem = 'host changed / handler raised: %r %r' % (res, escaped)
        elif len(snaps) != 1:
            problem = 'expected 1 snapshot, got %d' % len(snaps)
        else:
            try:
                result = G.project(snaps[0], built, nframes=1 + len(inst['frames']))
            except ValueError as ex:
                problem = str(ex)
        traces.append([hdr, result if result is not None else {'order': [], 'kids': [], 'vlen': [], 'trunc': [], 'wres': []}])
        meta.append({'kind': kind, 'instance': hdr, 'problem': problem, 'nvars': len(result['order']) if result else 0})
    return traces, meta, skipped


def with_frames(rng, inst):
    n = len(inst['kind'])
    inst['frames'] = [[rng.randint(1, n) for _ in range(rng.randint(0, 3))] for _ in range(rng.randint(1, 3))]
    return inst


def validate(c, traces, meta):
    if not traces:
        return
    for lo in range(0, len(traces), 4000):
        chunk, cm = traces[lo:lo + 4000], meta[lo:lo + 4000]
        accepted, progress, r = tlc.validate_traces('Trace_Collector', chunk, constants=TRACE_CONSTS,
                                                    invariants=['TraceInvariant'], timeout=1800)
        c.states += r.distinct
        c.transitions += r.generated
        if not r.ok:
            path = c.save_replay({'direction': 'C2S', 'module': 'Trace_Collector', 'violation': r.violation})
            c.violation('TLC: %s while validating collector traces' % r.violation, path)
        for i, tr in enumerate(chunk):
            c.traces_validated += 1
            m = cm[i]
            inst = m['instance']
            size = len(inst['kind'])
            c.note_case(key=(m['kind'], str(inst)), nontrivial=m['nvars'] >= 3)
            bad = m['problem']
            if bad is None and i not in accepted:
                bad = 'snapshot disagrees with the Collector machine (result %s)' % (tr[1],)
            if bad:
                path = c.save_replay({'direction': 'C2S', 'module': 'Trace_Collector', 'meta': m, 'trace': tr})
                c.violation('%s: %s; instance %s' % (m['kind'], bad, inst), path)
                if len(c.violations) >= 10:
                    return
    c.sample({'direction': 'C2S', 'instance': meta[0]['instance'], 'result': traces[0][1]})


def concurrent_collections(c, rng, wd, ncases, max_runs):
    """Two threads collect at the same time, each for its own tracepoint with its own limits (one TriggerHandler).
    The agent renders application objects while it collects; every such rendering is a scheduling point, and every
    schedule with at most two forced switches is run. Each thread's snapshot must be what the Collector machine
    produces for ITS instance and ITS limits."""
    import sys
    from deep.api.tracepoint.trigger import LocationAction, LineLocation, Trigger, Location
    from .. import rig as R, sched as S
    runners = [G.CollectorRun(wd), G.CollectorRun(wd)]
    traces, meta = [], []
    for case in range(ncases):
        insts, builts = [], []
        for k in range(2):
            while True:
                inst = G.random_instance(rng, max_nodes=7, kinds=('int', 'str', 'list', 'dict', 'obj'))
                # the first local is an application object (so that there is a scheduling point early on)
                inst['kind'].append('obj')
                inst['child'].append([])
                inst['slen'].append(1)
                inst['roots'] = [len(inst['kind'])] + inst['roots']
                if k == 0:      # a tight tracepoint and a generous one
                    inst.update(maxVars=rng.choice([1, 2, 3]), maxStr=rng.choice([1, 2]), maxColl=rng.choice([0, 1]),
                                maxDepth=rng.choice([2, 3]))
                else:
                    inst.update(maxVars=1000, maxStr=1024, maxColl=10, maxDepth=5)
                built = G.build(inst)
                if built is not None:
                    break
            insts.append(inst)
            builts.append(built)

        def make_run():
            sch = S.Scheduler()
            rg = R.Rig()
            trigs, hosts = [], []
            for k in range(2):
                mod, path, marks = runners[k].host(len(insts[k]['roots']))
                mod.VALS = [builts[k].objs[r] for r in insts[k]['roots']]
                mod.W = []
                conf = {'watches': [], 'frame_type': 'single_frame', 'stack_type': 'stack', 'fire_count': '1',
                        'fire_period': '1000', 'log_msg': None,
                        'MAX_VARIABLES': insts[k]['maxVars'], 'MAX_STRING_LENGTH': insts[k]['maxStr'],
                        'MAX_COLLECTION_SIZE': insts[k]['maxColl'], 'MAX_VAR_DEPTH': insts[k]['maxDepth']}
                act = LocationAction('tp-%d' % k, None, conf, LocationAction.ActionType.Snapshot)
                trigs.append(Trigger(LineLocation(path.rsplit('/', 1)[-1], marks['frame'], Location.Position.START),
                                     [act]))
                hosts.append((mod, path))
            rg.install_triggers(trigs)
            results = {}
            G.STR_HOOK = lambda: sch.point('render')
            for k in range(2):
                def body(k=k):
                    results[k] = rg.run(hosts[k][0].frame_fn, only_file=hosts[k][1])
                sch.spawn('T%d' % k, body)

            def finish(sched, schedule):
                G.STR_HOOK = None
                snaps = {s.tracepoint.id: s for s in rg.snapshots()}
                out = (dict(results), snaps, list(rg.escaped), len(rg.snapshots()))
                rg.close()
                return out
            return sch, finish

        try:
            for schedule, (results, snaps, escaped, nsnaps) in S.explore(make_run, max_preemptions=2, max_runs=max_runs):
                for k in range(2):
                    hdr = G.instance_header(insts[k], builts[k])
                    problem, result = None, None
                    if results.get(k) != ('ok', 0) or escaped:
                        problem = 'host changed / handler raised: %r %r' % (results.get(k), escaped)
                    elif nsnaps != 2 or ('tp-%d' % k) not in snaps:
                        problem = 'expected one snapshot per thread, got %d' % nsnaps
                    else:
                        try:
                            result = G.project(snaps['tp-%d' % k], builts[k])
                        except ValueError as ex:
                            problem = str(ex)
                    traces.append([hdr, result if result is not None else
                                   {'order': [], 'kids': [], 'vlen': [], 'trunc': [], 'wres': []}])
                    meta.append({'kind': 'concurrent (other thread: limits %s, schedule %s)' % (
                        {x: insts[1 - k][x] for x in ('maxVars', 'maxStr', 'maxColl', 'maxDepth')}, _compress(schedule)),
                        'instance': hdr, 'problem': problem, 'nvars': len(result['order']) if result else 0})
        finally:
            G.STR_HOOK = None
            for k in range(2):
                mod, _, _ = runners[k].host(len(insts[k]['roots']))
                mod.VALS = None
    return traces, meta


def _compress(schedule):
    out = []
    for s_ in schedule:
        if out and out[-1][0] == s_:
            out[-1][1] += 1
        else:
            out.append([s_, 1])
    return out


def run(c):
    quick = c.tier == 'quick'
    rng = random.Random(c.seed)
    wd = tlc.scratch('c05_')
    c.rule = ('cases = object-graph instances (graph over N nodes with sharing/cycles, locals order, four limits): all '
              'instances of the small bound (sampled in quick) and random larger ones are built as real objects, '
              'collected by the real agent, and the projected table validated by Trace_Collector (machine result must be '
              'equal; C05/C07 invariants evaluated on every state); non-trivial = at least 3 variables recorded')
    c.assumptions = ['limits are set on the LocationAction config (the keys collection_config reads)',
                     'generated classes have deterministic str()']
    c.mc('MC_Collector', mc_cfg(SMALL, live=True), label='all graphs, 2 nodes, liveness', must_cover=['Step'])
    c.mc('MC_Collector', mc_cfg(QUICK3), label='all graphs, 3 nodes, 2 kinds', timeout=1800)
    c.mc('MC_Collector', mc_cfg(FRAMES2), label='all graphs, 2 nodes, up to 2 frames below the paused one', timeout=1800,
         must_cover=['FrameBegin', 'FrameStep'])
    if not quick:
        c.mc('MC_Collector', mc_cfg(MEDIUM), label='all graphs, 3 nodes', timeout=1800)
        big = dict(MEDIUM, kinds=('int', 'str', 'list', 'dict', 'obj'), vars_set=(1, 2, 3, 5), depth_set=(1, 2, 3))
        c.mc('MC_Collector', mc_cfg(big), label='all graphs, 3 nodes, 5 kinds', timeout=3000)
    nv = dict(n=3, kinds=('int', 'list'), max_child=1, max_roots=2, vars_set=(3, 4), str_set=(2,), coll_set=(2,),
              depth_set=(3,))
    c.mc_expect_violation('MC_Collector', mc_cfg(nv, pop=True, invs=['BreadthFirst']),
                          'deviation PopFromEnd vs BreadthFirst', what='BreadthFirst')
    c.mc_expect_violation('MC_Collector', mc_cfg(dict(nv, vars_set=(2,)), pop=True, invs=['LocalsFirst']),
                          'deviation PopFromEnd vs LocalsFirst', what='LocalsFirst')
    # conformance: enumerated small instances
    small = list(G.enumerate_small(**SMALL))
    rng.shuffle(small)
    take = small[:1500] if quick else small[:30000]
    traces, meta, skipped = run_instances(c, take, wd, 'enumerated-small')
    validate(c, traces, meta)
    # random larger instances
    rnd = [G.random_instance(rng) for _ in range(600 if quick else 12000)]
    traces, meta, sk2 = run_instances(c, rnd, wd, 'random')
    validate(c, traces, meta)
    # watches evaluated with a tiny watch budget: the count bound covers what watches add (WatchBound)
    from . import c07
    with c07.watch_budget(3):
        insts = [c07.with_watches(rng, G.random_instance(rng, max_nodes=8, kinds=('int', 'list', 'dict', 'obj')), None)
                 for _ in range(200 if quick else 4000)]
        for i in insts:
            i['maxVars'] = rng.choice([2, 3, 5])
        traces, meta, sk3 = c07.run_instances_budget(c, insts, wd, 'watches-small-budget', 3)
    validate(c, traces, meta)
    # the frames below the paused one (frame_type all_frame)
    fr = [with_frames(rng, G.random_instance(rng, max_nodes=8)) for _ in range(150 if quick else 4000)]
    traces, meta, sk4 = run_frame_instances(c, fr, wd, 'frames')
    validate(c, traces, meta)
    # several snapshot tracepoints on one line, each with limits of its own (a wide one first, a narrow one later, and
    # the other way round): every tracepoint's limits bound ITS snapshot
    pairs = []
    for _ in range(60 if quick else 2500):
        a = G.random_instance(rng, max_nodes=9)
        lims = [dict(maxVars=1000, maxStr=1024, maxColl=10, maxDepth=5),
                dict(maxVars=rng.choice([1, 2, 3, 5]), maxStr=rng.choice([0, 1, 2]), maxColl=rng.choice([0, 1, 2]),
                     maxDepth=rng.choice([1, 2, 3]))]
        if rng.random() < 0.5:
            lims.reverse()
        if rng.random() < 0.3:
            lims.append(dict(maxVars=rng.choice([2, 8]), maxStr=5, maxColl=3, maxDepth=2))
        pairs.append([dict(a, **lm) for lm in lims])
    traces, meta = run_pair_instances(c, pairs, wd, 'limits-per-tracepoint')
    validate(c, traces, meta)
    # two threads collecting at once, each within its own tracepoint's limits
    traces, meta = concurrent_collections(c, rng, wd, 6 if quick else 80, 25 if quick else 120)
    validate(c, traces, meta)
    c.extra['instances_not_constructible'] = skipped + sk2 + sk3 + sk4


if __name__ == '__main__':
    core.main('C05', run)

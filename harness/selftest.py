"""./check --selftest : demonstrate that the specifications are bound to the code.

For every Trace_* module: record a real execution, check TLC accepts it, then corrupt ONE recorded field (or drop one
event, i.e. one wrapper) and check TLC rejects it. A trace spec that constrains only length would accept the
corrupted traces; a missing hook would go unnoticed.
"""
import copy
import random
import sys

from . import tlc, core


def _verdicts(module, traces, consts, invariants=()):
    accepted, progress, r = tlc.validate_traces(module, traces, constants=consts, invariants=invariants)
    return [(i in accepted) and r.ok for i in range(len(traces))], r


def limiter():
    from .checks import c04
    wd = tlc.scratch('st_')
    rng = random.Random(1)
    cfg = {'ck': 'int', 'cv': 2, 'pk': 'int', 'pv': 2, 'ws': 0, 'we': 0, 'cm': 'expr'}
    tr, esc = c04.history_trace(rng, cfg, wd, 12, 4)
    bad1 = copy.deepcopy(tr)
    q = [i for i, e in enumerate(bad1) if e.get('ev') == 'Quiet' and e['count'] > 0][0]
    bad1[q]['count'] += 1                                   # one corrupted field
    bad2 = [e for e in tr if e.get('ev') != 'Process']      # one dropped wrapper
    bad3 = copy.deepcopy(tr)
    k = [i for i, e in enumerate(bad3) if e.get('ev') == 'CanEnd'][0]
    bad3[k]['res'] = not bad3[k]['res']
    return 'Trace_Limiter', [tr, bad1, bad2, bad3], c04.TRACE_CONSTS, ()


def taskflush():
    from .checks import c09
    sysm = c09.System(False, c09.SCRIPTS[2])
    sysm.spawn()
    while sysm.sched.enabled():
        sysm.sched.step(sysm.sched.enabled()[0])
    tr = sysm.finish()
    bad1 = copy.deepcopy(tr)
    k = [i for i, e in enumerate(bad1) if e.get('ev') == 'JobStart'][0]
    bad1[k]['w'] = 'S1'                                      # the task body ran on the submitting thread
    bad2 = [e for e in tr if e.get('ev') != 'CallbackEnd']
    bad3 = copy.deepcopy(tr)
    bad3[-1]['pending'] = [1]
    return 'Trace_TaskFlush', [tr, bad1, bad2, bad3], c09.TRACE_CONSTS, ()


def collector():
    from .checks import c05
    from . import graphs as G
    wd = tlc.scratch('st_')
    inst = {'kind': ['list', 'int', 'obj'], 'child': [[2, 3], [], [2]], 'slen': [1, 1, 1], 'roots': [1, 3],
            'maxVars': 5, 'maxStr': 5, 'maxColl': 2, 'maxDepth': 4}
    built = G.build(inst)
    res, snaps, esc = G.CollectorRun(wd).run(inst, built)
    tr = [G.instance_header(inst, built), G.project(snaps[0], built)]
    bad1 = copy.deepcopy(tr)
    bad1[1]['order'][2], bad1[1]['order'][3] = bad1[1]['order'][3], bad1[1]['order'][2]
    bad2 = copy.deepcopy(tr)
    bad2[1]['kids'][1] = bad2[1]['kids'][1][:-1]
    bad3 = copy.deepcopy(tr)
    bad3[1]['trunc'][2] = not bad3[1]['trunc'][2]
    return 'Trace_Collector', [tr, bad1, bad2, bad3], c05.TRACE_CONSTS, ('TraceInvariant',)


def dispatch():
    from .checks import c03, c15
    from . import dispatch_drv as D
    wd = tlc.scratch('st_')
    tps, plan = c15.CURATED[1]
    sc = D.Scenario(wd, 'st', tps)
    try:
        sc.run(plan)
        tr = sc.trace()
    finally:
        sc.close()
    bad1 = copy.deepcopy(tr)
    k = [i for i, e in enumerate(bad1) if e.get('fired')][0]
    bad1[k]['fired'] = bad1[k]['fired'][:-1]                 # a firing went unobserved
    bad2 = copy.deepcopy(tr)
    k = [i for i, e in enumerate(bad2) if e.get('closed')][0]
    bad2[k]['closed'] = []                                   # a span close went unobserved
    bad3 = copy.deepcopy(tr)
    k = [i for i, e in enumerate(bad3) if e.get('ev') == 'line' and not e.get('fired')][0]
    bad3[k]['fired'] = [1]                                   # a spurious firing
    return 'Trace_Dispatch', [tr, bad1, bad2, bad3], c03.TRACE_CONSTS, tuple(c03.TR_INVS)


def guard():
    good = [{'case': 'x'}, {'section': 'Match', 'kind': 'Exception'}, {'escaped': False, 'returned': 'self'}]
    bad1 = [{'case': 'x'}, {'section': 'Match', 'kind': 'Exception'}, {'escaped': True, 'returned': 'none'}]
    bad2 = [{'case': 'x'}, {'section': 'Action', 'kind': 'BaseException'}, {'escaped': False, 'returned': 'none'}]
    return 'Trace_Guard', [good, bad1, bad2], dict(OuterUnguarded=False, HasTracepoints=True), ()


def attributes():
    from .checks import c18
    for seed in range(3, 60):
        tr = c18.record_sequence(random.Random(seed), 120, 6, 2)
        if any(e.get('dropped', 0) > 0 for e in tr[1:]) and any(len(e.get('items', [])) == 2 for e in tr[1:]):
            break
    bad1 = copy.deepcopy(tr)
    k = [i for i, e in enumerate(bad1) if i > 0 and e['dropped'] > 0][0]
    bad1[k]['dropped'] -= 1
    bad2 = copy.deepcopy(tr)
    k = [i for i, e in enumerate(bad2) if i > 0 and len(e['items']) == 2][0]
    bad2[k]['items'] = list(reversed(bad2[k]['items']))
    consts = dict(Caps=tlc.Lit('{}'), NoCap=tlc.Lit('NoCap'), MaxOps=100000, GoodKeys={'k%d' % i for i in range(1, 13)})
    return 'Trace_Attributes', [tr, bad1, bad2], consts, ('TraceInvariant',)


def deepagent():
    from . import e2e_leg
    script = {'svc0': 1, 'ops': [['start'], ['settle'], ['hit'], ['svc', 2], ['settle'], ['hit'], ['shutdown'], ['hit']]}
    res = e2e_leg.run_script(script)
    tr = [{'svc': 1}] + res['events']
    bad1 = [e for e in tr if e.get('ev') != 'recv' or e.get('v') != 2]             # a delivery went missing
    bad2 = copy.deepcopy(tr)
    k = [i for i, e in enumerate(bad2) if e.get('ev') == 'recv'][0]
    bad2[k]['v'] = 7                                                              # a snapshot naming an unknown config
    bad3 = tr + [{'ev': 'recv', 'v': 2}]                                          # something arrives after shutdown
    return 'Trace_DeepAgent', [tr, bad1, bad2, bad3], e2e_leg.CONSTS, tuple(e2e_leg.INVS)


def main():
    ok = True
    for fn in (limiter, taskflush, collector, dispatch, guard, attributes, deepagent):
        module, traces, consts, invs = fn()
        good, r0 = _verdicts(module, traces[:1], consts, invs)
        line = '%-18s recorded trace accepted=%s' % (module, good[0])
        if not good[0]:
            ok = False
        for i, t in enumerate(traces[1:], 1):
            v, r = _verdicts(module, [t], consts, invs)
            line += '  corrupted#%d rejected=%s' % (i, not v[0])
            if v[0]:
                ok = False
        print(line)
    tlc.cleanup()
    print('selftest', 'ok' if ok else 'FAILED')
    sys.exit(0 if ok else 1)


if __name__ == '__main__':
    main()

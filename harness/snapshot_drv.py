"""Materialise a state of spec/Snapshot.tla as a real paused stack + tracepoints, and project the snapshots."""
import os
import sys

from . import rig as R

GLOBAL_VALUE = 22


def host_source(stack):
    """stack: list of frames top first [{nl, cls, app}]. Functions are generated bottom-up: the entry point is
    the bottom frame, the tracepoint line is in the top frame. Frames alternate between two files by `app`."""
    n = len(stack)
    src = {True: ['GV = %d\n' % GLOBAL_VALUE, 'import vlib_%(tag)s as other\n'],
           False: ['GV = %d\n' % GLOBAL_VALUE, 'import sys\n']}
    # frame i (0 = top) calls nothing; frame i+1 calls frame i
    names = []
    for i, f in enumerate(stack):
        names.append('fn%d' % i)
    return names


def build_host(workdir, stack, tag):
    """Returns (entry callable, app_root, {'file','line'} of the tracepoint, expected frames top first)."""
    app_dir = os.path.join(workdir, 'app_%s' % tag)
    # the other files live INSIDE the application root, in a directory the configuration excludes (a virtual environment
    # or vendored code in the project directory): exclusion wins over the root
    lib_dir = os.path.join(app_dir, 'lib_%s' % tag)
    os.makedirs(app_dir, exist_ok=True)
    os.makedirs(lib_dir, exist_ok=True)
    app_name = 'vapp_%s' % tag
    lib_name = 'vlib_%s' % tag
    lines = {True: ['GV = %d' % GLOBAL_VALUE, 'PEER = None', ''], False: ['GV = %d' % GLOBAL_VALUE, 'PEER = None', '']}
    expected = []
    n = len(stack)
    tp_line = None
    for i, f in enumerate(stack):
        out = lines[f['app']]
        callee = None
        if i > 0:
            prev = stack[i - 1]
            target = 'fn%d' % (i - 1) if prev['cls'] == 'none' else 'C%d().fn%d' % (i - 1, i - 1)
            callee = target if prev['app'] == f['app'] else 'PEER.' + target
        ind = ''
        if f['cls'] != 'none':
            out.append('class C%d:' % i)
            ind = '    '
            if f['cls'] == 'E':         # falsy: an empty container-like object
                out.append(ind + 'def __len__(self):')
                out.append(ind + '    return 0')
            elif f['cls'] == 'H':       # its truth value cannot be taken (array-likes)
                out.append(ind + 'def __bool__(self):')
                out.append(ind + "    raise ValueError('the truth value of this object is ambiguous')")
            out.append(ind + 'def fn%d(self):' % i)
        else:
            out.append('def fn%d():' % i)
        body = ind + '    '
        out.append(body + 'b = %d' % (i + 100))
        local_names = ['b'] + (['self'] if f['cls'] != 'none' else [])
        for k in range(f['nl']):
            out.append(body + 'x%d = "v%d_%d"' % (k, i, k))
            local_names.append('x%d' % k)
        if i == 0:
            out.append(body + 'return b  # TP')
            tp_line = len(out)
        else:
            out.append(body + 'return %s()' % callee)
        line_no = len(out)
        out.append('')
        expected.append({'fn': 'fn%d' % i, 'app': f['app'], 'cls': ('C%d' % i) if f['cls'] != 'none' else None,
                         'locals': sorted(local_names), 'line': line_no})
    paths = {True: os.path.join(app_dir, app_name + '.py'), False: os.path.join(lib_dir, lib_name + '.py')}
    mods = {}
    import importlib.util
    for flag in (True, False):
        with open(paths[flag], 'w') as fh:
            fh.write('\n'.join(lines[flag]) + '\n')
        name = app_name if flag else lib_name
        spec = importlib.util.spec_from_file_location(name, paths[flag])
        mod = importlib.util.module_from_spec(spec)
        sys.modules[name] = mod
        spec.loader.exec_module(mod)
        mods[flag] = mod
    mods[True].PEER = mods[False]
    mods[False].PEER = mods[True]
    bottom = stack[-1]
    bmod = mods[bottom['app']]
    i = n - 1
    if bottom['cls'] != 'none':
        entry = lambda: getattr(bmod, 'C%d' % i)().__getattribute__('fn%d' % i)()   # noqa: E731
    else:
        entry = getattr(bmod, 'fn%d' % i)
    for e, f in zip(expected, stack):
        e['file'] = paths[f['app']]
    top = stack[0]
    return entry, app_dir, {'file': paths[top['app']], 'line': tp_line}, expected, list(mods.values())


WATCH_EXPR = {'local': 'b + 1000', 'global': 'GV', 'failing': '1 // 0'}
WATCH_VALUE = {'local': '1100', 'global': str(GLOBAL_VALUE)}


def run_case(workdir, stack, tps, expire, tag, flipped=False):
    """Returns (reference_frames, snapshots(list of projected dicts), problems).

    flipped: the SAME files (same tag) are seen under a second configuration whose application root is the other
    directory - every frame's app flag and short path read the other way round."""
    from deep.api.tracepoint.trigger import LocationAction, LineLocation, Trigger, Location
    entry, app_dir, tp, expected, mods = build_host(workdir, stack, tag)
    lib_dir = os.path.join(app_dir, 'lib_%s' % tag)
    if flipped:
        app_dir = lib_dir
        rg = R.Rig(app_root=app_dir)
    else:
        rg = R.Rig(app_root=app_dir, custom={'IN_APP_EXCLUDE': [lib_dir]})
    problems = []
    try:
        base = os.path.basename(tp['file'])
        depth = len(stack)
        never = expire >= depth
        ids = ['tp-%d' % (i + 1) for i in range(len(tps))]
        if never:
            rg.install([{'id': ids[i], 'path': base, 'line': tp['line'],
                         'args': {'frame_type': t['ft']}, 'watches': [WATCH_EXPR[k] for k in t['w']]}
                        for i, t in enumerate(tps)])
        else:
            acts = []
            for i, t in enumerate(tps):
                conf = {'watches': [WATCH_EXPR[k] for k in t['w']], 'frame_type': t['ft'], 'stack_type': 'stack',
                        'fire_count': '1', 'fire_period': '1000', 'log_msg': None,
                        'MAX_TP_PROCESS_TIME': expire * 10 + 5}
                acts.append(LocationAction(ids[i], None, conf, LocationAction.ActionType.Snapshot))
            rg.install_triggers([Trigger(LineLocation(base, tp['line'], Location.Position.START), acts)])
            rg.clock.auto = 10_000_000     # every clock read advances 10 ms
        reference = []

        def on_event(frame, event, arg, phase):
            if phase == 'pre' and event == 'line' and frame.f_code.co_filename == tp['file'] \
                    and frame.f_lineno == tp['line'] and not reference:
                f = frame
                while f is not None:
                    slf = f.f_locals.get('self')
                    reference.append({'file': f.f_code.co_filename, 'fn': f.f_code.co_name, 'line': f.f_lineno,
                                      'cls': type(slf).__name__ if slf is not None else None,
                                      'locals': sorted(f.f_locals.keys())})
                    f = f.f_back
        rg.on_event = on_event
        files = {tp['file']} | {e['file'] for e in expected}
        tf = rg.tracer()

        def filt(frame, event, arg):
            if frame.f_code.co_filename not in files:
                return None
            return tf(frame, event, arg)
        old = sys.gettrace()
        sys.settrace(filt)
        try:
            res = entry()
        finally:
            sys.settrace(old)
        if res != 100:
            problems.append('host result %r' % (res,))
        if rg.escaped:
            problems.append('handler raised: %r' % (rg.escaped,))
        snaps = []
        for s in rg.snapshots():
            fr = []
            for f in s.frames:
                fr.append({'file': f.file_name, 'short': f.short_path, 'fn': f.method_name, 'line': f.line_number,
                           'cls': f.class_name, 'app': bool(f.app_frame),
                           'vars': sorted(v.name for v in f.variables),
                           'var_ids': [v.vid for v in f.variables]})
            ws = []
            for w in s.watches:
                val = None
                if w.error is None and w.result is not None:
                    v = s.var_lookup.get(w.result.vid)
                    val = (v.type, v.value) if v is not None else ('DANGLING', w.result.vid)
                ws.append({'expr': w.expression, 'source': w.source, 'error': w.error, 'value': val})
            t = s.tracepoint
            snaps.append({'frames': fr, 'watches': ws, 'table_id': id(s.var_lookup), 'table': s.var_lookup,
                          'tp': {'id': t.id, 'path': t.path, 'line': t.line_no, 'args': dict(t.args),
                                 'watches': list(t.watches)}, 'raw': s})
        return reference, expected, snaps, problems, app_dir
    finally:
        rg.close()
        for m in mods:
            sys.modules.pop(m.__name__, None)


def compare(stack, tps, expire, reference, expected, snaps, app_dir, should_collect):
    """Field-by-field comparison of the produced snapshots with the spec state and the reference reading."""
    out = []
    if len(snaps) != len(tps):
        out.append('expected %d snapshots (one per tracepoint), got %d' % (len(tps), len(snaps)))
        return out
    by_tp = {s['tp']['id']: s for s in snaps}
    tables = set()
    for i, t in enumerate(tps):
        s = by_tp.get('tp-%d' % (i + 1))
        if s is None:
            out.append('no snapshot names tracepoint tp-%d' % (i + 1))
            continue
        if s['table_id'] in tables:
            out.append('two snapshots of one event share one variable table object')
        tables.add(s['table_id'])
        # frames = the real stack, in order (the reference reading includes the harness frames below the host's)
        if len(s['frames']) != len(reference):
            out.append('tp-%d: %d frames, real stack has %d' % (i + 1, len(s['frames']), len(reference)))
            continue
        for idx, (f, r) in enumerate(zip(s['frames'], reference)):
            if (f['file'], f['fn'], f['line']) != (r['file'], r['fn'], r['line']):
                out.append('tp-%d frame %d is %s, real frame is %s' % (i + 1, idx, (f['file'], f['fn'], f['line']),
                                                                       (r['file'], r['fn'], r['line'])))
            if f['cls'] != r['cls']:
                out.append('tp-%d frame %d class %r, real %r' % (i + 1, idx, f['cls'], r['cls']))
            if idx < len(stack):
                e = expected[idx]
                if f['app'] != stack[idx]['app']:
                    out.append('tp-%d frame %d app flag %s, expected %s' % (i + 1, idx, f['app'], stack[idx]['app']))
                if stack[idx]['app'] and f['short'] != f['file'][len(app_dir):]:
                    out.append('tp-%d frame %d short path %r' % (i + 1, idx, f['short']))
                if not stack[idx]['app'] and f['short'] not in (f['file'], f['file'][len(os.path.dirname(f['file'])):]) \
                        and not f['file'].startswith(sys.exec_prefix):
                    out.append('tp-%d frame %d (not app) short path %r' % (i + 1, idx, f['short']))
                want = r['locals'] if (should_collect(t['ft'], idx) and idx < expire) else []
                if f['vars'] != want:
                    out.append('tp-%d (%s) frame %d variables %s, expected %s' % (i + 1, t['ft'], idx, f['vars'], want))
                if e['locals'] != r['locals']:
                    out.append('harness: reference locals %s differ from generated %s' % (r['locals'], e['locals']))
            else:
                want_any = should_collect(t['ft'], idx) and idx < expire
                if f['vars'] and not want_any:
                    out.append('tp-%d frame %d carries variables against frame_type %s' % (i + 1, idx, t['ft']))
            for vid in f['var_ids']:
                if vid not in s['table']:
                    out.append('tp-%d frame %d references variable id %r missing from the table' % (i + 1, idx, vid))
        # watches against that same (top) frame
        ws = [w for w in s['watches'] if w['source'] == 'WATCH']
        if [w['expr'] for w in ws] != [WATCH_EXPR[k] for k in t['w']]:
            out.append('tp-%d watches %s' % (i + 1, [w['expr'] for w in ws]))
        else:
            for w, k in zip(ws, t['w']):
                if k == 'failing':
                    ok = w['error'] is not None or (w['value'] and w['value'][0] == 'ZeroDivisionError')
                    if not ok:
                        out.append('tp-%d failing watch gave %s' % (i + 1, w))
                else:
                    if w['error'] is not None or not w['value'] or w['value'][1] != WATCH_VALUE[k]:
                        out.append('tp-%d watch %s gave %s, expected value %s' % (i + 1, k, w, WATCH_VALUE[k]))
        # the snapshot names the tracepoint that fired
        tp = s['tp']
        if tp['path'] != os.path.basename(expected[0]['file']) or tp['line'] != reference[0]['line']:
            out.append('tp-%d tracepoint location %s#%s' % (i + 1, tp['path'], tp['line']))
        if tp['watches'] != [WATCH_EXPR[k] for k in t['w']]:
            out.append('tp-%d tracepoint watches %s' % (i + 1, tp['watches']))
        if tp['args'].get('frame_type') != t['ft']:
            out.append('tp-%d tracepoint args %s' % (i + 1, tp['args']))
    return out

"""Object graphs: model instance -> real Python objects -> real collector -> projection for the spec."""
import itertools
import sys

from . import rig as R


STR_HOOK = None      # set by concurrent legs: called whenever the agent renders a VObj (a scheduling point)


class VObj:
    """User object: attributes in __dict__, deterministic str()."""

    def __init__(self, n):
        pass

    def __str__(self):
        if STR_HOOK is not None:
            STR_HOOK()
        return 'VObj'

    # equality as applications write it: fine among objects of the class, an error for anything else. Showing a value
    # never requires comparing it with another one.
    def __eq__(self, other):
        return self._verif_key == other._verif_key

    def __ne__(self, other):
        return self._verif_key != other._verif_key

    __hash__ = object.__hash__


class Facade:
    """What a transparent proxy claims to be."""


class VProxy:
    """A transparent proxy (weakref.proxy, LocalProxy, Mock(spec=..)): its __class__ names the wrapped class, its real
    type is VProxy. A snapshot shows the real type."""

    def __init__(self, n):
        pass

    def __str__(self):
        return 'VProxy'

    __class__ = property(lambda self: Facade)


class VStrObj(str):
    """An object whose class derives from a scalar type and that has attributes of its own (an IntEnum member, a str
    subclass carrying metadata): its type is VStrObj, its text is the text, its attributes are its children."""


class VExc(Exception):
    def __init__(self, n):
        super().__init__()

    def __str__(self):
        return 'VExc'


class VSlots:
    """The 'hostile' kind of the model: a value whose attributes cannot be read at all (whoever asks for its attribute
    dictionary - by any route - gets an error that is not an AttributeError). Recorded with its type and text, no
    children."""
    __slots__ = ('n',)

    def __init__(self, n):
        object.__setattr__(self, 'n', n)

    @property
    def __dict__(self):
        raise RuntimeError('the attributes of this value cannot be read')

    def __str__(self):
        return 'VSlots#%d' % object.__getattribute__(self, 'n')


class VObjS:
    """A user object whose class declares __slots__ (no attribute dictionary): an object like any other - its attributes
    are its children. Slots that were never assigned are simply not there."""
    __slots__ = ('a0', '_VObjective1', 'a2', '_VObjective3', 'a4', '__weakref__')

    def __init__(self, n):
        pass

    def __str__(self):
        if STR_HOOK is not None:
            STR_HOOK()
        return 'VObjS'

    def __eq__(self, other):
        return self._verif_key == other._verif_key

    __hash__ = object.__hash__


TOUCHED = []     # methods of application containers that were run while the agent looked at them


class VList(list):
    """A list of the application's own (a result set, a lazily loading collection): its methods are application code -
    showing the value must not run them."""

    def __iter__(self):
        TOUCHED.append('VList.__iter__')
        return list.__iter__(self)

    def __len__(self):
        TOUCHED.append('VList.__len__')
        return list.__len__(self)

    def __getitem__(self, i):
        TOUCHED.append('VList.__getitem__')
        return list.__getitem__(self, i)


class VDict(dict):
    """A mapping of the application's own (a settings object that records which keys were read)."""

    def keys(self):
        TOUCHED.append('VDict.keys')
        return dict.keys(self)

    def items(self):
        TOUCHED.append('VDict.items')
        return dict.items(self)

    def __iter__(self):
        TOUCHED.append('VDict.__iter__')
        return dict.__iter__(self)

    def __len__(self):
        TOUCHED.append('VDict.__len__')
        return dict.__len__(self)

    def __contains__(self, k):
        TOUCHED.append('VDict.__contains__')
        return dict.__contains__(self, k)

    def __getitem__(self, k):
        TOUCHED.append('VDict.__getitem__')
        return dict.__getitem__(self, k)


class VTuple(tuple):
    """A record type derived from tuple (what a namedtuple is)."""


# the concrete class of a container node varies with its number: the builtin, a class of the standard library derived
# from it (or behaving like it), an application class derived from it. Containers by any reading: element count as the
# text, the elements as children.
def new_list(n):
    import collections
    return (list, VList, collections.deque)[n % 3]()


def new_dict(n):
    import collections
    return (dict, collections.OrderedDict, VDict, lambda: collections.defaultdict(int))[n % 4]()


def new_tuple(n, items):
    return (tuple, VTuple)[n % 2](items)


MUTABLE = {'list', 'dict', 'obj', 'exc', 'proxy', 'sobj'}


class Built:
    def __init__(self):
        self.objs = {}        # node -> object
        self.node_of = {}     # id(obj) -> node
        self.slen = {}        # node -> expected length of the value text
        self.names = {}       # node -> child names in order


def plain_len(obj):
    for base in (dict, list, tuple, set, frozenset):
        if isinstance(obj, base):
            return base.__len__(obj)
    return len(obj)


def text_of(kind, obj):
    if kind in ('list', 'tuple', 'dict', 'set'):
        return 'Size: %d' % plain_len(obj)
    if kind == 'iter':
        return 'Iterator of type: %s' % type(obj)
    if kind == 'sstr':
        # text that is not valid UTF-8 is shown escaped (and the limits apply to what is shown)
        return obj.encode('utf-8', 'backslashreplace').decode('utf-8')
    return str(obj)


def build(inst):
    """inst: dict(kind=[..], child=[[..]..], slen=[..]) with 1-based nodes in lists (index n-1).
    Returns Built or None when the graph cannot exist in Python (a cycle through immutable tuples only)."""
    kind, child = inst['kind'], inst['child']
    n_nodes = len(kind)
    b = Built()
    for n in range(1, n_nodes + 1):
        k = kind[n - 1]
        if k == 'int':
            b.objs[n] = int(str(7_000_000 + n))
        elif k == 'str':
            want = inst['slen'][n - 1]
            b.objs[n] = ''.join(['s%d' % n] + ['x'] * want)[:want] if want > 0 else ''.join([])
        elif k == 'sstr':
            want = max(1, inst['slen'][n - 1])
            b.objs[n] = ''.join((['q%d' % n] + ['\udc80', 'z'] * want)[:want + 1])
        elif k == 'list':
            b.objs[n] = new_list(n)
        elif k == 'dict':
            b.objs[n] = new_dict(n)
        elif k == 'obj':
            b.objs[n] = VObj(n) if n % 3 else VObjS(n)
        elif k == 'proxy':
            b.objs[n] = VProxy(n)
        elif k == 'sobj':
            b.objs[n] = VStrObj('so%d' % n)
        elif k == 'exc':
            b.objs[n] = VExc(n)
        elif k == 'hostile':
            b.objs[n] = VSlots(n)
        elif k == 'iter':
            b.objs[n] = iter([1, 2, 3])
    # tuples need their children first
    todo = [n for n in range(1, n_nodes + 1) if kind[n - 1] == 'tuple']
    progress = True
    while todo and progress:
        progress = False
        for n in list(todo):
            if all(c in b.objs for c in child[n - 1]):
                b.objs[n] = new_tuple(n, [b.objs[c] for c in child[n - 1]])
                todo.remove(n)
                progress = True
    if todo:
        return None
    for n in range(1, n_nodes + 1):
        k = kind[n - 1]
        ch = [b.objs[c] for c in child[n - 1]]
        if k == 'list':
            b.objs[n].extend(ch)
            b.names[n] = [str(i) for i in range(len(ch))]
        elif k == 'tuple':
            b.names[n] = [str(i) for i in range(len(ch))]
        elif k == 'dict':
            # keys of different types whose TEXT is equal (0 and '0', 2 and '2'): different keys, one entry each
            keys = [(i if i % 2 == 0 else str(i - 1)) for i in range(len(ch))]
            for key, c in zip(keys, ch):
                b.objs[n][key] = c
            b.names[n] = [str(key) for key in keys]
        elif k in ('obj', 'proxy', 'sobj'):
            # every other attribute has a name that merely BEGINS like a mangled one (_VObj...): it is shown under its own
            # name - only a name the compiler mangled (_VObj__x) is shown as written in the class (__x)
            attrs = [('a%d' % i) if i % 2 == 0 else ('_VObjective%d' % i) for i in range(len(ch))]
            for name, c in zip(attrs, ch):
                setattr(b.objs[n], name, c)
            b.names[n] = attrs
        elif k == 'exc':
            # an application exception: what it was raised with (args) and the attributes it carries (a code, the
            # offending record) - both are shown, the arguments first
            na = (len(ch) + 1) // 2
            b.objs[n].args = tuple(ch[:na])
            attrs = ['detail%d' % i for i in range(len(ch) - na)]
            for name, c in zip(attrs, ch[na:]):
                setattr(b.objs[n], name, c)
            b.names[n] = [str(i) for i in range(na)] + attrs
        else:
            b.names[n] = []
    ids = {}
    for n, o in b.objs.items():
        if id(o) in ids:
            return None       # two nodes ended up as one object (e.g. the empty tuple singleton)
        ids[id(o)] = n
    b.node_of = ids
    for n, o in b.objs.items():
        b.slen[n] = len(text_of(kind[n - 1], o))
    del TOUCHED[:]
    return b


FRAME_SRC_HEAD = '''VALS = None
W = None


def frame_fn():
%s    return 0  # TP:frame
'''


def frame_source(nroots):
    body = ''.join('    v%d = VALS[%d]\n' % (i, i) for i in range(nroots))
    return FRAME_SRC_HEAD % body


def frames_source(counts):
    """counts[0] locals in the paused function, counts[j] locals in the j-th function below it (its caller's caller
    ...). The entry point is the bottom function `frame_entry`."""
    src = FRAME_SRC_HEAD % ''.join('    v%d = VALS[%d]\n' % (i, i) for i in range(counts[0]))
    src += '\nFVALS = None\n'
    prev = 'frame_fn'
    for j in range(1, len(counts)):
        src += '\n\ndef frame_%d():\n' % j
        src += ''.join('    f%d_v%d = FVALS[%d][%d]\n' % (j, i, j - 1, i) for i in range(counts[j]))
        src += '    return %s()\n' % prev
        prev = 'frame_%d' % j
    src += '\n\ndef frame_entry():\n    return %s()\n' % prev
    return src


def _touched():
    out = ['the agent ran application code while looking at a value: %s' % m for m in sorted(set(TOUCHED))]
    del TOUCHED[:]
    return out


class CollectorRun:
    """Runs the real agent once on a frame whose locals are the instance's roots (declaration order)."""

    def __init__(self, workdir):
        self.workdir = workdir
        self.hosts = {}

    def host(self, nroots):
        if nroots not in self.hosts:
            self.hosts[nroots] = R.write_host(self.workdir, frame_source(nroots))
        return self.hosts[nroots]

    def host_frames(self, counts):
        key = tuple(counts)
        if key not in self.hosts:
            self.hosts[key] = R.write_host(self.workdir, frames_source(counts))
        return self.hosts[key]

    def run_frames(self, inst, built, watches=()):
        """The paused frame and inst['frames'] frames below it, collected with frame_type all_frame. The time budget of
        the tracepoint ends the collection below the generated functions (the frames of the harness and of the thread
        bootstrap are listed without variables), which is why the case runs on a virtual clock that advances with
        every reading."""
        import threading
        from deep.api.tracepoint.trigger import LocationAction, LineLocation, Trigger, Location
        counts = [len(inst['roots'])] + [len(f) for f in inst['frames']]
        mod, path, marks = self.host_frames(counts)
        mod.VALS = [built.objs[r] for r in inst['roots']]
        mod.FVALS = [[built.objs[r] for r in f] for f in inst['frames']]
        mod.W = [built.objs[w] for w in inst.get('watch', [])]
        watches = list(watches) + ['W[%d]' % i for i in range(len(mod.W))]
        rg = R.Rig()
        out = {}
        try:
            conf = {'watches': list(watches), 'frame_type': 'all_frame', 'stack_type': 'stack', 'fire_count': '1',
                    'fire_period': '1000', 'log_msg': None,
                    'MAX_VARIABLES': inst['maxVars'], 'MAX_STRING_LENGTH': inst['maxStr'],
                    'MAX_COLLECTION_SIZE': inst['maxColl'], 'MAX_VAR_DEPTH': inst['maxDepth'],
                    'MAX_TP_PROCESS_TIME': len(counts) * 10 + 5}
            act = LocationAction('tp-coll', None, conf, LocationAction.ActionType.Snapshot)
            trig = Trigger(LineLocation(path.rsplit('/', 1)[-1], marks['frame'], Location.Position.START), [act])
            rg.install_triggers([trig])
            rg.clock.auto = 10_000_000     # every clock reading advances 10 ms

            def body():
                del TOUCHED[:]
                out['res'] = rg.run(mod.frame_entry, only_file=path)
            th = threading.Thread(target=body)
            th.start()
            th.join(60)
            return out.get('res'), rg.snapshots(), list(rg.escaped) + _touched()
        finally:
            mod.VALS = None
            mod.FVALS = None
            rg.close()

    def run_pair(self, insts, built):
        """The same frame collected by SEVERAL snapshot tracepoints of one line, each with its own limits (insts: the
        same graph with different limits). Returns (host result, {index: snapshot}, escaped)."""
        from deep.api.tracepoint.trigger import LocationAction, LineLocation, Trigger, Location
        inst = insts[0]
        mod, path, marks = self.host(len(inst['roots']))
        mod.VALS = [built.objs[r] for r in inst['roots']]
        mod.W = []
        rg = R.Rig()
        try:
            acts = []
            for k, it in enumerate(insts):
                conf = {'watches': [], 'frame_type': 'single_frame', 'stack_type': 'stack', 'fire_count': '1',
                        'fire_period': '1000', 'log_msg': None,
                        'MAX_VARIABLES': it['maxVars'], 'MAX_STRING_LENGTH': it['maxStr'],
                        'MAX_COLLECTION_SIZE': it['maxColl'], 'MAX_VAR_DEPTH': it['maxDepth']}
                acts.append(LocationAction('tp-coll-%d' % k, None, conf, LocationAction.ActionType.Snapshot))
            trig = Trigger(LineLocation(path.rsplit('/', 1)[-1], marks['frame'], Location.Position.START), acts)
            rg.install_triggers([trig])
            del TOUCHED[:]
            res = rg.run(mod.frame_fn, only_file=path)
            by = {}
            for s_ in rg.snapshots():
                by.setdefault(int(s_.tracepoint.id.rsplit('-', 1)[1]), []).append(s_)
            return res, by, list(rg.escaped) + _touched()
        finally:
            mod.VALS = None
            rg.close()

    def run(self, inst, built, watches=(), extra_conf=None, frame_type='single_frame', public=False, log_msg=None):
        from deep.api.tracepoint.trigger import LocationAction, LineLocation, Trigger, Location
        mod, path, marks = self.host(len(inst['roots']))
        mod.VALS = [built.objs[r] for r in inst['roots']]
        mod.W = [built.objs[w] for w in inst.get('watch', [])]
        watches = list(watches) + ['W[%d]' % i for i in range(len(mod.W))]
        rg = R.Rig()
        try:
            conf = {'watches': list(watches), 'frame_type': frame_type, 'stack_type': 'stack', 'fire_count': '1',
                    'fire_period': '1000', 'log_msg': log_msg,
                    'MAX_VARIABLES': inst['maxVars'], 'MAX_STRING_LENGTH': inst['maxStr'],
                    'MAX_COLLECTION_SIZE': inst['maxColl'], 'MAX_VAR_DEPTH': inst['maxDepth']}
            if extra_conf:
                conf.update(extra_conf)
            if public:
                # the way the service configures it: default limits, text arguments
                rg.install([{'id': 'tp-coll', 'path': path.rsplit('/', 1)[-1], 'line': marks['frame'],
                             'args': {'frame_type': frame_type}, 'watches': list(watches)}])
            else:
                act = LocationAction('tp-coll', None, conf, LocationAction.ActionType.Snapshot)
                trig = Trigger(LineLocation(path.rsplit('/', 1)[-1], marks['frame'], Location.Position.START), [act])
                rg.install_triggers([trig])
            del TOUCHED[:]
            res = rg.run(mod.frame_fn, only_file=path)
            return res, rg.snapshots(), list(rg.escaped) + _touched()
        finally:
            mod.VALS = None
            rg.close()


def project(snapshot, built, nframes=1):
    """Snapshot -> [order, kids, vlen, trunc] (1-based lists by variable id). Raises ValueError when the table is
    not interpretable (that is reported as a violation by the caller).

    The locals mapping of a frame is given an id while the frame is collected and is not an entry of the delivered
    table: the k-th id missing from the table stands for the mapping of frame k (order = -k, kids = that frame's
    variable list)."""
    look = snapshot.var_lookup
    ids = sorted(int(k) for k in look.keys())
    fvars = [[int(v.vid) for v in f.variables] for f in snapshot.frames[:nframes]]
    for f in snapshot.frames[nframes:]:
        if f.variables:
            raise ValueError('frame %s below the generated functions carries variables' % f.method_name)
    top = max(ids + [1] + [x for fv in fvars for x in fv])
    order, kids, vlen, trunc = [], [], [], []
    nextframe = 0
    for i in range(1, top + 1):
        v = look.get(str(i))
        if v is None:
            if nextframe >= nframes:
                raise ValueError('variable id %d missing from the table (ids must be dense)' % i)
            order.append(-nextframe)
            kids.append(fvars[nextframe] if nextframe < len(fvars) else [])
            vlen.append(0)
            trunc.append(False)
            nextframe += 1
            continue
        node = built.node_of.get(int(v.hash))
        if node is None:
            raise ValueError('variable id %d has hash %s of no built object' % (i, v.hash))
        order.append(node)
        kids.append([int(c.vid) for c in v.children])
        vlen.append(len(v.value))
        trunc.append(bool(v.truncated))
    # locals mappings recorded after the last table entry (their variables are all references to earlier entries)
    last = max([k for k in range(len(fvars)) if fvars[k]] + [-1])
    for k in range(nextframe, last + 1):
        order.append(-k)
        kids.append(fvars[k])
        vlen.append(0)
        trunc.append(False)
    wres = []
    for w in snapshot.watches:
        if w.error is not None or w.result is None:
            wres.append(0)
        elif w.result.vid is None:
            wres.append(-1)           # a reference without an id: dangling by construction
        else:
            wres.append(int(w.result.vid))
    return {'order': order, 'kids': kids, 'vlen': vlen, 'trunc': trunc, 'wres': wres}


def instance_header(inst, built):
    h = {k: inst[k] for k in ('kind', 'child', 'roots', 'maxVars', 'maxStr', 'maxColl', 'maxDepth')}
    h['kind'] = ['str' if k == 'sstr' else 'obj' if k in ('proxy', 'sobj') else k for k in h['kind']]
    h['slen'] = [built.slen[n] for n in range(1, len(inst['kind']) + 1)]
    h['watch'] = list(inst.get('watch', []))
    h['frames'] = [list(f) for f in inst.get('frames', [])]
    h['wlim'] = {'maxVars': 1000, 'maxStr': 1024, 'maxColl': 10, 'maxDepth': 5}    # VariableProcessorConfig defaults
    return h


# ---- generators
def enumerate_small(n, kinds, max_child, max_roots, vars_set, str_set, coll_set, depth_set):
    nodes = list(range(1, n + 1))
    childs = [list(t) for m in range(0, max_child + 1) for t in itertools.product(nodes, repeat=m)]
    per_node = []
    for k in kinds:
        if k in ('int', 'str', 'hostile', 'iter'):
            per_node.append((k, []))
        else:
            for ch in childs:
                per_node.append((k, ch))
    roots = [list(t) for m in range(1, max_roots + 1) for t in itertools.product(nodes, repeat=m)]
    for combo in itertools.product(per_node, repeat=n):
        for r in roots:
            for mv in vars_set:
                for ms in str_set:
                    for mc in coll_set:
                        for md in depth_set:
                            yield {'kind': [c[0] for c in combo], 'child': [c[1] for c in combo],
                                   'slen': [3 if c[0] == 'str' else 1 for c in combo], 'roots': r,
                                   'maxVars': mv, 'maxStr': ms, 'maxColl': mc, 'maxDepth': md}


def random_instance(rng, max_nodes=12, kinds=('int', 'str', 'sstr', 'list', 'tuple', 'dict', 'obj', 'exc', 'hostile',
                                               'proxy', 'sobj')):
    n = rng.randint(1, max_nodes)
    kind, child, slen = [], [], []
    for i in range(1, n + 1):
        k = rng.choice(kinds)
        kind.append(k)
        if k in ('int', 'str', 'sstr', 'hostile', 'iter'):
            child.append([])
        else:
            m = rng.choice([0, 1, 2, 2, 3, 5])
            child.append([rng.randint(1, n) for _ in range(m)])
        slen.append(rng.choice([0, 1, 3, 8, 30]) if k in ('str', 'sstr') else 1)
    roots = [rng.randint(1, n) for _ in range(rng.randint(1, 4))]
    return {'kind': kind, 'child': child, 'slen': slen, 'roots': roots,
            'maxVars': rng.choice([0, 1, 2, 3, 5, 8, 1000]), 'maxStr': rng.choice([0, 1, 2, 5, 1024]),
            'maxColl': rng.choice([0, 1, 2, 3, 10]), 'maxDepth': rng.choice([1, 2, 3, 4, 5])}

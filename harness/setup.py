"""./check --setup : verify the toolchain offline, SANY-parse every spec, byte-compile the harness."""
import compileall
import glob
import os
import shutil
import subprocess
import sys

from . import tlc


def main():
    ok = True
    for tool in ('java',):
        if shutil.which(tool) is None:
            print("missing tool:", tool)
            ok = False
    if not os.path.exists('/opt/veriftools/tla/tla2tools.jar'):
        print("missing tla2tools.jar")
        ok = False
    try:
        import hypothesis  # noqa: F401
    except Exception as ex:
        print("hypothesis not importable:", ex)
    sys.path.insert(0, '/repo/src')
    try:
        import deep  # noqa: F401
        import deepproto  # noqa: F401
    except Exception as ex:
        print("cannot import the repository package:", ex)
        ok = False
    wd = tlc.scratch('setup_')
    for f in glob.glob(os.path.join(tlc.SPEC, '*.tla')):
        shutil.copy(f, wd)
    mods = sorted(glob.glob(os.path.join(wd, '*.tla')))
    from concurrent.futures import ThreadPoolExecutor
    with ThreadPoolExecutor(8) as ex:
        res = list(ex.map(tlc.sany, mods))
    for m, (good, out) in zip(mods, res):
        if not good:
            print("SANY failed for", os.path.basename(m))
            print(out[-1500:])
            ok = False
    print("parsed %d TLA+ modules" % len(mods))
    if not compileall.compile_dir(os.path.join(tlc.VERIF, 'harness'), quiet=1):
        ok = False
    os.makedirs(os.path.join(tlc.VERIF, 'evidence'), exist_ok=True)
    tlc.cleanup()
    print("setup", "ok" if ok else "FAILED")
    sys.exit(0 if ok else 1)


if __name__ == '__main__':
    main()

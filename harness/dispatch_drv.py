"""Live executions of script-driven host programs under the real agent, recorded for Trace_Dispatch."""
import os
import sys
import threading

from . import rig as R
from . import hostprog as H
from deep.api.plugin.span import SpanProcessor, Span
from deep.api.plugin import Plugin, SnapshotDecorator


class _Span(Span):
    def __init__(self, proc, name, ctx_id, tp_id):
        self.proc = proc
        self._name = name
        self.tp_id = tp_id
        self.open_seq = proc.drv.current_seq()
        self.open_thread = threading.get_ident()
        self.closes = []

    name = property(lambda self: self._name)
    trace_id = property(lambda self: 't')
    span_id = property(lambda self: 's')

    def add_attribute(self, key, value):
        pass

    def add_event(self, name, attributes=None):
        pass

    def close(self):
        self.closes.append((threading.get_ident(), self.proc.drv.current_seq()))
        if self.proc.primary:
            self.proc.drv.effect('closed', self)


class _SpanProc(SpanProcessor):
    def __init__(self, drv, primary=True):
        Plugin.__init__(self, name='spanrec' if primary else 'spanrec2')
        self.drv = drv
        self.spans = []
        self.primary = primary      # the primary processor's spans are the ones the trace shows; a second healthy
                                    # processor's spans are only counted: each is closed exactly as often as its twin

    def is_active(self):
        return True

    def create_span(self, name, context_id, tracepoint_id):
        s = _Span(self, name, context_id, tracepoint_id)
        self.spans.append(s)
        if self.primary:
            self.drv.effect('opened', s)
        return s

    def current_span(self):
        return None


class _BrokenSpanProc(SpanProcessor):
    """A span processor that cannot create spans (its backend is down): it costs its own spans, nothing else - the spans
    of the processors before and after it are opened once and closed once."""

    def __init__(self, name):
        Plugin.__init__(self, name=name)

    def is_active(self):
        return True

    def create_span(self, name, context_id, tracepoint_id):
        raise RuntimeError('span backend unavailable')

    def current_span(self):
        return None


class _Decorator(SnapshotDecorator):
    def __init__(self, drv):
        Plugin.__init__(self, name='decrec')
        self.drv = drv

    def is_active(self):
        return True

    def decorate(self, snapshot_id, context):
        self.drv.effect('decorated', (snapshot_id, context))
        return None


class _Push:
    def __init__(self, drv):
        self.drv = drv
        self.snapshots = []

    def push_snapshot(self, snapshot):
        self.snapshots.append((snapshot, threading.get_ident()))
        self.drv.effect('snapshot', snapshot)
        if getattr(self.drv, 'refuse_push', False):
            # delivery is closed (the agent is being shut down by another thread): the hand-over is refused visibly -
            # which is the business of this snapshot only
            from deep.task import IllegalStateException
            raise IllegalStateException()


def tp_args(tp):
    args = {'fire_count': '-1', 'fire_period': '0'}
    if tp.get('faulty'):
        args['log_msg'] = 'bad x={x'          # malformed template: the formatter raises
        args['snapshot'] = 'no_collect'
        return args
    if tp['span'] == 'capture':
        args['stage'] = 'line_capture' if tp['kind'] == 'line' else 'method_capture'
    elif tp['span'] != 'none':
        args['span'] = tp['span']
        args['snapshot'] = 'no_collect'
    if tp['kind'] == 'method' and tp['name']:
        args['method_name'] = tp['name']
    # (a method tracepoint WITHOUT a name - span=method only - never acts: its location looks the function up in the
    #  source of the frame, which can fail; that must stay its own problem)
    return args


class Scenario:
    """tps: list of model tracepoints with 'file' in {'a','b'} and 'line' a marker name (or int)."""

    def __init__(self, workdir, tag, tps):
        self.host = H.Host(workdir, tag)
        self.model_tps = []
        self.reg_model, self.reg_real, self.reg_ids = [], [], {}
        real = []
        for tp in tps:
            line = tp['line']
            if isinstance(line, str):
                line = self.host.marks[tp['file']][line]
            m = dict(tp, file=self.host.base[tp['file']], line=line if tp['kind'] == 'line' else 0,
                     name=tp.get('name', '') if tp['kind'] == 'method' else '')
            rt = {'id': str(tp['id']), 'path': m['file'], 'line': line if tp['kind'] == 'line' else 0, 'args': tp_args(m)}
            if tp.get('reg'):
                # registered in code: in force alongside whatever the service sends, until unregistered (never, here)
                self.reg_model.append(m)
                self.reg_real.append(rt)
            else:
                self.model_tps.append(m)
                real.append(rt)
        self.all_model_tps = list(self.model_tps)
        self.all_real = list(real)
        for m_ in self.host.mods.values():
            m_.HOOK = self.reconfigure
        self.spanproc = _SpanProc(self)
        self.push = _Push(self)
        self.snap_open = {}
        self.deferred = []
        self.frame_results = {}
        self.spanproc2 = _SpanProc(self, primary=False)
        self.rig = R.Rig(plugins=[_BrokenSpanProc('brokenspan1'), self.spanproc, _Decorator(self),
                                  _BrokenSpanProc('brokenspan2'), self.spanproc2], push=self.push)
        # everything goes through the real TracepointConfigService: the service's part as poll answers, the rest as
        # registrations made in code
        self.rig.install_via_service(real)
        for m, rt in zip(self.reg_model, self.reg_real):
            self.reg_ids[self.rig.register(rt)] = m['id']
        self.refuse_push = any(tp.get('refuse_push') for tp in tps)
        if any(tp.get('hide_source') for tp in tps):
            # the source of the files cannot be loaded any more (generated code, .pyc only, a zipped application)
            import linecache
            for pth in self.host.paths.values():
                os.rename(pth, pth + '.gone')
            linecache.clearcache()
        self.lock = threading.Lock()
        self.seq = 0
        self.records = []
        self.tl = threading.local()
        self.idmap = {}
        self.results = {}
        self.leftover = None

    def close(self):
        self.rig.close()
        self.host.close()

    def reconfigure(self, mask):
        """Called by the host program in the middle of its run: the service's configuration now holds only the
        tracepoints whose index bit is set in mask (a fresh poll response: the agent builds new triggers)."""
        if getattr(self, 'no_agent', False) or getattr(self, 'stage_width', 1) > 1:
            return      # (with several threads running, "between two events" is not well defined: not exercised)
        keep = [i for i in range(len(self.all_model_tps)) if mask & (1 << i)]
        with self.lock:
            self.model_tps = [self.all_model_tps[i] for i in keep]
            self.rig.install_via_service([self.all_real[i] for i in keep])
            self.records.append({'ev': 'config', 'tps': [self._hdr_tp(t) for t in self.model_tps + self.reg_model]})

    @staticmethod
    def _hdr_tp(t):
        return dict(id=t['id'], kind=t['kind'], file=t['file'], name=t['name'], line=t['line'], span=t['span'],
                    faulty=bool(t.get('faulty', False)))

    def tpnum(self, raw):
        """Model id of a tracepoint: the service's carry it, registrations are known by their registration id."""
        return int(self.reg_ids.get(raw, raw))

    def current_seq(self):
        return getattr(self.tl, 'seq', 0)

    def effect(self, kind, obj):
        rec = getattr(self.tl, 'rec', None)
        if rec is None:
            with self.lock:
                self.records.append({'ev': 'stray', 'kind': kind})
            return
        if kind == 'decorated':
            snapshot_id, context = obj
            tp_id = self.tpnum(context.location_action.tracepoint.id)
            rec['fired'].append(tp_id)
            self.snap_open[snapshot_id] = (tp_id, rec['seq'], rec.get('frame'), threading.get_ident())
        elif kind == 'snapshot':
            opened = self.snap_open.get(obj.id_str)
            if opened is None:
                rec['fired'].append(self.tpnum(obj.tracepoint.id))      # pushed without having been decorated
            elif opened[1] != rec['seq']:
                rec['closed'].append([opened[0], opened[1]])      # a deferred snapshot completed by this event
                self.deferred.append((obj, opened, rec['seq'], threading.get_ident()))
        elif kind == 'opened':
            rec['fired'].append(self.tpnum(obj.tp_id))
        elif kind == 'closed':
            rec['closed'].append([self.tpnum(obj.tp_id), obj.open_seq])

    def thr(self):
        ident = threading.get_ident()
        with self.lock:
            if ident not in self.idmap:
                self.idmap[ident] = len(self.idmap) + 1
            return self.idmap[ident]

    def tracer(self):
        handler = self.rig.handler
        files = self.host.files
        drv = self

        blind = set()      # invocations without a local trace function of the agent (see below)

        def tf(frame, event, arg):
            if frame.f_code.co_filename not in files:
                return None
            with drv.lock:
                drv.seq += 1
                seq = drv.seq
                rec = {'seq': seq, 'ev': event, 'thr': 0, 'file': frame.f_code.co_filename.rsplit('/', 1)[-1],
                       'fn': frame.f_code.co_name, 'line': frame.f_lineno, 'fired': [], 'closed': [],
                       'frame': id(frame)}
                drv.records.append(rec)
                if event == 'return':
                    drv.frame_results.setdefault(id(frame), []).append((seq, 'return', arg))
                elif event == 'exception':
                    drv.frame_results.setdefault(id(frame), []).append((seq, 'exception', arg[0].__name__))
            rec['thr'] = drv.thr()
            # CPython semantics, emulated (this wrapper has to stay installed to observe): the value the global trace
            # function returns for a `call` event becomes the invocation's LOCAL trace function; None = this
            # invocation's line / return / exception events are not traced at all. (A None returned for a local event
            # changes nothing in CPython 3.12.)
            if event != 'call' and id(frame) in blind:
                rec['blind'] = True
                if event == 'return':
                    blind.discard(id(frame))
                return tf
            drv.tl.rec = rec
            drv.tl.seq = seq
            try:
                r = handler.trace_call(frame, event, arg)
                if r is None:
                    rec['returned_none'] = True
                    if event == 'call':
                        blind.add(id(frame))
                        rec['blind'] = True
                elif event == 'call':
                    blind.discard(id(frame))
            except BaseException as ex:
                rec['escaped'] = repr(ex)
            finally:
                drv.tl.rec = None
            return tf
        return tf

    def run_thread_body(self, entry, script, key):
        t = self.thr()
        with self.lock:
            self.records.append({'ev': 'tstart', 'thr': t})
        tf = self.tracer()
        sys.settrace(tf)
        try:
            try:
                self.results[key] = ('ok', self.host.entry(entry)(script))
            except BaseException as ex:
                self.results[key] = ('exc', type(ex).__name__)
        finally:
            sys.settrace(None)
            with self.lock:
                self.records.append({'ev': 'tend', 'thr': t})

    def run(self, plan):
        """plan: list of stages; a stage is a list of (entry, script) run concurrently in fresh threads; stages run
        one after the other (so that thread idents get reused)."""
        k = 0
        for stage in plan:
            ths = []
            self.stage_width = len(stage)
            for entry, script in stage:
                k += 1
                th = threading.Thread(target=self.run_thread_body, args=(entry, script, k), name='worker')
                ths.append(th)
            for th in ths:
                th.start()
            for th in ths:
                th.join(60)
        store = getattr(type(self.rig.handler._callbacks), '_ThreadLocal__store', {})
        self.leftover = {i: len(v) for i, v in store.items() if v is not None and len(v) > 0}
        for i in list(self.leftover):
            store.pop(i, None)

    def reference(self, plan):
        """The same plan without the agent: the host's own results."""
        out = {}
        k = 0
        self.no_agent = True
        try:
            for stage in plan:
                for entry, script in stage:
                    k += 1
                    try:
                        out[k] = ('ok', self.host.entry(entry)(script))
                    except BaseException as ex:
                        out[k] = ('exc', type(ex).__name__)
        finally:
            self.no_agent = False
        return out

    def span_problems(self):
        """Every healthy span processor gets a span of its own for every opening, closed exactly as often as its twin."""
        out = []
        a, b = self.spanproc.spans, self.spanproc2.spans
        if len(a) != len(b):
            out.append('the first span processor created %d spans, the second one %d' % (len(a), len(b)))
        for x, y in zip(a, b):
            if (x.tp_id, x.open_seq) != (y.tp_id, y.open_seq):
                out.append('span processors disagree on what was opened: %s vs %s' % ((x.tp_id, x.open_seq), (y.tp_id, y.open_seq)))
            elif len(x.closes) != len(y.closes):
                out.append('the span of tracepoint %s opened at event %s was closed %d time(s) for the first span '
                           'processor and %d time(s) for the second' % (x.tp_id, x.open_seq, len(x.closes), len(y.closes)))
        return out[:3]

    def capture_problems(self):
        """Deferred snapshots: completed on the opening thread, carrying the result of the opening invocation."""
        out = []
        for snap, (tp_id, open_seq, frame_id, open_thread), close_seq, close_thread in self.deferred:
            if close_thread != open_thread:
                out.append(('thread', 'deferred snapshot of tp %d completed on another thread' % tp_id))
            ends = [r for r in self.frame_results.get(frame_id, []) if r[0] > open_seq]
            caps = [w for w in snap.watches if w.source == 'CAPTURE']
            if close_seq < (ends[0][0] if ends else 0) and not caps:
                continue      # completed by a later line of the invocation: nothing captured, nothing to compare
            if not ends:
                out.append(('late', 'deferred snapshot of tp %d completed after its invocation was gone' % tp_id))
                continue
            first = ends[0]
            if not caps:
                continue
            # was a function of the same file+name entered again while the opening invocation was active?
            opener = [r for r in self.records if r.get('seq') == open_seq][0]
            nested = any(r.get('ev') == 'call' and r.get('seq', 0) > open_seq and r['seq'] < first[0]
                         and r['fn'] == opener['fn'] and r['file'] == opener['file'] and r['thr'] == opener['thr']
                         for r in self.records)
            tag = 'result-nested' if nested else 'result'
            w = caps[0]
            v = snap.var_lookup.get(w.result.vid) if w.result is not None else None
            if first[1] == 'return' or (len(ends) > 1 and ends[1][1] == 'return' and w.expression == 'return'):
                real = [r for r in ends if r[1] == 'return'][0]
                if w.expression != 'return' or v is None or v.value != str(real[2]):
                    out.append((tag, 'tp %d captured %s=%r, the invocation that opened it returned %r'
                                % (tp_id, w.expression, v.value if v else None, real[2])))
            else:
                if w.expression != 'exception':
                    out.append((tag, 'tp %d captured %s, the invocation raised %s' % (tp_id, w.expression,
                                                                                         first[2])))
                else:
                    # the exception passed through the opening invocation's frame - did the invocation RAISE it, or
                    # catch it and go on (a line of that frame runs after the exception event) and return normally?
                    final = [r for r in ends if r[1] == 'return']
                    caught = bool(final) and any(r.get('ev') == 'line' and r.get('frame') == frame_id
                                                 and first[0] < r.get('seq', 0) < final[-1][0] for r in self.records)
                    is_method = any(t['id'] == tp_id and t['kind'] == 'method' for t in self.all_model_tps)
                    if caught and is_method:
                        out.append(('result-caught', 'tp %d (method capture) recorded the exception %s as the result of an '
                                    'invocation that caught it and returned %r' % (tp_id, first[2], final[-1][2])))
        return out

    def trace(self):
        evs = []
        n = 0
        renum = {}
        for r in self.records:
            if r['ev'] in ('tstart', 'tend'):
                evs.append({'ev': r['ev'], 'thr': r['thr']})
            elif r['ev'] == 'config':
                evs.append(r)
            elif r['ev'] == 'stray':
                evs.append({'ev': 'stray', 'thr': 0})
            else:
                n += 1
                renum[r['seq']] = n
                evs.append(r)
        out = []
        for r in evs:
            if r['ev'] in ('tstart', 'tend', 'stray', 'config'):
                out.append(r)
            else:
                out.append({'ev': r['ev'], 'thr': r['thr'], 'file': r['file'], 'fn': r['fn'], 'line': r['line'],
                            'fired': sorted(r['fired']),
                            'closed': sorted([c[0], renum.get(c[1], 0)] for c in r['closed']),
                            'blind': bool(r.get('blind'))})
        hdr = {'tps': [self._hdr_tp(t) for t in self.all_model_tps + self.reg_model]}
        return [hdr] + out

"""Build real agent objects wired to fakes (clock, push service, channel, plugins)."""
import importlib.util
import os
import sys
import threading
import logging as _pylogging

REPO = os.environ.get('VERIF_REPO', '/repo')
if os.path.join(REPO, 'src') not in sys.path:
    sys.path.insert(0, os.path.join(REPO, 'src'))

_pylogging.getLogger('deep').setLevel(_pylogging.CRITICAL + 1)
_pylogging.getLogger('deep').propagate = False
_pylogging.getLogger().setLevel(_pylogging.CRITICAL + 1)

from deep.api.plugin import Plugin, SnapshotDecorator, TracepointLogger, ResourceProvider  # noqa: E402
from deep.api.plugin.metric import MetricProcessor  # noqa: E402
from deep.api.plugin.span import SpanProcessor, Span  # noqa: E402
from deep.api.resource import Resource  # noqa: E402
from deep.api.attributes import BoundedAttributes  # noqa: E402
from deep.config import ConfigService  # noqa: E402
from deep.config.tracepoint_config import TracepointConfigService  # noqa: E402
from deep.processor.trigger_handler import TriggerHandler  # noqa: E402

BASE_NS = 1_700_000_000_000_000_000
TICK_NS = 500_000_000       # one model tick = 500 ms, so the documented 1000 ms default period = 2 ticks
TICK_MS = 500


class VirtualClock:
    """time_ns() replacement: time moves only when the driver moves it."""

    _MODULES = ['deep.utils', 'deep.processor.context.trigger_context', 'deep.processor.frame_collector',
                'deep.api.tracepoint.eventsnapshot', 'deep.poll.poll']

    def __init__(self, tick=1):
        self.tick = tick
        self._saved = {}
        self.auto = 0      # ns added on every read (0 = frozen)
        self._extra = 0

    def now_ns(self):
        self._extra += self.auto
        return BASE_NS + self.tick * TICK_NS + self._extra

    def set(self, tick):
        self.tick = tick
        self._extra = 0

    def to_tick(self, ns):
        if ns == 0:
            return 0
        return (ns - BASE_NS) // TICK_NS

    def install(self):
        for name in self._MODULES:
            importlib.import_module(name)
            mod = sys.modules[name]
            if hasattr(mod, 'time_ns'):
                self._saved[name] = mod.time_ns
                mod.time_ns = self.now_ns
        return self

    def uninstall(self):
        for name, fn in self._saved.items():
            sys.modules[name].time_ns = fn
        self._saved = {}


class RecordingPush:
    """Stands in for PushService (same public surface the handler uses)."""

    def __init__(self):
        self.snapshots = []       # (snapshot, thread ident)
        self.lock = threading.Lock()
        self.fail = None

    def push_snapshot(self, snapshot):
        if self.fail is not None:
            raise self.fail
        with self.lock:
            self.snapshots.append((snapshot, threading.get_ident()))


class RecSpan(Span):
    def __init__(self, proc, name, ctx_id, tp_id):
        self.proc = proc
        self._name = name
        self.ctx_id = ctx_id
        self.tp_id = tp_id
        self.closed = 0
        self.open_thread = threading.get_ident()
        self.close_threads = []

    def _alive(self):
        # a span whose close() failed has lost its backing object (the built-in wrapper with a dead proxy behaves like
        # that): its accessors fail as well
        if getattr(self, 'dead', False):
            raise AttributeError('the backing span is gone')

    @property
    def name(self):
        self._alive()
        return self._name

    def __len__(self):
        # a span object may define __len__ (its attributes so far): an "empty" span is a span all the same
        return 0 if getattr(self.proc, 'falsy', False) else 1

    @property
    def trace_id(self):
        self._alive()
        return 't'

    @property
    def span_id(self):
        self._alive()
        return 's'

    def add_attribute(self, key, value):
        pass

    def add_event(self, name, attributes=None):
        pass

    def close(self):
        self.proc.record('close', self)
        if 'close' in self.proc.faults:
            self.dead = True
            raise self.proc.exc("span close failed")
        self.closed += 1
        self.close_threads.append(threading.get_ident())


class RecPlugin(ResourceProvider, SnapshotDecorator, TracepointLogger, SpanProcessor, MetricProcessor):
    """A plugin taking every role, recording every callback; `faults` names the callbacks that raise."""

    ROLES = ('resource', 'decorate', 'log', 'span', 'metric')

    def __init__(self, name='rec', roles=ROLES, faults=(), exc=Exception, order_=0, config=None, events=None,
                 falsy=False, resource_wrong_type=False):
        Plugin.__init__(self, name=name, config=config)
        self.falsy = falsy                      # the plugin object itself is falsy (it has a __len__ that returns 0)
        self.resource_wrong_type = resource_wrong_type
        self.roles = set(roles)
        self.faults = set(faults)
        self.exc = exc
        self.order_ = order_
        self.calls = []
        self.spans = []
        self.events = events if events is not None else []
        self.lock = threading.Lock()
        self.on_record = None

    def record(self, kind, *a):
        with self.lock:
            self.calls.append((kind,) + a)
            self.events.append((self.name, kind) + a)
        if self.on_record:
            self.on_record(self, kind, a)

    def is_active(self):
        return True

    def __len__(self):
        # a plugin that keeps a registry of series / spans / lines may well define __len__: whether it is "empty" says
        # nothing about whether it is a plugin
        return 0 if self.falsy else 1

    def order(self):
        if 'order' in self.faults:
            raise self.exc("order failed")
        return self.order_

    def shutdown(self):
        self.record('shutdown')
        if 'shutdown' in self.faults:
            raise self.exc("shutdown failed")

    def resource(self):
        self.record('resource')
        if 'resource' in self.faults:
            if self.resource_wrong_type:
                return {'plugin.' + self.name: 'not a Resource'}     # a faulty plugin: the wrong type instead of raising
            raise self.exc("resource failed")
        return Resource({'plugin.' + self.name: 'yes'})

    def decorate(self, snapshot_id, context):
        self.record('decorate', snapshot_id)
        if 'decorate' in self.faults:
            raise self.exc("decorate failed")
        return BoundedAttributes(attributes={'dec.' + self.name: 'yes'})

    def log_tracepoint(self, log_msg, tp_id, ctx_id):
        self.record('log', log_msg, tp_id, ctx_id)
        if 'log' in self.faults:
            raise self.exc("log failed")

    def create_span(self, name, context_id, tracepoint_id):
        if 'create_span' in self.faults:
            self.record('create_span_fail', name, context_id, tracepoint_id)
            raise self.exc("create span failed")
        s = RecSpan(self, name, context_id, tracepoint_id)
        self.spans.append(s)
        self.record('open', s)
        return s

    def current_span(self):
        return None

    def _metric(self, op, name, labels, namespace, help_string, unit, value):
        self.record('metric', op, name, dict(labels), namespace, help_string, unit, value)
        # a processor owns what it is handed (the prometheus one hands the dict on to its client): what one
        # processor does to its labels must not show up in what the next one receives
        labels['_touched_by'] = self.name
        if 'metric' in self.faults:
            raise self.exc("metric failed")

    def counter(self, name, labels, namespace, help_string, unit, value):
        self._metric('counter', name, labels, namespace, help_string, unit, value)

    def gauge(self, name, labels, namespace, help_string, unit, value):
        self._metric('gauge', name, labels, namespace, help_string, unit, value)

    def histogram(self, name, labels, namespace, help_string, unit, value):
        self._metric('histogram', name, labels, namespace, help_string, unit, value)

    def summary(self, name, labels, namespace, help_string, unit, value):
        self._metric('summary', name, labels, namespace, help_string, unit, value)


def role_plugin(name, roles, **kw):
    """A recording plugin class instance implementing only `roles` (so isinstance-based lookup is faithful)."""
    bases = []
    m = {'resource': ResourceProvider, 'decorate': SnapshotDecorator, 'log': TracepointLogger,
         'span': SpanProcessor, 'metric': MetricProcessor}
    for r in RecPlugin.ROLES:
        if r in roles:
            bases.append(m[r])
    ns = {}
    for attr in ('__init__', 'record', 'is_active', '__len__', 'order', 'shutdown', 'resource', 'decorate', 'log_tracepoint',
                 'create_span', 'current_span', '_metric', 'counter', 'gauge', 'histogram', 'summary'):
        ns[attr] = RecPlugin.__dict__[attr]
    ns['ROLES'] = RecPlugin.ROLES
    cls = type('RolePlugin_' + '_'.join(sorted(roles)), tuple(bases) or (Plugin,), ns)
    return cls(name=name, roles=roles, **kw)


class _SyncTasks:
    """Stands in for the TaskHandler where ordering is not the subject: the task runs at once, on the calling thread."""

    def submit_task(self, task, *args):
        from concurrent.futures import Future
        f = Future()
        try:
            f.set_result(task(*args))
        except BaseException as ex:
            f.set_exception(ex)
        return f


class Rig:
    """A real TriggerHandler + ConfigService + TracepointConfigService, fake push service and clock."""

    def __init__(self, plugins=None, custom=None, push=None, app_root=None):
        self.clock = VirtualClock().install()
        self.tps = TracepointConfigService()
        c = {'APP_ROOT': app_root or '/nonexistent-app-root'}
        if custom:
            c.update(custom)
        self.cfg = ConfigService(c, tracepoints=self.tps)
        self.cfg.plugins = list(plugins) if plugins is not None else []
        self.cfg.resource = Resource.create()
        self.push = push if push is not None else RecordingPush()
        self.handler = TriggerHandler(self.cfg, self.push)
        self.escaped = []          # exceptions that escaped trace_call
        self.returned_none = 0
        self.events = 0
        self.on_event = None

    def close(self):
        self.clock.uninstall()

    # -- installing tracepoints the way the service does
    def install(self, tps):
        """tps: list of dicts(id, path, line, args, watches, metrics[protobuf Metric])."""
        from deepproto.proto.tracepoint.v1.tracepoint_pb2 import TracePointConfig
        from deep.grpc import convert_response
        msgs = []
        for t in tps:
            msgs.append(TracePointConfig(ID=t['id'], path=t['path'], line_number=t.get('line', 0),
                                         args=t.get('args', {}), watches=t.get('watches', []),
                                         metrics=t.get('metrics', [])))
        triggers = convert_response(msgs)
        self.handler.new_config(triggers)
        return triggers

    def install_triggers(self, triggers):
        self.handler.new_config(triggers)

    # -- the same through the real TracepointConfigService (poll answer -> store -> listeners -> handler), with the
    #    background task run at once on the calling thread
    def install_via_service(self, tps):
        from deepproto.proto.tracepoint.v1.tracepoint_pb2 import TracePointConfig
        from deep.grpc import convert_response
        if self.tps._task_handler is None:
            self.tps.set_task_handler(_SyncTasks())
        self._svc_version = getattr(self, '_svc_version', 0) + 1
        msgs = [TracePointConfig(ID=t['id'], path=t['path'], line_number=t.get('line', 0), args=t.get('args', {}),
                                 watches=t.get('watches', []), metrics=t.get('metrics', [])) for t in tps]
        self.tps.update_new_config(self._svc_version, 'v%d' % self._svc_version, convert_response(msgs))

    def register(self, tp):
        """A tracepoint registered in code (Deep.register_tracepoint -> add_custom). Returns the registration id."""
        if self.tps._task_handler is None:
            self.tps.set_task_handler(_SyncTasks())
        return self.tps.add_custom(tp['path'], tp.get('line', 0), dict(tp.get('args', {})), list(tp.get('watches', [])),
                                   list(tp.get('metrics', [])))

    # -- the harness is the trace function
    def tracer(self, only_file=None):
        handler = self.handler
        rig = self

        blind = set()

        def tf(frame, event, arg):
            if only_file is not None and frame.f_code.co_filename != only_file:
                return None
            rig.events += 1
            if rig.on_event:
                rig.on_event(frame, event, arg, 'pre')
            # CPython semantics, emulated (this wrapper stays installed to observe): an invocation whose `call` event the
            # agent answered with None has no local trace function - the agent sees none of its later events
            if event != 'call' and id(frame) in blind:
                if event == 'return':
                    blind.discard(id(frame))
                if rig.on_event:
                    rig.on_event(frame, event, arg, 'post')
                return tf
            try:
                r = handler.trace_call(frame, event, arg)
            except BaseException as ex:     # an escape is an observation, never re-raised into the host
                rig.escaped.append((event, frame.f_code.co_name, frame.f_lineno, repr(ex)))
                r = 'escaped'
            if r is None:
                rig.returned_none += 1
                if event == 'call':
                    blind.add(id(frame))
            elif event == 'call':
                blind.discard(id(frame))
            if rig.on_event:
                rig.on_event(frame, event, arg, 'post')
            return tf

        return tf

    def run(self, fn, *args, only_file=None, **kw):
        """Run fn under the agent on the current thread; returns ('ok', value) or ('exc', type name, str)."""
        tf = self.tracer(only_file)
        old = sys.gettrace()
        sys.settrace(tf)
        try:
            try:
                v = fn(*args, **kw)
                res = ('ok', v)
            except BaseException as ex:
                res = ('exc', type(ex).__name__, str(ex))
        finally:
            sys.settrace(old)
        return res

    def snapshots(self):
        return [s for s, _ in self.push.snapshots]


def stats_of(action):
    """(fire_count, last_fire) of a LocationAction, read from outside."""
    st = action._LocationAction__stats
    return st.fire_count, st.last_fire


def actions_of(trigger):
    return trigger._Trigger__actions


_host_counter = [0]


def write_host(dirpath, source, name=None):
    """Write a host module and import it under a unique name; returns (module, path, {marker: line})."""
    _host_counter[0] += 1
    name = name or ('vhost_%d_%d' % (os.getpid(), _host_counter[0]))
    path = os.path.join(dirpath, name + '.py')
    with open(path, 'w') as f:
        f.write(source)
    marks = {}
    for i, line in enumerate(source.split('\n'), 1):
        if '# TP:' in line:
            marks[line.split('# TP:')[1].strip()] = i
    spec = importlib.util.spec_from_file_location(name, path)
    mod = importlib.util.module_from_spec(spec)
    sys.modules[name] = mod
    spec.loader.exec_module(mod)
    return mod, path, marks

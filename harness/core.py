"""Shared check plumbing: verdicts, evidence files, known findings, replay files."""
import json
import os
import sys
import time
import traceback

from . import tlc, tlaparse

VERIF = tlc.VERIF
EVIDENCE = os.path.join(VERIF, 'evidence')
REPLAYS = os.path.join(VERIF, 'replays')
KNOWN = os.path.join(VERIF, 'known_findings.json')


def load_known():
    if not os.path.exists(KNOWN):
        return []
    with open(KNOWN) as f:
        return json.load(f)


class Check:
    """One run of one property's check. Collects coverage and verdicts, writes the evidence file."""

    def __init__(self, pid, tier, seed):
        self.pid = pid
        self.tier = tier
        self.seed = seed
        self.t0 = time.time()
        self.states = 0
        self.transitions = 0
        self.traces_validated = 0     # behaviours replayed into the code + recorded traces validated by TLC
        self.evaluations = 0
        self.nontrivial = set()
        self.samples = []
        self.violations = []          # (what, replay_path)
        self.known_hits = []          # known-finding entries that were reproduced
        self.coverage_per_action = {}
        self.mc_runs = []
        self.exhaustive = True
        self.assumptions = []
        self.rule = ''
        self.extra = {}
        self.known = [k for k in load_known() if k.get('property') == pid and k.get('status') == 'known']

    # ---- model checking leg
    def mc(self, module, cfg, expect_ok=True, label=None, workers=16, timeout=1200, coverage=True, dump=False,
           must_cover=None):
        r = tlc.run(module, cfg=cfg, workers=workers, timeout=timeout, coverage=coverage, dump=dump)
        self.states += r.distinct
        self.transitions += r.generated
        self.mc_runs.append({'module': module, 'label': label or '', 'distinct': r.distinct,
                             'generated': r.generated, 'depth': r.depth, 'ok': r.ok, 'violation': r.violation,
                             'wall_s': round(r.wall, 2)})
        for k, v in r.coverage.items():
            od, og = self.coverage_per_action.get(module + '!' + k, (0, 0))
            self.coverage_per_action[module + '!' + k] = (od + v[0], og + v[1])
        if expect_ok:
            if not r.ok:
                path = self.save_replay({'direction': 'MC', 'module': module, 'cfg': _cfg_json(cfg), 'label': label,
                                         'violation': r.violation,
                                         'tlc_trace': [(a, tlaparse.to_json(args), tlaparse.to_json(s))
                                                       for a, args, s in r.trace]})
                self.violation("TLC: %s violated in %s (%s)" % (r.violation, module, label), path)
            elif must_cover:
                for a in must_cover:
                    if r.coverage.get(a, (0, 0))[1] == 0:
                        raise tlc.MachineryError("vacuous model: action %s of %s never taken (%s)" % (a, module, label))
        return r

    def mc_expect_violation(self, module, cfg, label, what=None, workers=16, timeout=600):
        """Non-vacuity: with a deviation switched on TLC must find a counterexample."""
        if what:
            # 16 workers report whichever property fails first: check ONLY the named one, so that the verdict of this
            # run does not depend on scheduling
            cfg = dict(cfg)
            invs, props = list(cfg.get('invariants') or []), list(cfg.get('properties') or [])
            if what in invs:
                cfg['invariants'], cfg['properties'] = [what], []
            elif what in props:
                cfg['invariants'], cfg['properties'] = [], [what]
        r = tlc.run(module, cfg=cfg, workers=workers, timeout=timeout)
        self.mc_runs.append({'module': module, 'label': label, 'distinct': r.distinct, 'generated': r.generated,
                             'ok': r.ok, 'violation': r.violation, 'expected_violation': True,
                             'wall_s': round(r.wall, 2)})
        if r.ok:
            raise tlc.MachineryError("non-vacuity failed: %s (%s) has no counterexample with the deviation on"
                                     % (module, label))
        if what and what not in (r.violation or ''):
            raise tlc.MachineryError("non-vacuity: expected %s, TLC reported %s (%s)" % (what, r.violation, label))
        return r

    # ---- bookkeeping
    def sample(self, s, limit=6):
        if len(self.samples) < limit:
            self.samples.append(s)

    def note_case(self, key=None, nontrivial=False):
        self.evaluations += 1
        if nontrivial and key is not None:
            self.nontrivial.add(key)

    def save_replay(self, obj):
        os.makedirs(REPLAYS, exist_ok=True)
        obj = dict(obj)
        obj.setdefault('property', self.pid)
        obj.setdefault('tier', self.tier)
        obj.setdefault('seed', self.seed)
        n = len(self.violations) + len(self.known_hits)
        path = os.path.join(REPLAYS, '%s_%s_%d_%d.json' % (self.pid, self.tier, self.seed, n))
        with open(path, 'w') as f:
            json.dump(obj, f, indent=1, default=repr)
        return path

    def violation(self, what, replay_path=None, signature=None):
        """Report a violation unless it matches a listed known finding (by signature)."""
        if signature is not None:
            for k in self.known:
                if k.get('signature') == signature:
                    if k not in self.known_hits:
                        self.known_hits.append(k)
                    return False
        if replay_path is None:
            replay_path = self.save_replay({'what': what, 'signature': signature})
        self.violations.append((what, replay_path))
        return True

    def finish(self):
        wall = time.time() - self.t0
        cov = {
            'states': self.states,
            'transitions': self.transitions,
            'traces_validated_against_impl': self.traces_validated,
            'samples': self.samples or ['(none)'],
            'evaluations': self.evaluations,
            'distinct_nontrivial': len(self.nontrivial),
            'rule': self.rule,
            'exhaustive': bool(self.exhaustive),
            'model_checking_runs': self.mc_runs,
            'coverage_per_action': {k: {'distinct': v[0], 'generated': v[1]} for k, v in
                                    sorted(self.coverage_per_action.items())},
            'known_findings_reproduced': [k.get('what') for k in self.known_hits],
        }
        cov.update(self.extra)
        ev = {
            'property_id': self.pid,
            'tier': self.tier,
            'seed': self.seed,
            'level': 'model_checking',
            'coverage': cov,
            'assumptions': self.assumptions,
            'wall_s': round(wall, 2),
            'violations': len(self.violations),
        }
        os.makedirs(EVIDENCE, exist_ok=True)
        with open(os.path.join(EVIDENCE, self.pid + '.json'), 'w') as f:
            json.dump(ev, f, indent=1, default=repr)
        for k in self.known_hits:
            print("KNOWN-FINDING: property=%s %s" % (self.pid, k.get('what')))
        for what, path in self.violations[:20]:
            print("VIOLATION property=%s replay=%s" % (self.pid, path))
            print("  " + str(what)[:600])
        print("%s %s: states=%d transitions=%d impl_traces=%d evaluations=%d nontrivial=%d violations=%d wall=%.1fs"
              % (self.pid, self.tier, self.states, self.transitions, self.traces_validated, self.evaluations,
                 len(self.nontrivial), len(self.violations), wall))
        return 1 if self.violations else 0


def _cfg_json(cfg):
    out = {}
    for k, v in cfg.items():
        try:
            json.dumps(v)
            out[k] = v
        except TypeError:
            out[k] = tlaparse.to_json(v) if not isinstance(v, dict) else {a: str(b) for a, b in v.items()}
    return out


def main(pid, fn):
    """Entry point used by checks/cXX.py: fn(check) performs the legs."""
    import argparse
    ap = argparse.ArgumentParser()
    ap.add_argument('--tier', default=os.environ.get('VERIF_TIER', 'quick'))
    ap.add_argument('--replay', default=None)
    a = ap.parse_args(sys.argv[2:] if len(sys.argv) > 1 and not sys.argv[1].startswith('-') else sys.argv[1:])
    seed = int(os.environ.get('VERIF_SEED', '0') or 0)
    tier = a.tier if a.tier in ('quick', 'thorough') else 'quick'
    c = Check(pid, tier, seed)
    c.replay = a.replay
    try:
        fn(c)
        rc = c.finish()
    except tlc.MachineryError as ex:
        print("MACHINERY-FAILURE property=%s: %s" % (pid, ex))
        rc = 2
    except Exception:
        print("MACHINERY-FAILURE property=%s (harness exception)" % pid)
        traceback.print_exc()
        rc = 2
    finally:
        tlc.cleanup()
    sys.exit(rc)


def random_walks(graph, rng, n, max_len=200, cover_edges=True, init_filter=None, cover_factor=20):
    """Random maximal walks through a TLC state graph; first covers every edge (if asked), then random.

    Yields lists [(action, args, state_dict)] starting with ('Init', (), init_state)."""
    inits = [s for s in graph.init if init_filter is None or init_filter(graph.states[s])]
    inits.sort()
    uncovered = set()
    if cover_edges:
        for s, es in graph.edges.items():
            for i, e in enumerate(es):
                uncovered.add((s, i))
    produced = 0
    while produced < n or (cover_edges and uncovered and produced < cover_factor * n):
        s = rng.choice(inits)
        walk = [('Init', (), graph.states[s])]
        for _ in range(max_len):
            es = graph.succ(s)
            if not es:
                break
            idxs = list(range(len(es)))
            pref = [i for i in idxs if (s, i) in uncovered]
            i = rng.choice(pref) if pref else rng.choice(idxs)
            uncovered.discard((s, i))
            a, args, d = es[i]
            walk.append((a, args, graph.states[d]))
            s = d
        produced += 1
        yield walk
        if produced >= n and not uncovered:
            break


def walks_matching(graph, names, init_filter=None, limit=8):
    """Walks through a TLC state graph whose action names are exactly `names` (any arguments), from initial states
    accepted by init_filter. Used to make sure specific histories are always replayed, also in the quick tier."""
    out = []
    inits = sorted(s for s in graph.init if init_filter is None or init_filter(graph.states[s]))

    def rec(s, i, acc):
        if len(out) >= limit:
            return
        if i == len(names):
            out.append(list(acc))
            return
        for (a, args, d) in graph.succ(s):
            if a == names[i]:
                acc.append((a, args, graph.states[d]))
                rec(d, i + 1, acc)
                acc.pop()
    for s in inits:
        rec(s, 0, [('Init', (), graph.states[s])])
    return out

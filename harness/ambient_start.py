"""Subprocess: the interpreter-wide state across the agent's own life-cycle calls - deep.start() through the public entry
point, a hit, shutdown() - recorded as agent steps for Trace_Ambient (the application configured its logging, warnings,
... BEFORE it attached the agent; none of that is the agent's to change)."""
import json
import logging
import os
import sys
import tempfile
import threading


def main():
    from harness.checks import c01
    from harness import fakes, rig as R
    # the application's own set-up
    app_log = os.path.join(tempfile.mkdtemp(prefix='amb_start_'), 'app.log')
    late = len(sys.argv) > 1 and sys.argv[1] == 'late'       # the application configures its logging AFTER deep.start()

    def configure_logging():
        logging.basicConfig(level=logging.WARNING, filename=app_log, format='APP %(levelname)s %(message)s')
    if not late:
        configure_logging()
    app_logger = logging.getLogger('shop.orders')
    import deep
    from deep.grpc import GRPCService
    from deepproto.proto.poll.v1.poll_pb2 import PollResponse, ResponseType
    from deepproto.proto.tracepoint.v1.tracepoint_pb2 import TracePointConfig
    wd = os.path.dirname(app_log)
    mod, path, marks = R.write_host(wd, c01.AMBIENT_HOST)
    chan = fakes.FakeChannel()
    GRPCService.start = lambda self: setattr(self, 'channel', chan)
    tp = TracePointConfig(ID='tp1', path=os.path.basename(path), line_number=marks['work'],
                          args={'fire_count': '-1', 'fire_period': '0', 'log_msg': 'n={n}'})
    chan.script('/poll', lambda req: PollResponse(ts_nanos=1, current_hash='h1', response=[tp],
                                                  response_type=ResponseType.UPDATE))
    chan.script('/send', lambda req: None)
    trace = [{'facets': c01.FACETS}]
    out = {}

    def fp():
        f = c01._fingerprint(mod)
        root = logging.getLogger()
        f['logging'] = (root.level, tuple((type(h).__name__, getattr(h, 'baseFilename', None)) for h in root.handlers),
                        logging.root.manager.disable, app_logger.getEffectiveLevel())
        return f

    def step(name, fn):
        before = fp()
        fn()
        after = fp()
        trace.append({'ev': 'agent', 'features': [name], 'changed': [k for k in c01.FACETS if before[k] != after[k]]})

    def body():
        import warnings
        warnings.simplefilter('ignore', DeprecationWarning)
        holder = {}
        step('start', lambda: holder.setdefault('d', deep.start({'SERVICE_URL': 'fake:1', 'SERVICE_SECURE': 'False',
                                                                 'POLL_TIMER': 3600, 'APP_ROOT': wd})))
        d = holder['d']
        d.task_handler.flush()
        d.task_handler._open = True
        if late:
            configure_logging()       # (a no-op if anybody has put a handler on the root logger in the meantime)
        step('hit', lambda: mod.work(5))
        app_logger.debug('debug line of the application')        # below the application's level: must not appear
        app_logger.warning('warning line of the application')    # must reach the application's log file
        step('shutdown', d.shutdown)
        out['app_log'] = open(app_log).read() if os.path.exists(app_log) else None
    th = threading.Thread(target=body)
    th.start()
    th.join(60)
    print('RESULT ' + json.dumps({'trace': trace, 'app_log': out.get('app_log')}))


if __name__ == '__main__':
    main()

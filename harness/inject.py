"""Fault injection: raise at the k-th line executed in agent code while the real trace_call handles an event."""
import linecache
import sys


import re
import threading

STRUCTURAL = re.compile(r'^(try:|finally:|else:|with .*:|except.*:|pass|return|break|continue)(\s*#.*)?$')
_LOCK_TYPE = type(threading.Lock())


def leaked_locks():
    """Module-level locks of the agent that are still held (after a run that has ended): release and report them."""
    out = []
    for name, mod in list(sys.modules.items()):
        if not name.startswith('deep.') and name != 'deep':
            continue
        for attr, val in list(vars(mod).items()):
            if isinstance(val, _LOCK_TYPE) and val.locked():
                try:
                    val.release()
                except RuntimeError:
                    pass
                out.append('%s.%s' % (name, attr))
    return out


def held_locks():
    """Module-level locks of the agent that are held right now (does not release them)."""
    out = []
    for name, mod in list(sys.modules.items()):
        if not name.startswith('deep.') and name != 'deep':
            continue
        for attr, val in list(vars(mod).items()):
            if isinstance(val, _LOCK_TYPE) and val.locked():
                out.append('%s.%s' % (name, attr))
    return out


class Fault(Exception):
    pass


class BaseFault(BaseException):
    pass


KINDS = {'Exception': Fault, 'BaseException': BaseFault}

SECTION_PATTERNS = [
    ('location_from_event', 'Locate'), ('TriggerContext(', 'MakeContext'), ('__process_call_backs', 'RunCallbacks'),
    ('__actions_for_location', 'Match'), ('action_context(', 'Action'), ('with trigger_context', 'Results'),
    ('can_trigger', 'Action'), ('ctx.process', 'Action'), ('for action in actions', 'Action'),
    ('trigger_context.callbacks', 'PushCallbacks'), ('_callbacks.get()', 'PushCallbacks'),
    ('CallbackContext(', 'PushCallbacks'), ('len(callbacks)', 'PushCallbacks'), ('len(self._tp_config)', 'Match'),
    ('len(actions)', 'Match'), ('self._callbacks.is_set', 'RunCallbacks'), ('logging.', 'Action'),
    ('return self.trace_call', 'PushCallbacks'), ('return None', 'Match'),
]


def classify(frame):
    """Which statement of the event handler was executing when the fault was raised (by its source text)."""
    f = frame
    body = None
    while f is not None:
        if f.f_code.co_filename.endswith('processor/trigger_handler.py') and 'trace_call' in f.f_code.co_name:
            body = f
            break
        f = f.f_back
    if body is None:
        return None
    outer = body.f_back
    is_wrapper = ('__trace_call' not in body.f_code.co_name and outer is not None and False)
    text = linecache.getline(body.f_code.co_filename, body.f_lineno)
    if '__trace_call(frame, event, arg)' in text or body.f_code.co_name == 'trace_call' and (
            'except BaseException' in text or text.strip() in ('try:', 'pass') or 'Cannot process event' in text):
        if '__trace_call(frame, event, arg)' in text:
            return None if frame is body else 'CALLEE'
        return 'WRAPPER'
    for pat, sec in SECTION_PATTERNS:
        if pat in text:
            return sec
    return 'Action'


class Injector:
    """Counts line events in agent files; raises `kind` at the target count."""

    def __init__(self, target=None, kind='Exception', include=('/deep/',)):
        self.target = target
        self.kind = kind
        self.include = include
        self.count = 0
        self.site = None
        self.section = None
        self.skipped = False

    def tracer(self, frame, event, arg):
        fn = frame.f_code.co_filename
        if event == 'call':
            for inc in self.include:
                if inc in fn:
                    return self.tracer
            return None
        if event == 'line':
            self.count += 1
            if self.target is not None and self.count == self.target:
                text = linecache.getline(fn, frame.f_lineno).strip()
                if STRUCTURAL.match(text):
                    # structural lines execute nothing that can fail; raising "at" them (CPython revisits a `with`
                    # line to call __exit__, and a bare `try:` is outside the enclosing with's cleanup range) would
                    # skip the release of a lock, which no real fault short of an asynchronous exception can do
                    self.skipped = True
                    return self.tracer
                sec = classify(frame)
                self.site = '%s:%d' % (fn.split('/deep/')[-1], frame.f_lineno)
                if sec in (None, 'WRAPPER'):
                    self.skipped = True       # the outer guard's own lines (try/return/except) cannot fail
                    return self.tracer
                if sec == 'CALLEE':
                    sec = 'Action'
                self.section = sec
                raise KINDS[self.kind]('injected at %s' % self.site)
        return self.tracer

    def run(self, fn):
        old = sys.gettrace()
        sys.settrace(self.tracer)
        try:
            return fn()
        finally:
            sys.settrace(old)

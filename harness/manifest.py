"""Generate /verif/MANIFEST.json from one table (python -m harness.manifest)."""
import json
import os

from .tlc import VERIF

BASELINE_OFF = ("cd /repo && env -u DEEP_VERIF /venv/bin/python -m pytest -ra -q -p no:cacheprovider --timeout=900 "
                "--continue-on-collection-errors")

TRUSTED = ("TLC 1.8.0 + CommunityModules; CPython 3.12.1 tracing semantics; protobuf/grpc; the harness projection "
           "functions and fakes (virtual clock, recording push service/plugins, cooperative scheduler)")

# property -> (engine modules, technique, level text, level note)
CLAIMED = {
    'C04': (['Limiter', 'MC_Limiter', 'Trace_Limiter'],
            "TLA+ spec Limiter.tla model-checked with TLC (invariants CountBound/Spacing/WindowRespected/LastIsLatest, "
            "action properties; ideal clock and NextSetBack = the wall clock may be set back), spec behaviours of both "
            "graphs replayed into the real limiter, recorded executions (sequential histories, also with the clock set back, "
            "and every bounded-preemption 2/3-thread schedule) validated against the spec by TLC",
            "Exhaustive within bounds for the design (2-3 threads, <=4 hits, clock <=4, the settings grid incl. "
            "unparsable values and windows); the implementation is bound to it by replaying graph walks of the "
            "1-thread model with state comparison after every hit, and by TLC-validating traces of long hit histories "
            "and of all method-level / line-level schedules with bounded preemptions of concurrent hits. Beyond the "
            "bounds this is exploration, not proof.",
            TRUSTED + "; time is the virtual clock; windows are set on LocationAction directly"),
    'C09': (['TaskFlush', 'Trace_TaskFlush', 'HandlerIsolation'],
            "TLA+ spec TaskFlush.tla (submit/pool/callback/flush micro-steps) model-checked with TLC incl. liveness; "
            "TLA+ spec HandlerIsolation.tla (two handlers of one process, own job numbers and pending tables) "
            "model-checked and its graph walks replayed into two real TaskHandlers with manual futures; "
            "the real TaskHandler run under a cooperative scheduler with a controlled executor over every "
            "bounded-preemption schedule (method and line granularity), each execution trace validated against the spec "
            "by TLC",
            "Exhaustive within bounds for the design (1-2 submitters, <=3 jobs, 2 workers, any job failing, flush racing "
            "with submit/completion; safety + liveness under weak fairness). The implementation is bound by TLC-validated "
            "traces of all schedules with <=2-3 preemptions of scripted submitters/flusher/workers on the real "
            "TaskHandler, plus randomized runs of the real PushService on the real 2-thread pool against a fake channel "
            "(send count, sending thread, failure containment). Exploration beyond the bounds, not proof.",
            TRUSTED + "; tasks finish within flush's 10 s per-task wait"),
    'C10': (['Limiter', 'MC_Limiter', 'Trace_Limiter', 'ExprScope'],
            "TLA+ specs Limiter.tla (condition gate: RejectedHitIsFree, ConditionGates) and ExprScope.tla (scope/failure "
            "table) checked with TLC; every ExprScope state and walks of the Limiter graph replayed into the real "
            "evaluator/limiter; recorded hit histories validated against the spec by TLC",
            "The condition/budget interaction is model-checked exhaustively within bounds and bound to the code by graph "
            "replay and TLC-validated histories; the scope rules are a finite table (315 states: name class x evaluation "
            "site x failure wrap x neighbour) enumerated completely by TLC and turned into one implementation test per "
            "state. Truthiness is asserted only for True/False/failing results.",
            TRUSTED + "; expressions are side-effect free"),
    'C02': (['Snapshot', 'Collector', 'Trace_Collector'],
            "TLA+ spec Snapshot.tla (paused stack x frame_type x watches x tracepoints per location x time budget x a "
            "second configuration seeing the same files under another application root) "
            "model-checked with TLC; its behaviours (tlc -simulate) materialised as real nested calls/methods and the "
            "delivered snapshots compared with the spec state and an independent reading of the paused frames; value "
            "rendering checked on random object graphs (container nodes vary their concrete class: builtin, standard "
            "library, application class derived from it) against by-construction expectations; ten tracepoints configured "
            "through the service and registered in code, the snapshot compared with the tracepoint as configured",
            "Frames/frame_type/watch/naming rules are exhaustively model-checked within bounds (depth<=3, <=2 tracepoints) "
            "and bound to the code by replaying sampled spec behaviours on real stacks (app and non-app files, methods, "
            "a spawned thread); type name / value text / truncation / child names are compared for every variable of "
            "random graphs. Rendering of arbitrary user classes is covered by enumerated kinds + sampling, not "
            "exhaustion.",
            TRUSTED + "; variable order, ids, hash text and durations are not compared"),
    'C05': (['Collector', 'MC_Collector', 'Trace_Collector'],
            "TLA+ spec Collector.tla (the work-list machine of the collector) model-checked with TLC over all object "
            "graphs within bounds (invariants CountBound, DepthBound, CollBound, BreadthFirst, LocalsFirst, liveness "
            "Terminates, FramesShareBudget for the frames below the paused one); real collector runs on enumerated and "
            "random graphs, on multi-frame stacks (all_frame) and on two threads collecting concurrently validated against "
            "the machine by TLC",
            "All graphs with <=3 nodes (sharing, cycles), all short locals orders and a grid of the four limits are "
            "checked exhaustively; every enumerated small instance (sampled in quick) and random instances up to 12 nodes "
            "are built as real objects, collected by the real agent and the projected table must equal the machine's "
            "result (TLC trace validation, invariants evaluated on every state); the same for stacks with 1-3 further frames "
            "(one table, one budget) and for two threads collecting at once with different limits under every "
            "bounded-preemption schedule (a scheduling point at every rendering of an application object). The time "
            "budget is exercised in C02.",
            TRUSTED + "; limits are set on the LocationAction config"),
    'C06': (['Collector', 'MC_Collector', 'Trace_Collector', 'Snapshot'],
            "TLA+ specs Collector.tla (hostile node kind: recorded, no children, machine continues) and Snapshot.tla "
            "(Independent: one table per tracepoint) model-checked with TLC; a catalogue of ~50 hostile Python values x "
            "5 placements x 1-2 tracepoints, random hostile graphs (TLC-validated) and multi-tracepoint spec behaviours "
            "run on the real agent, snapshots converted and serialised",
            "Totality is a claim over all types: the spec fixes what a hostile value must look like, TLC checks the "
            "machine, and the binding is a catalogue of concrete everyday and adversarial values plus random graphs - "
            "enumeration of classes plus sampling, not exhaustion of Python's type universe.",
            TRUSTED + "; placeholder wording is not compared"),
    'C07': (['Collector', 'MC_Collector', 'Trace_Collector'],
            "TLA+ spec Collector.tla with the watch phase (invariants Closed, OneIdPerObject, WatchClosed, WatchDedup, "
            "NoRepeatDescent, Terminates) model-checked with TLC; real collector runs with watches (normal and tiny watch "
            "budget) and with objects shared by several frames of the stack validated against the machine by TLC; "
            "fresh-temporary and alias watches checked by value",
            "All graphs with <=3 nodes with arbitrary sharing/cycles and <=2 watches are model-checked; random graphs with "
            "1-3 watches are collected by the real agent with and without the budget being hit and the table + watch "
            "results must equal the machine's. Known finding: a watch on locals() dangles (listed).",
            TRUSTED + "; object identity is CPython id() for objects alive during the event"),
    'C01': (['Guard', 'Trace_Guard', 'Dispatch', 'Trace_Dispatch', 'Ambient', 'Trace_Ambient'],
            "TLA+ spec Guard.tla (sections of the event handler x fault kinds, invariants NeverEscapes / StaysInstalled) "
            "model-checked with TLC; a fault raised at every line the real handler executes (and in every plugin "
            "callback) for 10 configuration x event cases, each run validated against the spec by TLC; differential "
            "live runs of generated host programs with and without the agent, traces validated by Trace_Dispatch; TLA+ "
            "spec Ambient.tla (interpreter-wide state as versioned facets: the program changes them, a hit handled by "
            "the agent changes none) model-checked and real interleavings of program steps and hits validated by "
            "Trace_Ambient",
            "The guard structure is tiny and exhaustively checked; the binding is fault enumeration over every executed "
            "agent line (~2,000 sites per case, both Exception and BaseException; a 120-site sample per case in quick) "
            "plus differential runs of random programs (recursion, generators, exceptions, threads). Fault enumeration "
            "over the enumerated cases, exploration over programs.",
            TRUSTED + "; the outer guard's own try/return/except lines and `with` re-visits are not fault sites"),
    'C03': (['Dispatch', 'MC_Dispatch', 'Trace_Dispatch'],
            "TLA+ spec Dispatch.tla (CPython event streams per thread, Fires/Matching, invariants Placement, action "
            "properties NoMiss / NoActionElsewhere) model-checked with TLC; live executions of script-driven host "
            "programs under the real agent (configured through the real TracepointConfigService, with tracepoints "
            "registered in code and configuration changes in mid-run; the trace wrapper emulates CPython's local-trace "
            "semantics) logged per trace event and validated against the spec by TLC (fired set = Matching at every "
            "event), once against the code's named deviation IdleFramesBlind and once against the property as stated",
            "Exhaustive within bounds on the model (1-2 thread idents, <=6 events, two files with equal function names, "
            "two tracepoints on one line, method tracepoints); bound to the code by validating every event of live runs "
            "(thousands of events per run set, threads started after installation, never-executed locations). Programs "
            "beyond the bounds are explored, not exhausted.",
            TRUSTED + "; limiter disabled via fire_count=-1"),
    'C15': (['Dispatch', 'MC_Dispatch', 'Trace_Dispatch'],
            "TLA+ spec Dispatch.tla (pending-callback stack per thread ident with ident reuse; invariants ExactlyOnce, "
            "ClosedWhenInvocationEnds, SameThread, NothingLeft; the configuration may be replaced while work is pending) "
            "model-checked with TLC incl. the TopOnly deviation; live "
            "runs with span and capture tracepoints logged (open/close per event, captured value vs the real result "
            "of the opening invocation) and validated by TLC on the property's window",
            "Exhaustive within bounds on the model; live runs cover recursion, nesting, generators, exception unwinding "
            "and threads reusing idents. Trace validation judges the window the property states (not one matching "
            "algorithm). Known findings (listed): a capture on a function that is entered again WITHOUT the inner invocation "
            "opening an entry of its own carries the inner result; a method capture completed by an exception the "
            "invocation caught itself.",
            TRUSTED),
    'C12': (['ConfigSync'],
            "TLA+ spec ConfigSync.tla (poll request/answer, update tasks on a 2-worker pool, registrations; invariants "
            "Converged, LastGoodInForce, HashHonest, action properties NeverOlder, NoChangeIsNoop) model-checked with TLC; "
            "its behaviours (tlc -simulate) replayed on the real Deep/TracepointConfigService/LongPoll/TriggerHandler with "
            "a manual pool and a fake channel, projected state compared after every action",
            "Exhaustive within bounds (<=3 service versions, <=2 registrations, <=4 polls with update/no-change/error/"
            "malformed answers, every interleaving of 2 workers taking and applying tasks); thousands of simulated "
            "behaviours are stepped through the real objects with equality of hash, polled config, custom list, queued "
            "tasks and installed triggers after each step, and the request hash compared; the real timer is run with "
            "failing polls.",
            TRUSTED + "; the service answers UPDATE only when the hash differs"),
    'C13': (['ConfigSync'],
            "TLA+ spec ConfigSync.tla (Register/Unregister with handles; invariants RemovesExactlyIt, HandlesUnique, "
            "AlongsideService) model-checked with TLC incl. the HandleIsLocation deviation; register/unregister-rich "
            "behaviours replayed on the real public API with state comparison, plus a behavioural run",
            "All register/unregister histories with <=3 registrations over 2 locations interleaved with a service update "
            "are model-checked; simulated histories with up to 4 registrations are replayed on Deep.register_tracepoint / "
            "TracepointRegistration.unregister and the installed set is compared after every step.",
            TRUSTED),
    'C14': (['Lifecycle'],
            "TLA+ spec Lifecycle.tla (start/shutdown calls, NO_TRACE, pre-existing hooks, shutdown as a sequence of "
            "steps each of which may fail; invariants InstalledWhenStarted, NoTraceUntouched, RestoredExactly, "
            "ShutdownCompletes, QuietAfter, action property StoppedAfterShutdown; the application replacing its hooks "
            "between two lives of the agent, a configuration arriving while shutdown drains, shutdown called from "
            "another application thread) model-checked with TLC incl. seven "
            "deviations; walks through its state graph replayed on a real Deep object with fakes, one thread per walk",
            "The life-cycle state machine is exhaustively checked (~45,000 states: every sequence of <=4 start/shutdown "
            "calls x hooks x NO_TRACE x every failure subset); graph walks (all edges in thorough) are replayed on the "
            "real Deep with a fake channel, a real poll timer, pending failing deliveries and raising plugins, and the "
            "hooks / started flag / timer liveness / pending deliveries / plugin shutdown calls compared after every call.",
            TRUSTED + "; built-in plugin list emptied; GRPCService.start replaced by a fake channel"),
    'C20': (['Plugins', 'Lifecycle'],
            "TLA+ spec Plugins.tla (configure -> load -> one activity per callback kind; invariants LoadedSet, "
            "LoadedOrder, NotLoadedNeverCalled, Isolation) model-checked with TLC incl. the AbortOnFirstFailure "
            "deviation; simulated behaviours materialised as generated plugin classes and driven through the real "
            "load_plugins / Deep.start / trigger / shutdown, every plugin's callbacks compared with the spec state; "
            "NextLife: plugins switched on/off between two starts on one configuration object, both lives compared",
            "All configurations of <=2 plugins over the full grid (5.7M states) and <=3 over a reduced grid are "
            "model-checked; sampled behaviours with up to 3 plugins are replayed on the real agent (snapshot+log, metric "
            "and span tracepoints on one line) comparing loaded order, callback multisets, snapshot delivery and "
            "decorations, resource contributions. Start/shutdown isolation is also covered by C14.",
            TRUSTED + "; plugin callbacks raise Exception subclasses"),
    'C08': (['Wire'],
            "TLA+ spec Wire.tla (snapshot shape chosen field by field, Convert/Send/Poll, invariants NothingDropped, "
            "DeliveredOnce, Authenticated) model-checked with TLC incl. the DropOnConvertError deviation; simulated "
            "shapes built as real EventSnapshots, pushed through the real PushService into a serialising fake channel, "
            "bytes parsed back and compared field by field with an independent projection; provider metadata compared on "
            "sends and polls",
            "This is the weakest fit for the technique: the delivery/auth state machine is small and exhaustively "
            "checked (350k states), field fidelity is a pure function checked per enumerated shape class (text classes "
            "ASCII / empty / non-BMP / NUL / 5000 chars / lone surrogate, optional fields unset, all attribute types, "
            "error watches, all watch sources) plus collector-produced snapshots of random graphs - enumeration of "
            "classes and sampling, not exhaustion of Unicode.",
            TRUSTED + "; unencodable text must arrive escaped (backslashreplace)"),
    'C11': (['TriggerTable'],
            "TLA+ spec TriggerTable.tla (a transcribed decision table built field by field; invariants "
            "SnapshotUnlessSwitchedOff, LogWhenGiven, OneMetricPerDefinition, SpanWhenRequested, PlacedByStage, "
            "OnlyItself) enumerated with TLC; sampled rows and responses of 2-3 tracepoints sent through the real "
            "convert_response, installed and hit three times under a virtual clock, effects per tracepoint and hit "
            "compared with the row",
            "The whole single-tracepoint table (3.3M states over 12 keys with absent/unknown values) is enumerated by "
            "TLC; implementation tests are derived from sampled rows (all rows cannot be replayed in quick) and from "
            "responses mixing interpretable and uninterpretable tracepoints on shared locations.",
            TRUSTED + "; a method stage without method_name is outside the documented table"),
    'C16': (['LogTemplate'],
            "TLA+ spec LogTemplate.tla (template token scanner, Emit with named id slots; invariants EveryTokenRendered, "
            "FailingFieldLocal, OneWatchPerField, IdsInPlace) model-checked with TLC; every template of the bound "
            "(sampled in quick) and longer random ones installed as log-only and snapshot+log tracepoints, logger call / "
            "snapshot log message / LOG watches compared with an independent renderer",
            "All token sequences up to length 4 over 11 token kinds are model-checked and (in thorough) replayed; "
            "formatter meta characters inside fields are outside the property's grammar.",
            TRUSTED + "; error text wording is not compared"),
    'C17': (['MetricDispatch'],
            "TLA+ spec MetricDispatch.tla (definitions x processors x two hits with fire_count=1; invariants "
            "OncePerDefPerProcessor, NoProcessorNoBudget, BudgetKeptForLater, BudgetUsedOnce, DefaultNamespace) "
            "model-checked with TLC; simulated behaviours sent as protobuf Metric definitions through convert_response and "
            "the calls received by recording processors (each of which changes the labels it was handed) compared with the "
            "spec state",
            "The definition space (4 types x optional fields x 6 expression classes x 5 label kinds, 1-2 definitions, "
            "0-2 processors) is model-checked; sampled definitions are dispatched by the real agent and compared call "
            "by call.",
            TRUSTED + "; third-party metric back ends are out of scope"),
    'C18': (['Attributes', 'Trace_Attributes', 'ResourceMerge'],
            "TLA+ specs Attributes.tla (bounded ordered store with cleaning classes; invariants WithinCapacity, "
            "OnlyCleanValues, KeysUnique, EveryDropCounted, FrozenRejectsAll) and ResourceMerge.tla (ServiceNameAlways, "
            "ServiceNameNotBlankAfterCreate, ServiceNameNeverBlank, LaterWins; deviation PluginMayBlank) model-checked with TLC; long random operation sequences on a real BoundedAttributes validated by "
            "TLC (Trace_Attributes); simulated source combinations assembled with the real Resource.create/merge",
            "Container: all sequences of <=5 operations over 3 keys / 13 value classes / 4 capacities are model-checked "
            "and recorded runs of up to 300 operations over 12 keys are validated step by step. Resource: all "
            "combinations of what environment, code and two plugins provide (668k states) are model-checked and sampled "
            "combinations compared on real objects and through Deep.start over two lives (operands unchanged, mandatory "
            "keys, wire form, poll request). Curated: value limit as a parameter (incl. negative), every kind of "
            "process.executable.name in the service-name fallback.",
            TRUSTED),
    'C19': (['ConfigResolve'],
            "TLA+ spec ConfigResolve.tla (three decision tables: lookup precedence, application-frame classification, "
            "code/environment equivalence of the documented settings) enumerated with TLC (488 states); EVERY state is "
            "run against the real code - lookup and consumer cases in a fresh interpreter each",
            "Exhaustive over the modelled tables (16 lookup cases, 448 path cases each in three renderings - prefixes "
            "closed by a separator / open with one segment's text beginning like the other's / pathlib.Path -, 33 "
            "consumer cases = 11 documented settings x 3 ways of supplying them, root sequences); every case is executed against the real ConfigService / timer / "
            "channel creation / auth provider / deep.start.",
            TRUSTED + "; grpc channel constructors replaced by recorders in the probe interpreter"),
}

NOT_YET = {}

PROPS = ['C%02d' % i for i in range(1, 21)]


def main():
    checks = []
    engines = {}
    for pid in PROPS:
        if pid not in CLAIMED:
            continue
        mods, technique, text, note = CLAIMED[pid]
        checks.append({
            'property_id': pid,
            'quick_cmd': './check %s --tier quick' % pid,
            'thorough_cmd': './check %s --tier thorough' % pid,
            'evidence_file': 'evidence/%s.json' % pid,
            'replay_cmd_template': './check %s --replay {path}' % pid,
            'engine': '+'.join(mods),
            'level_claimed': {'category': 'model_checking', 'text': text, 'design_ref': 'DESIGN.md section 3 (%s)' % pid},
            'level_note': note,
            'technique': technique,
        })
        for m in mods:
            engines.setdefault(m, []).append(pid)
    na = []
    for pid in PROPS:
        if pid not in CLAIMED:
            na.append({'property_id': pid,
                       'reason': NOT_YET.get(pid, 'check not built yet in this round (planned with a TLA+ spec, see '
                                                  'DESIGN.md section 3); not claimed until it runs green')})
    man = {
        'version': 1,
        'setup_cmd': './check --setup',
        'hooks': {
            'guard': 'DEEP_VERIF',
            'enable': 'no repository hooks: all binding is done from the harness process (class-level wrappers, '
                      'fakes); checks export DEEP_VERIF=1 for uniformity only',
            'baseline_off_cmd': BASELINE_OFF,
            'source_commits': [],
            'add_only': True,
        },
        'engines': [{'name': m, 'path': 'spec/%s.tla' % m, 'serves_properties': sorted(set(p)),
                     'kind_free_text': 'TLA+ module checked with TLC'} for m, p in sorted(engines.items())],
        'checks': checks,
        'not_applicable': na,
        'notes': 'One technique throughout: explicit TLA+ specifications (spec/), TLC model checking, and conformance '
                 'in both directions (spec behaviours replayed into the code; recorded executions validated by TLC). '
                 'Genuine defects found are repaired by fix: commits in /repo or listed in known_findings.json.',
    }
    with open(os.path.join(VERIF, 'MANIFEST.json'), 'w') as f:
        json.dump(man, f, indent=1)
    print("MANIFEST.json: %d checks, %d not_applicable" % (len(checks), len(na)))


if __name__ == '__main__':
    main()

"""Script-driven host programs: real Python functions whose control flow follows a script, so that the CPython
interpreter produces genuine call/line/return/exception streams (recursion, generators, exception unwinding)."""
import os
import sys
import importlib.util

TEMPLATE = '''PEER = None
ME = None
HOOK = None


def _target(name):
    mod, fn = name.split('.')
    m = ME if mod == MYNAME else PEER
    return getattr(m, fn)


class Audited(dict):
    """A mapping that counts how often the program reads it (an audit trail / read-once settings): reading it is
    something the program does, the count is part of its final data."""
    reads = 0

    def __getitem__(self, k):
        self.reads += 1
        return dict.__getitem__(self, k)

    def __contains__(self, k):
        self.reads += 1
        return dict.__contains__(self, k)

    def get(self, k, d=None):
        self.reads += 1
        return dict.get(self, k, d)

    def keys(self):
        self.reads += 1
        return dict.keys(self)

    def items(self):
        self.reads += 1
        return dict.items(self)

    def values(self):
        self.reads += 1
        return dict.values(self)


def f(s):
    x, au = 0, Audited(k=1, j=2)  # TP:f_first
    x += 0  # TP:f_second
    x += 0  # TP:f_third
    for op in s:
        if op[0] == 'call':
            x += _target(op[1])(op[2])  # TP:f_call
        elif op[0] == 'try':
            try:
                x += _target(op[1])(op[2])
            except ValueError:
                x += 100
        elif op[0] == 'raise':
            raise ValueError('boom')
        elif op[0] == 'gen':
            for y in gen(op[1]):
                x += y
        elif op[0] == 'cfg':
            if HOOK is not None:
                HOOK(op[1])  # TP:f_cfg
        else:
            x += 1  # TP:f_plain
    return x + 1000 * au.reads  # TP:f_last


def g(s):
    x = 0  # TP:g_first
    for op in s:
        if op[0] == 'call':
            x += _target(op[1])(op[2])
        elif op[0] == 'try':
            try:
                x += _target(op[1])(op[2])
            except ValueError:
                x += 100
        elif op[0] == 'raise':
            raise ValueError('boom')
        else:
            x += 1
    return x  # TP:g_last


class KBase:
    def tag(self):
        return 1

    @classmethod
    def ctag(cls):
        return 10


class K(KBase):
    """A second function named `f` in this file (a method): a method tracepoint names a function NAME."""

    def tag(self):
        # zero-argument super(): the frame has the compiler-made __class__ cell among its locals
        t = super().tag()  # TP:ktag
        return t + 1

    @classmethod
    def ctag(cls):
        # zero-argument super() in a frame that has no `self`: the __class__ cell is all it has
        c = super().ctag()  # TP:kctag
        return c + 1

    def f(self, s):
        x = self.tag() - 2 + self.ctag() - 11  # TP:kf_first
        for op in s:
            if op[0] == 'call':
                x += _target(op[1])(op[2])
            elif op[0] == 'raise':
                raise ValueError('boom')
            else:
                x += 1
        return x + self.tag() - 2  # TP:kf_last


def kf(s):
    return K().f(s)


def gen(n):
    i = 0  # TP:gen_first
    while i < n:
        yield i  # TP:gen_yield
        i += 1
'''

# a chain of distinct functions nested CHAIN deep (many openings pending on one thread at the same time)
CHAIN = 80
TEMPLATE += ''.join('\n\ndef chain_%d(s):\n    return chain_%d(s) + 1\n' % (k, k + 1) for k in range(CHAIN - 1))
TEMPLATE += '\n\ndef chain_%d(s):\n    return len(s)\n' % (CHAIN - 1)


class Host:
    def __init__(self, workdir, tag):
        self.mods = {}
        self.paths = {}
        self.marks = {}
        for key in ('a', 'b'):
            # file b's name is a proper suffix of file a's name: a tracepoint names ONE file, and a file whose name
            # merely ends with (or contains) that name is a different file
            name = ('xvh_%s' if key == 'a' else 'vh_%s') % tag
            path = os.path.join(workdir, name + '.py')
            src = TEMPLATE.replace('MYNAME', repr(key))
            with open(path, 'w') as fh:
                fh.write(src)
            spec = importlib.util.spec_from_file_location(name, path)
            mod = importlib.util.module_from_spec(spec)
            sys.modules[name] = mod
            spec.loader.exec_module(mod)
            self.mods[key] = mod
            self.paths[key] = path
            self.marks[key] = {}
            for i, line in enumerate(src.split('\n'), 1):
                if '# TP:' in line:
                    self.marks[key][line.split('# TP:')[1].strip()] = i
        self.mods['a'].ME = self.mods['a']
        self.mods['a'].PEER = self.mods['b']
        self.mods['b'].ME = self.mods['b']
        self.mods['b'].PEER = self.mods['a']
        self.files = set(self.paths.values())
        self.base = {k: os.path.basename(p) for k, p in self.paths.items()}
        self.key_of_base = {v: k for k, v in self.base.items()}

    def close(self):
        for m in self.mods.values():
            sys.modules.pop(m.__name__, None)

    def entry(self, name):
        mod, fn = name.split('.')
        return getattr(self.mods[mod], fn)


def random_script(rng, depth=0, max_depth=3, max_len=3):
    ops = []
    for _ in range(rng.randint(0, max_len)):
        k = rng.choice(['line', 'line', 'call', 'call', 'try', 'raise', 'gen'] if depth < max_depth
                       else ['line', 'line', 'raise'])
        if rng.random() < 0.06:
            # the service changes the configuration while the program is in the middle of something: the bitmask says
            # which of the scenario's tracepoints remain (0 = all removed)
            ops.append(('cfg', rng.choice([0, 0, 1, 2, 5, 255])))
            continue
        if k in ('call', 'try'):
            ops.append((k, rng.choice(['a.f', 'a.g', 'b.f', 'b.g', 'a.f', 'a.kf']), random_script(rng, depth + 1, max_depth, max_len)))
        elif k == 'gen':
            ops.append(('gen', rng.randint(0, 2)))
        elif k == 'raise':
            if rng.random() < 0.4:
                ops.append(('raise',))
            else:
                ops.append(('line',))
        else:
            ops.append(('line',))
    return ops

"""pytest plugin (-p harness.it_recorder): records the repository's own integration tests (tests/it_tests: a real gRPC
server on a fixed port and the real deep.start()) as event traces for spec/Trace_AgentIT.tla.

No repository change is needed: class-level wrappers are installed when the session starts, one trace per test is written
to $IT_TRACE_DIR. Events are ordered by a sequence number taken under one lock, each logged at the linearization point of
the wrapped call (request: before the call goes out; answer/installation/delivery: after it returned)."""
import json
import os
import threading

LOCK = threading.Lock()
EVENTS = []
HASHES = {}      # configuration hash -> version number (order of first appearance in an UPDATE answer)
TPS = {}         # tracepoint id -> first version that carried it


def log(**e):
    with LOCK:
        EVENTS.append(e)


def version_of(h):
    if not h:
        return 0
    with LOCK:
        if h not in HASHES:
            HASHES[h] = len(HASHES) + 1
        return HASHES[h]


def install():
    from deep.api.deep import Deep
    from deep.config.tracepoint_config import TracepointConfigService
    from deep.poll.poll import LongPoll
    from deep.processor.trigger_handler import TriggerHandler
    from deep.push.push_service import PushService

    o_start, o_shutdown = Deep.start, Deep.shutdown

    def start(self):
        if not self.started:
            # again: this agent OBJECT has been started (and shut down) before
            log(ev='start', again=bool(getattr(self, '_verif_started_before', False)))
            self._verif_started_before = True
        return o_start(self)

    def shutdown(self):
        was = self.started
        if was:
            log(ev='sdbegin')
        try:
            return o_shutdown(self)
        finally:
            if was:
                log(ev='sdend')
    Deep.start, Deep.shutdown = start, shutdown

    o_poll = LongPoll.poll

    def poll(self):
        log(ev='pollreq', hash=version_of(self.config.tracepoints.current_hash))
        tl.answered = False
        try:
            return o_poll(self)
        finally:
            if not tl.answered:
                log(ev='pollfail')
    tl = threading.local()
    LongPoll.poll = poll

    o_nc, o_new = TracepointConfigService.update_no_change, TracepointConfigService.update_new_config

    def update_no_change(self, ts):
        tl.answered = True
        log(ev='pollresp', kind='no_change', v=0, ids=[])
        return o_nc(self, ts)

    def update_new_config(self, ts, new_hash, new_config):
        tl.answered = True
        v = version_of(new_hash)
        ids = sorted({a.id for t in new_config for a in t.actions})
        with LOCK:
            for i in ids:
                TPS.setdefault(i, v)
        log(ev='pollresp', kind='update', v=v, ids=ids)
        return o_new(self, ts, new_hash, new_config)
    TracepointConfigService.update_no_change = update_no_change
    TracepointConfigService.update_new_config = update_new_config

    o_cfg = TriggerHandler.new_config

    def new_config(self, triggers):
        r = o_cfg(self, triggers)
        ids = sorted({a.id for t in triggers for a in t.actions})
        with LOCK:
            svc_ids = set(TPS)
        # ids of the service's tracepoints (all seen in an answer before), and how many registered in code came along
        log(ev='installed', ids=[i for i in ids if i in svc_ids], regs=len([i for i in ids if i not in svc_ids]))
        return r
    TriggerHandler.new_config = new_config

    o_add, o_rem = TracepointConfigService.add_custom, TracepointConfigService.remove_custom

    def add_custom(self, *a, **kw):
        log(ev='register')                    # before the call: the update task it submits may run at once
        try:
            return o_add(self, *a, **kw)
        except BaseException:
            log(ev='register_failed')
            raise

    def remove_custom(self, _id):
        if _id in self._custom_ids:
            log(ev='unregister')
        return o_rem(self, _id)
    TracepointConfigService.add_custom, TracepointConfigService.remove_custom = add_custom, remove_custom

    o_push = PushService._push_task

    def _push_task(self, snapshot):
        r = o_push(self, snapshot)
        with LOCK:
            is_reg = snapshot.tracepoint.id not in TPS
        log(ev='recv', id=snapshot.tracepoint.id, reg=is_reg)
        return r
    PushService._push_task = _push_task


def pytest_configure(config):
    install()


def pytest_runtest_setup(item):
    with LOCK:
        del EVENTS[:]
        HASHES.clear()
        TPS.clear()


def pytest_runtest_teardown(item, nextitem):
    out = os.environ.get('IT_TRACE_DIR')
    if not out:
        return
    with LOCK:
        events = list(EVENTS)
    name = item.nodeid.replace('/', '_').replace(':', '_')
    with open(os.path.join(out, name + '.json'), 'w') as f:
        json.dump({'test': item.nodeid, 'events': events}, f)

"""Driver binding spec/Limiter.tla to the real limiter (C04, C10).

Real objects: TriggerHandler.trace_call -> TriggerContext -> SnapshotActionContext -> LocationAction /
TracepointWindow / TracepointExecutionStats. Fakes: clock, push service.
"""
import sys
import threading

from . import rig as R
from . import sched as S

HOST_SRC = '''import sys

G_ONLY = 41


def hit(c):
    x = c + 1  # TP:hit
    return x


H = None


def direct(c):
    H.trace_call(sys._getframe(), 'line', None)  # TP:direct
    return c
'''

COND_EXPR = '[True, False][c]'
COND_ARG = {'true': 0, 'false': 1, 'raises': 2, 'none': 0, 'blank': 0}


def cond_kinds(cfg):
    cm = cfg['cm']
    if cm == 'none':
        return ['none']
    if cm == 'blank':
        return ['blank']
    return ['true', 'false', 'raises']


def tp_args(cfg):
    """Limiter settings record -> tracepoint args as the service would send them (text)."""
    args = {}
    if cfg['ck'] == 'int':
        args['fire_count'] = str(cfg['cv'])
    elif cfg['ck'] == 'bad':
        args['fire_count'] = 'soon'       # the SAME unparsable text as for the period: each falls back to its OWN default
    if cfg['pk'] == 'int':
        args['fire_period'] = str(cfg['pv'] * R.TICK_MS)
    elif cfg['pk'] == 'bad':
        args['fire_period'] = 'soon'
    if cfg['cm'] == 'blank':
        args['condition'] = '   '
    elif cfg['cm'] == 'expr':
        args['condition'] = COND_EXPR
    return args


class LimiterSystem:
    """One real tracepoint (snapshot action) on the `hit`/`direct` line of a generated host module."""

    def __init__(self, workdir, cfg, target='hit', plugins=None):
        self.cfg = cfg
        self.rig = R.Rig(plugins=plugins)
        self.mod, self.path, self.marks = R.write_host(workdir, HOST_SRC)
        self.base = self.path.rsplit('/', 1)[-1]
        self.line = self.marks[target]
        self.target = target
        args = tp_args(cfg)
        numeric = cfg['ck'] in ('num', 'odd') or cfg['pk'] in ('num', 'odd')
        if cfg.get('ws', 0) or cfg.get('we', 0) or numeric:
            # build_trigger does not forward window_*; windows are reachable through LocationAction directly
            from deep.api.tracepoint.trigger import LocationAction, LineLocation, Trigger, Location
            conf = {'watches': [], 'frame_type': 'single_frame', 'stack_type': 'stack',
                    'fire_count': args.get('fire_count', '1'), 'fire_period': args.get('fire_period', '1000'),
                    'log_msg': None}
            if cfg['ck'] == 'num':
                conf['fire_count'] = int(cfg['cv'])              # a number, as register_tracepoint(args={...}) may pass it
            if cfg['pk'] == 'num':
                conf['fire_period'] = int(cfg['pv'] * R.TICK_MS)
            if cfg['ck'] == 'odd':
                conf['fire_count'] = None                        # no number at all: the default, like unparsable text
            if cfg['pk'] == 'odd':
                conf['fire_period'] = [3] if cfg['ck'] == 'odd' else float('inf')
            if cfg['ws']:
                conf['window_start'] = R.BASE_NS + cfg['ws'] * R.TICK_NS
            if cfg['we']:
                conf['window_end'] = R.BASE_NS + cfg['we'] * R.TICK_NS
            act = LocationAction('tp1', args.get('condition'), conf, LocationAction.ActionType.Snapshot)
            trig = Trigger(LineLocation(self.base, self.line, Location.Position.START), [act])
            self.rig.install_triggers([trig])
            self.triggers = [trig]
            self.public_args = None
        else:
            self.triggers = self.rig.install([{'id': 'tp1', 'path': self.base, 'line': self.line, 'args': args}])
            self.public_args = args
        self.action = R.actions_of(self.triggers[0])[0]
        self.nreinstall = 0

    def reinstall(self):
        """The service sends a new configuration: ANOTHER tracepoint was added (or removed again), this one is in it
        unchanged. Returns False where the tracepoint was not installed the way the service does it."""
        if self.public_args is None:
            return False
        self.nreinstall += 1
        tps = [{'id': 'tp1', 'path': self.base, 'line': self.line, 'args': dict(self.public_args)}]
        if self.nreinstall % 2:
            tps.append({'id': 'tp-other', 'path': 'elsewhere.py', 'line': 7, 'args': {}})
        self.triggers = self.rig.install(tps)
        mine = [a for t in self.triggers for a in R.actions_of(t) if a.id == 'tp1']
        self.action = mine[0]
        return True

    def close(self):
        self.rig.close()
        sys.modules.pop(self.mod.__name__, None)

    def state(self):
        count, last = R.stats_of(self.action)
        return {'count': count, 'last': self.rig.clock.to_tick(last), 'pushes': len(self.rig.push.snapshots)}

    def hit(self, cond):
        """A whole hit on the current thread, live under the trace function."""
        return self.rig.run(self.mod.hit, COND_ARG[cond], only_file=self.path)

    def hit_direct(self, cond):
        """A hit by calling trace_call directly (thread may be under the scheduler's tracer)."""
        self.mod.H = self.rig.handler
        return self.mod.direct(COND_ARG[cond])


class Recorder:
    """Class-level wrappers at the linearization points; logs NDJSON-able events, optionally gates."""

    def __init__(self, system, sched=None, gates=False):
        self.sys = system
        self.events = []
        self.lock = threading.Lock()
        self.tmap = {}
        self.sched = sched
        self.gates = gates
        self._saved = []

    def tindex(self):
        ident = threading.get_ident()
        with self.lock:
            if ident not in self.tmap:
                self.tmap[ident] = len(self.tmap) + 1
            return self.tmap[ident]

    def log(self, **e):
        with self.lock:
            self.events.append(e)

    def gate(self, label):
        if self.gates and self.sched is not None:
            self.sched.point(label)

    def __enter__(self):
        from deep.processor.context.trigger_context import TriggerContext
        from deep.processor.context.action_context import ActionContext
        rec = self
        sysm = self.sys
        o_init = TriggerContext.__init__
        o_can = ActionContext.can_trigger
        o_proc = ActionContext.process
        o_exit = ActionContext.__exit__

        def is_hit(frame, event):
            return event == 'line' and frame.f_code.co_filename == sysm.path and frame.f_lineno == sysm.line

        def w_init(self_, config, push_service, frame, event, arg):
            hit = is_hit(frame, event)
            if hit:
                rec.gate('arrive')
            o_init(self_, config, push_service, frame, event, arg)
            if hit:
                c = frame.f_locals.get('c')
                kinds = cond_kinds(sysm.cfg)
                cond = kinds[0] if len(kinds) == 1 else ['true', 'false', 'raises'][c]
                self_._verif_hit = True
                rec.log(ev='Arrive', t=rec.tindex(), cond=cond, ts=sysm.rig.clock.to_tick(self_.ts))

        def armed(actx):
            return getattr(actx.trigger_context, '_verif_hit', False)

        def w_can(self_):
            if not armed(self_):
                return o_can(self_)
            rec.gate('can')
            rec.log(ev='CanStart', t=rec.tindex())
            res = None
            try:
                res = o_can(self_)
                return res
            finally:
                rec.log(ev='CanEnd', t=rec.tindex(), res=bool(res))

        def w_proc(self_):
            if not armed(self_):
                return o_proc(self_)
            rec.gate('process')
            self_._verif_processed = True
            results = self_.trigger_context._TriggerContext__results
            before = len(results)
            try:
                return o_proc(self_)
            finally:
                # "pushed": this call produced a snapshot result (it is pushed when the trigger context closes)
                rec.log(ev='Process', t=rec.tindex(), pushed=len(results) > before)

        def w_exit(self_, a, b, c):
            if not armed(self_) or not getattr(self_, '_verif_processed', False):
                return o_exit(self_, a, b, c)
            rec.gate('exit')
            try:
                return o_exit(self_, a, b, c)
            finally:
                rec.log(ev='Exit', t=rec.tindex())

        TriggerContext.__init__ = w_init
        ActionContext.can_trigger = w_can
        ActionContext.process = w_proc
        ActionContext.__exit__ = w_exit
        self._saved = [(TriggerContext, '__init__', o_init), (ActionContext, 'can_trigger', o_can),
                       (ActionContext, 'process', o_proc), (ActionContext, '__exit__', o_exit)]
        return self

    def __exit__(self, *a):
        for cls, name, fn in self._saved:
            setattr(cls, name, fn)

    def quiet(self):
        st = self.sys.state()
        self.log(ev='Quiet', count=st['count'], last=st['last'], pushes=st['pushes'])

    def tick(self, now):
        self.sys.rig.clock.set(now)
        self.log(ev='Tick', now=now)

    def reinstall(self):
        if self.sys.reinstall():
            self.log(ev='Reinstall')

    def trace(self, threads):
        c = dict(self.sys.cfg)
        return [{'cfg': c, 'threads': threads}] + self.events

"""Run TLC / SANY and interpret the output."""
import glob
import json
import os
import re
import shutil
import subprocess
import tempfile
import time

from . import tlaparse

VERIF = os.path.dirname(os.path.dirname(os.path.abspath(__file__)))
SPEC = os.path.join(VERIF, 'spec')
JAR = '/opt/veriftools/tla/tla2tools.jar:/opt/veriftools/tla/CommunityModules-deps.jar'


class MachineryError(Exception):
    """TLC crashed / could not parse: never a verdict about the code."""


class TlcResult:
    def __init__(self):
        self.ok = False
        self.violation = None     # 'invariant X' / 'deadlock' / 'action property X' / ...
        self.trace = []           # [(action, args, state)]
        self.generated = 0
        self.distinct = 0
        self.depth = 0
        self.stdout = ''
        self.wall = 0.0
        self.coverage = {}        # action name -> (distinct, generated)
        self.printed = []         # values printed with PrintT/Print

    def __repr__(self):
        return "TlcResult(ok=%s, violation=%r, generated=%d, distinct=%d)" % (
            self.ok, self.violation, self.generated, self.distinct)


_scratch_dirs = []


def scratch(prefix='verif_'):
    d = tempfile.mkdtemp(prefix=prefix)
    _scratch_dirs.append(d)
    return d


def cleanup():
    for d in _scratch_dirs:
        shutil.rmtree(d, ignore_errors=True)
    del _scratch_dirs[:]


def _java(args, cwd, timeout, env=None, props=()):
    cmd = ['java', '-XX:+UseParallelGC', '-Xss16m'] + list(props) + ['-cp', JAR] + args
    e = dict(os.environ)
    if env:
        e.update(env)
    t0 = time.time()
    try:
        p = subprocess.run(cmd, cwd=cwd, stdout=subprocess.PIPE, stderr=subprocess.STDOUT, timeout=timeout, env=e)
    except subprocess.TimeoutExpired as ex:
        raise MachineryError("TLC timed out after %ss: %s" % (timeout, ' '.join(args)))
    return p.returncode, p.stdout.decode('utf-8', 'replace'), time.time() - t0


_STATS = re.compile(r'(\d+) states generated, (\d+) distinct states found')
_DEPTH = re.compile(r'The depth of the complete state graph search is (\d+)')
_INV = re.compile(r'Error: Invariant (\S+) is violated')
_ACTP = re.compile(r'Error: Action property (\S+) is violated')
_COV = re.compile(r'^<(\w+) line \d+, col \d+ to line \d+, col \d+ of module (\w+)>: (\d+):(\d+)', re.M)


def _interpret(rc, out, wall):
    r = TlcResult()
    r.stdout = out
    r.wall = wall
    ms = _STATS.findall(out)
    if ms:
        r.generated, r.distinct = int(ms[-1][0]), int(ms[-1][1])
    m = _DEPTH.search(out)
    if m:
        r.depth = int(m.group(1))
    for m in _COV.finditer(out):
        name = m.group(1)
        d, g = int(m.group(3)), int(m.group(4))
        od, og = r.coverage.get(name, (0, 0))
        r.coverage[name] = (od + d, og + g)
    m = _INV.search(out)
    if m:
        r.violation = 'invariant ' + m.group(1)
    elif _ACTP.search(out):
        r.violation = 'action property ' + _ACTP.search(out).group(1)
    elif 'Error: Deadlock reached' in out:
        r.violation = 'deadlock'
    elif 'Temporal properties were violated' in out:
        r.violation = 'temporal property'
    elif 'The postcondition' in out and 'violated' in out or 'Error: Postcondition' in out:
        r.violation = 'postcondition'
    elif 'Assumption' in out and 'is false' in out:
        r.violation = 'assumption'
    if r.violation:
        r.trace = tlaparse.parse_error_trace(out)
        return r
    if 'Model checking completed. No error has been found' in out or \
            ('Finished in' in out and 'Error:' not in out and rc == 0):
        r.ok = True
        return r
    if rc == 0 and 'Error' not in out:
        r.ok = True
        return r
    i = out.find('Error:')
    raise MachineryError("TLC failed (rc=%s):\n%s" % (rc, out[i:i + 3000] if i >= 0 else out[-3000:]))


def write_cfg(path, spec=None, init='Init', next_='Next', constants=None, invariants=(), properties=(),
              constraints=(), action_constraints=(), deadlock=None, view=None, postcondition=None, symmetry=None,
              alias=None):
    lines = []
    if spec:
        lines.append('SPECIFICATION %s' % spec)
    else:
        lines.append('INIT %s' % init)
        lines.append('NEXT %s' % next_)
    if constants:
        lines.append('CONSTANTS')
        for k, v in constants.items():
            lines.append('  %s' % _const(k, v))
    for i in invariants:
        lines.append('INVARIANT %s' % i)
    for p in properties:
        lines.append('PROPERTY %s' % p)
    for c in constraints:
        lines.append('CONSTRAINT %s' % c)
    for c in action_constraints:
        lines.append('ACTION_CONSTRAINT %s' % c)
    if deadlock is not None:
        lines.append('CHECK_DEADLOCK %s' % ('TRUE' if deadlock else 'FALSE'))
    if view:
        lines.append('VIEW %s' % view)
    if postcondition:
        lines.append('POSTCONDITION %s' % postcondition)
    if symmetry:
        lines.append('SYMMETRY %s' % symmetry)
    if alias:
        lines.append('ALIAS %s' % alias)
    with open(path, 'w') as f:
        f.write('\n'.join(lines) + '\n')


def tla_lit(v):
    """Python value -> TLA+ literal usable in a cfg or module."""
    if isinstance(v, bool):
        return 'TRUE' if v else 'FALSE'
    if isinstance(v, int):
        return str(v)
    if isinstance(v, tlaparse.Sym):
        return str(v)
    if isinstance(v, str):
        return json.dumps(v)
    if isinstance(v, (set, frozenset)):
        return '{' + ', '.join(sorted(tla_lit(x) for x in v)) + '}'
    if isinstance(v, (list, tuple)):
        return '<<' + ', '.join(tla_lit(x) for x in v) + '>>'
    if isinstance(v, dict):
        if not v:
            return '<<>>'
        if all(isinstance(k, str) and re.match(r'^[A-Za-z_]\w*$', k) for k in v):
            return '[' + ', '.join('%s |-> %s' % (k, tla_lit(x)) for k, x in v.items()) + ']'
        return '(' + ' @@ '.join('%s :> %s' % (tla_lit(k), tla_lit(x)) for k, x in v.items()) + ')'
    raise TypeError("no TLA+ literal for %r" % (v,))


class Lit(str):
    """A raw TLA+ expression (e.g. a `<-` substitution target or a model-value set)."""


def _const(k, v):
    if isinstance(v, Lit):
        if v.startswith('<-'):
            return '%s %s' % (k, v)
        return '%s = %s' % (k, v)
    return '%s = %s' % (k, tla_lit(v))


def _stage(module_files, workdir):
    """Copy spec modules into the scratch work dir (TLC writes next to the spec)."""
    for f in glob.glob(os.path.join(SPEC, '*.tla')):
        shutil.copy(f, workdir)
    for f in module_files or ():
        shutil.copy(f, workdir)


def run(module, cfg_path=None, cfg=None, workers=16, timeout=900, coverage=False, dump=False, extra=(), env=None,
        props=(), workdir=None, extra_modules=()):
    """Model-check spec/<module>.tla. cfg: kwargs for write_cfg, or cfg_path: a file under spec/."""
    wd = workdir or scratch('tlc_')
    _stage(extra_modules, wd)
    cfgfile = os.path.join(wd, module + '_run.cfg')
    if cfg is not None:
        write_cfg(cfgfile, **cfg)
    else:
        shutil.copy(cfg_path if os.path.isabs(cfg_path) else os.path.join(SPEC, cfg_path), cfgfile)
    args = ['tlc2.TLC', '-workers', str(workers), '-metadir', os.path.join(wd, 'md_%d' % time.time_ns()),
            '-noGenerateSpecTE', '-fp', '1', '-config', cfgfile]      # fixed fingerprint function: state ids in the dumped
    if coverage:                                                       # graph are the same from run to run
        args += ['-coverage', '1']
    dotfile = None
    if dump:
        dotfile = os.path.join(wd, module + '.dot')
        args += ['-dump', 'dot,actionlabels', dotfile]
    args += list(extra)
    args.append(module)
    rc, out, wall = _java(args, wd, timeout, env=env, props=props)
    r = _interpret(rc, out, wall)
    r.printed = parse_printed(out)
    if dump and r.ok:
        r.graph = tlaparse.parse_dot(dotfile)
    r.workdir = wd
    return r


def simulate(module, cfg, num=100, depth=12, seed=0, timeout=600, workdir=None, extra_modules=()):
    """tlc -simulate -> list of behaviours, each [(action, args, state)]."""
    wd = workdir or scratch('tlcsim_')
    _stage(extra_modules, wd)
    cfgfile = os.path.join(wd, module + '_sim.cfg')
    write_cfg(cfgfile, **cfg)
    outdir = os.path.join(wd, 'sim_%d' % time.time_ns())
    os.makedirs(outdir)
    args = ['tlc2.TLC', '-workers', '1', '-metadir', os.path.join(wd, 'md_%d' % time.time_ns()), '-noGenerateSpecTE',
            '-config', cfgfile, '-simulate', 'file=%s/b,num=%d' % (outdir, num), '-depth', str(depth),
            '-seed', str(seed), module]
    rc, out, wall = _java(args, wd, timeout)
    r = _interpret(rc, out, wall)
    behs = []
    for f in sorted(glob.glob(os.path.join(outdir, 'b_*'))):
        try:
            behs.append(tlaparse.parse_sim_file(f))
        except Exception as ex:
            raise MachineryError("cannot parse simulate file %s: %s" % (f, ex))
    shutil.rmtree(outdir, ignore_errors=True)
    r.behaviours = behs
    return r


_PRINT_LINE = re.compile(r'^(<<.*>>|\[.*\]|\{.*\}|".*")\s*$')


def parse_printed(out):
    """Values printed by PrintT on their own lines (single-line values only)."""
    vals = []
    for line in out.split('\n'):
        line = line.strip()
        if line.startswith('<<"') and _PRINT_LINE.match(line):
            try:
                vals.append(tlaparse.parse_value(line))
            except Exception:
                pass
    return vals


def sany(module_path, timeout=120):
    rc, out, wall = _java(['tla2sany.SANY', os.path.basename(module_path)], os.path.dirname(module_path), timeout)
    ok = rc == 0 and 'Semantic errors' not in out and 'Parse Error' not in out and '*** Errors' not in out \
        and 'Fatal errors' not in out and 'Could not' not in out
    return ok, out


def validate_traces(module, traces, constants=None, timeout=900, extra_constraints=(), invariants=(), workers=1,
                    properties=()):
    """Validate a batch of recorded traces against spec/<module>.tla (a Trace_* module).

    `traces` is a list of traces; each trace is a list of JSON-able event records. The trace module reads the file
    named by env TRACE_FILE with JsonDeserialize as a sequence of sequences, carries `tid` and `l`, and its
    constraint keeps the furthest position per trace in a TLC register; the postcondition prints <<"MAX", ...>>.

    Returns (accepted: set of 0-based indices, progress: dict idx -> furthest l reached, TlcResult).
    """
    wd = scratch('tlctr_')
    _stage((), wd)
    tf = os.path.join(wd, 'traces.json')
    with open(tf, 'w') as f:
        json.dump(traces, f)
    cfgfile = os.path.join(wd, module + '_tr.cfg')
    write_cfg(cfgfile, spec=None, init='TraceInit', next_='TraceNext', constants=constants,
              constraints=['TraceConstraint'] + list(extra_constraints), deadlock=False, invariants=invariants,
              properties=properties, postcondition='TracePost')
    args = ['tlc2.TLC', '-workers', str(workers), '-metadir', os.path.join(wd, 'md'), '-noGenerateSpecTE',
            '-config', cfgfile, module]
    rc, out, wall = _java(args, wd, timeout, env={'TRACE_FILE': tf})
    r = _interpret(rc, out, wall)
    accepted = set()
    progress = {}
    for v in parse_printed(out):
        if len(v) >= 4 and v[0] == 'MAX':
            i = int(v[1]) - 1
            progress[i] = int(v[2])
            if int(v[2]) == int(v[3]) + 1:
                accepted.add(i)
    if len(progress) != len(traces):
        raise MachineryError("trace validation produced %d verdicts for %d traces:\n%s"
                             % (len(progress), len(traces), out[-2000:]))
    return accepted, progress, r

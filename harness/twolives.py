"""Two lives of the agent in ONE process through the public entry point deep.start() (run as a subprocess):
start, poll, hit, shutdown - and again, against a service whose configuration did not change in between.
Recorded with the wrappers of harness.it_recorder, printed as one JSON line `RESULT {...}` for Trace_AgentIT."""
import json
import os
import sys
import tempfile
import threading


def main():
    import logging
    logging.getLogger('deep').setLevel(logging.CRITICAL + 1)
    from harness import it_recorder as rec, fakes, rig as R
    import deep
    from deep.grpc import GRPCService
    from deepproto.proto.poll.v1.poll_pb2 import PollResponse, ResponseType
    from deepproto.proto.tracepoint.v1.tracepoint_pb2 import TracePointConfig
    rec.install()
    wd = tempfile.mkdtemp(prefix='twolives_')
    mod, path, marks = R.write_host(wd, 'def beat(n):\n    m = n + 1\n    return m  # TP:beat\n')
    chan = fakes.FakeChannel()
    GRPCService.start = lambda self: setattr(self, 'channel', chan)
    lives = int(sys.argv[1]) if len(sys.argv) > 1 else 2
    same = len(sys.argv) > 2 and sys.argv[2].startswith('same')       # later lives = Deep.start() on the SAME agent object
    noreg = len(sys.argv) > 2 and sys.argv[2] == 'same_noreg'          # ... and nothing is registered in code
    regonly = len(sys.argv) > 2 and sys.argv[2] == 'same_regonly'      # ... and the SERVICE has nothing for this client:
    #                                                                    it answers 'no change' from the first poll on
    sent = []

    def poll(request):
        if regonly:
            return PollResponse(ts_nanos=1, current_hash=request.current_hash, response_type=ResponseType.NO_CHANGE)
        if request.current_hash == 'h1':
            return PollResponse(ts_nanos=1, current_hash='h1', response_type=ResponseType.NO_CHANGE)
        tp = TracePointConfig(ID='tp1', path=os.path.basename(path), line_number=marks['beat'],
                              args={'fire_count': '-1', 'fire_period': '0'})
        return PollResponse(ts_nanos=1, current_hash='h1', response=[tp], response_type=ResponseType.UPDATE)
    chan.script('/poll', poll)
    chan.script('/send', lambda req: sent.append(req.tracepoint.ID) or None)
    out = {'lives': []}

    def body():
        d = None
        for life in range(lives):
            if d is None or not same:
                d = deep.start({'SERVICE_URL': 'fake:1', 'SERVICE_SECURE': 'False', 'POLL_TIMER': 3600, 'APP_ROOT': wd})
            else:
                d.start()
            d.task_handler.flush()
            d.task_handler._open = True
            expected, why = 1, 'the service tracepoint'
            if same and not noreg:
                if life == 0:
                    # a tracepoint registered in code on the same line: it stays registered for the later lives
                    d.register_tracepoint(os.path.basename(path), marks['beat'], {'fire_count': '-1', 'fire_period': '0'},
                                          ['n + 100'])
                    d.task_handler.flush()
                    d.task_handler._open = True
                expected, why = 2, 'the service tracepoint and the one registered in code during the first life'
                if regonly:
                    expected, why = 1, 'the tracepoint registered in code during the first life (the service has none)'
            with rec.LOCK:
                rec.EVENTS.append({'ev': 'settled'})
            before = len(sent)
            res = mod.beat(1)
            d.shutdown()
            out['lives'].append({'result': res, 'snapshots': len(sent) - before, 'expected': expected, 'expected_from': why,
                                 'installed': sorted({a.id for t in d.trigger_handler._tp_config for a in t.actions})})
    th = threading.Thread(target=body)
    th.start()
    th.join(60)
    with rec.LOCK:
        out['events'] = list(rec.EVENTS)
    print('RESULT ' + json.dumps(out))


if __name__ == '__main__':
    main()

"""Run ONE configuration case in a fresh interpreter (module defaults are read from the environment at import).
usage: python -m harness.cfgprobe '<json case>'  -> prints one JSON line."""
import json
import os
import sys
import threading
import time


def main():
    case = json.loads(sys.argv[1])
    for k, v in case.get('env', {}).items():
        os.environ[k] = v
    import logging
    logging.getLogger('deep').setLevel(logging.CRITICAL + 1)
    logging.getLogger().setLevel(logging.CRITICAL + 1)
    out = {}
    kind = case['kind']
    from deep.config import ConfigService
    from deep.config.tracepoint_config import TracepointConfigService
    code = dict(case.get('code', {}))
    for k in case.get('callables', []):
        val = code[k]
        how = case.get('callable_kind', 'callable')
        if how == 'method':
            class Secrets:
                def __init__(self, v):
                    self.v = v

                def read(self):
                    return self.v
            code[k] = Secrets(val).read
        elif how == 'partial':
            import functools
            code[k] = functools.partial(lambda v: v, val)
        else:
            code[k] = (lambda v=val: v)
    try:
        if kind == 'lookup':
            cfg = ConfigService(code, tracepoints=TracepointConfigService())
            out['value'] = getattr(cfg, case['key'])
        elif kind == 'poll_timer':
            from deep.poll import LongPoll
            from deep.api.resource import Resource
            from harness import fakes
            from deepproto.proto.poll.v1.poll_pb2 import PollResponse, ResponseType
            cfg = ConfigService(code, tracepoints=TracepointConfigService())
            cfg.resource = Resource.create()
            chan = fakes.FakeChannel()
            polls = []
            chan.script('/poll', lambda req: polls.append(1) or PollResponse(response_type=ResponseType.NO_CHANGE))
            grpc = fakes.FakeGrpc(chan)
            lp = LongPoll(cfg, grpc)
            lp.start()
            t0 = time.time()
            while len(polls) < 5 and time.time() - t0 < 3:
                time.sleep(0.01)
            out['polls'] = len(polls)
            out['alive'] = lp.timer.thread.is_alive()
            lp.shutdown()
        elif kind == 'channel':
            import grpc
            calls = []
            grpc.insecure_channel = lambda url, *a, **k: calls.append(['insecure', url]) or object()
            grpc.secure_channel = lambda url, *a, **k: calls.append(['secure', url]) or object()
            from deep.grpc import GRPCService
            cfg = ConfigService(code, tracepoints=TracepointConfigService())
            svc = GRPCService(cfg)
            svc.start()
            out['calls'] = calls
        elif kind == 'trace_hooks':
            from deep.processor.trigger_handler import TriggerHandler
            cfg = ConfigService(code, tracepoints=TracepointConfigService())
            th = TriggerHandler(cfg, None)
            before = sys.gettrace()
            th.start()
            out['installed'] = sys.gettrace() is not before
            th.shutdown()
        elif kind == 'auth':
            from deep.grpc import GRPCService
            cfg = ConfigService(code, tracepoints=TracepointConfigService())
            out['metadata'] = [list(x) for x in GRPCService(cfg).metadata()]
        elif kind == 'app_frame':
            cfg = ConfigService(code, tracepoints=TracepointConfigService())
            out['frames'] = [list(cfg.is_app_frame(p.replace('<exec_prefix>', sys.exec_prefix))) for p in case['paths']]
        elif kind == 'app_root':
            import deep
            from deep.api.deep import Deep
            Deep.start = lambda self: None
            d = deep.start(code)
            out['frames'] = [list(d.config.is_app_frame(p)) for p in case['paths']]
        elif kind == 'root_sequence':
            # several agents configured one after the other in ONE process: each resolves its own application root, and
            # none of them changes what another configuration - or a plain ConfigService({}) - resolves
            import tempfile
            import deep
            from deep.api.deep import Deep
            Deep.start = lambda self: None
            baseline = ConfigService({}, tracepoints=TracepointConfigService()).APP_ROOT
            other = tempfile.mkdtemp(prefix='rootseq_')
            os.makedirs(os.path.join(other, 'pkg'))
            other_file = os.path.join(other, 'pkg', 'main.py')
            src = 'import deep\n\ndef go(cfg):\n    return deep.start(cfg)\n'
            ns = {}
            exec(compile(src, other_file, 'exec'), ns)
            agents, want = [], []
            for how in case['seq']:
                os.environ.pop('DEEP_APP_ROOT', None)
                if how == 'computed_here':
                    agents.append(deep.start({}))
                    want.append(os.path.dirname(os.path.dirname(os.path.abspath(__file__))))
                elif how == 'computed_other':
                    agents.append(ns['go']({}))
                    want.append(other)
                elif how == 'code':
                    agents.append(deep.start({'APP_ROOT': '/x/from_code'}))
                    want.append('/x/from_code')
                else:
                    os.environ['DEEP_APP_ROOT'] = '/x/from_env'
                    agents.append(ns['go']({}))
                    want.append('/x/from_env')
            os.environ.pop('DEEP_APP_ROOT', None)
            out['roots'] = [a.config.APP_ROOT for a in agents]
            out['want'] = want
            out['plain_before'] = baseline
            out['plain_after'] = ConfigService({}, tracepoints=TracepointConfigService()).APP_ROOT
            import shutil
            shutil.rmtree(other, ignore_errors=True)
        elif kind == 'app_root_src':
            import deep
            from deep.api.deep import Deep
            Deep.start = lambda self: None
            d = deep.start(code)
            out['root'] = d.config.APP_ROOT
            out['computed'] = os.path.dirname(os.path.dirname(os.path.abspath(__file__)))
    except BaseException as ex:
        out['error'] = repr(ex)
    print('RESULT ' + json.dumps(out, default=repr))


if __name__ == '__main__':
    main()

"""End-to-end loopback leg: random scenarios run in subprocesses (harness.e2e), traces validated by Trace_DeepAgent."""
import json
import os
import subprocess
import sys
from concurrent.futures import ThreadPoolExecutor

from . import tlc

CONSTS = dict(MaxVersion=1000, MaxHits=100000, MaxPolls=1000000, SharedConfigStore=False, ForgetsOnResume=False)
INVS = ['NothingAfterShutdown', 'NoSpuriousSnapshots', 'HashIsReceivedConfig']


def random_script(rng):
    ops = [['start']]
    v = rng.choice([0, 1])
    script = {'svc0': v}
    for _ in range(rng.randint(2, 6)):
        k = rng.choice(['svc', 'hit', 'hit', 'settle'])
        if k == 'svc':
            v += 1
            ops += [['svc', v], ['settle']]
        elif k == 'hit':
            ops += [['settle'], ['hit']] if rng.random() < 0.5 else [['hit']]
        else:
            ops.append(['settle'])
    ops.append(['shutdown'])
    for _ in range(rng.randint(0, 2)):
        ops.append(['hit'])
    script['ops'] = ops
    return script


def run_script(script):
    env = dict(os.environ)
    p = subprocess.run([sys.executable, '-m', 'harness.e2e', json.dumps(script)], cwd=tlc.VERIF, env=env,
                       stdout=subprocess.PIPE, stderr=subprocess.PIPE, timeout=180)
    for line in p.stdout.decode('utf-8', 'replace').split('\n'):
        if line.startswith('RESULT '):
            return json.JSONDecoder().raw_decode(line[7:])[0]
    raise tlc.MachineryError('end-to-end run produced no result: %s' % p.stderr.decode('utf-8', 'replace')[-600:])


def e2e_leg(c, rng, n, kind='end-to-end'):
    c.mc('DeepAgent', dict(constants=dict(MaxVersion=2, MaxHits=3, MaxPolls=3, SharedConfigStore=False, ForgetsOnResume=False),
                           invariants=INVS + ['OnlyOfferedVersions', 'QuietWhenStopped', 'HashMeansInstalled'],
                           deadlock=False),
         label='composition, 2 versions, 3 hits, 3 polls, restarts',
         must_cover=['PollResp', 'Apply', 'Hit', 'Deliver', 'ShutdownEnd', 'Restart', 'Resume'])
    c.mc_expect_violation('DeepAgent', dict(constants=dict(MaxVersion=1, MaxHits=1, MaxPolls=3, SharedConfigStore=True,
                                                           ForgetsOnResume=False),
                                            invariants=['HashMeansInstalled'], deadlock=False),
                          'deviation SharedConfigStore', what='HashMeansInstalled')
    c.mc_expect_violation('DeepAgent', dict(constants=dict(MaxVersion=1, MaxHits=1, MaxPolls=3, SharedConfigStore=False,
                                                           ForgetsOnResume=True),
                                            invariants=['HashMeansInstalled'], deadlock=False),
                          'deviation ForgetsOnResume', what='HashMeansInstalled')
    scripts = [random_script(rng) for _ in range(n)]
    with ThreadPoolExecutor(6) as ex:
        results = list(ex.map(run_script, scripts))
    traces, meta = [], []
    for sc, res in zip(scripts, results):
        if res.get('inconclusive'):
            continue          # a configuration update landed while the host line ran: the expected snapshot is ambiguous
        traces.append([{'svc': sc['svc0']}] + res['events'])
        meta.append({'script': sc, 'problems': res['problems']})
    if not traces:
        return
    accepted, progress, r = tlc.validate_traces('Trace_DeepAgent', traces, constants=CONSTS, invariants=INVS)
    c.states += r.distinct
    c.transitions += r.generated
    if not r.ok:
        st = r.trace[-1][2] if r.trace else {}
        c.violation('TLC: %s on an end-to-end run (trace %s, event %s)' % (r.violation, st.get('tid'), st.get('l')),
                    c.save_replay({'module': 'Trace_DeepAgent', 'violation': r.violation,
                                   'scenario': meta[st['tid'] - 1] if st.get('tid') else None}))
        return
    for i, tr in enumerate(traces):
        c.traces_validated += 1
        c.note_case(key=(kind, str(meta[i]['script'])), nontrivial=sum(1 for e in tr if e.get('ev') == 'recv') >= 1)
        bad = '; '.join(meta[i]['problems']) if meta[i]['problems'] else None
        if bad is None and i not in accepted:
            at = progress.get(i, 0)
            bad = 'trace rejected by Trace_DeepAgent at event %d: %s (events before: %s)' % (
                at, tr[at - 1] if at - 1 < len(tr) else None,
                [(e['ev'], e.get('v', e.get('hash', e.get('after')))) for e in tr[max(1, at - 6):at - 1]])
        if bad:
            path = c.save_replay({'direction': 'C2S', 'module': 'Trace_DeepAgent', 'script': meta[i]['script'], 'trace': tr})
            if c.violation('%s scenario %s: %s' % (kind, meta[i]['script']['ops'], bad), path) and len(c.violations) >= 5:
                return
    c.sample({'direction': 'C2S', 'module': 'Trace_DeepAgent', 'script': meta[0]['script'],
              'events': [(e['ev'], e.get('v', e.get('hash', e.get('after')))) for e in traces[0][1:]]})


def _run_sub(args, env_extra=None, timeout=300):
    env = dict(os.environ)
    env.update(env_extra or {})
    return subprocess.run(args, cwd=tlc.VERIF, env=env, stdout=subprocess.PIPE, stderr=subprocess.PIPE, timeout=timeout)


def two_lives_leg(c, same_object=False, register=True, service_empty=False):
    """deep.start() / shutdown() twice in one process against a service whose configuration does not change: the second
    agent knows no configuration yet, so it must ask for it (hash 0), get it and act on it. Trace judged by Trace_AgentIT.

    same_object: the later lives are Deep.start() on the SAME agent object, which still holds the configuration (the
    service answers 'no change') and a tracepoint registered in code during the first life: both must be acted on again."""
    p = _run_sub([sys.executable, '-m', 'harness.twolives', '3'] +
                 ([('same_regonly' if service_empty else 'same' if register else 'same_noreg')] if same_object else []),
                 timeout=180)
    res = None
    for line in p.stdout.decode('utf-8', 'replace').split('\n'):
        if line.startswith('RESULT '):
            res = json.JSONDecoder().raw_decode(line[7:])[0]
    if res is None:
        raise tlc.MachineryError('two-lives run produced no result: %s' % p.stderr.decode('utf-8', 'replace')[-600:])
    trace = res['events']
    accepted, progress, r = tlc.validate_traces('Trace_AgentIT', [trace], constants=CONSTS, invariants=['TraceInvariant'])
    c.states += r.distinct
    c.transitions += r.generated
    c.traces_validated += 1
    c.note_case(key=('two-lives', same_object, register, service_empty), nontrivial=True)
    problems = []
    if 0 not in accepted or not r.ok:
        at = progress.get(0, 1)
        problems.append('trace rejected by Trace_AgentIT at event %d: %s%s' % (
            at, trace[at - 1] if at - 1 < len(trace) else None, (' (%s)' % r.violation) if not r.ok else ''))
    for i, life in enumerate(res['lives'], 1):
        if life['result'] != 2:
            problems.append('life %d: host result %r' % (i, life['result']))
        if life['snapshots'] != life.get('expected', 1):
            problems.append('life %d: %d snapshot(s) delivered for one hit of the configured line, expected %d (%s)'
                            % (i, life['snapshots'], life.get('expected', 1), life.get('expected_from', 'the service tracepoint')))
    if problems:
        path = c.save_replay({'direction': 'C2S', 'module': 'Trace_AgentIT', 'kind': 'two-lives', 'result': res,
                              'same_object': same_object, 'problems': problems})
        c.violation('%s (start, hit, shutdown, again): %s' % (
            'several lives of ONE agent object' if same_object else 'two lives of the agent in one process', problems[:3]),
            path, signature={'lives': 'same-object-resume' if same_object else 'shared-config-store'})


def repo_it_leg(c):
    """The repository's OWN integration tests (tests/it_tests), unchanged, run under the recording pytest plugin; every
    test's trace is validated against the composition."""
    import glob
    import tempfile
    repo = os.environ.get('VERIF_REPO', '/repo')
    out = tempfile.mkdtemp(prefix='ittr_')
    p = _run_sub([sys.executable, '-m', 'pytest', '-q', '-p', 'no:cacheprovider', '-p', 'harness.it_recorder',
                  os.path.join(repo, 'tests', 'it_tests')], env_extra={'IT_TRACE_DIR': out}, timeout=600)
    tail = p.stdout.decode('utf-8', 'replace').strip().split('\n')[-1]
    files = sorted(glob.glob(os.path.join(out, '*.json')))
    if not files:
        raise tlc.MachineryError('the repository integration tests produced no traces: %s' % tail)
    tests = [json.load(open(f)) for f in files]
    traces = [t['events'] for t in tests]
    accepted, progress, r = tlc.validate_traces('Trace_AgentIT', traces, constants=CONSTS, invariants=['TraceInvariant'])
    c.states += r.distinct
    c.transitions += r.generated
    c.extra['repo_it_tests'] = {'pytest': tail, 'traces': len(traces)}
    for i, t in enumerate(tests):
        c.traces_validated += 1
        c.note_case(key=('repo-it', t['test']), nontrivial=True)
        if i not in accepted or not r.ok:
            at = progress.get(i, 1)
            ev = traces[i][at - 1] if at - 1 < len(traces[i]) else None
            path = c.save_replay({'direction': 'C2S', 'module': 'Trace_AgentIT', 'kind': 'repo-it', 'test': t['test'],
                                  'trace': traces[i], 'rejected_at': at})
            c.violation('the repository test %s: trace rejected by Trace_AgentIT at event %d: %s' % (t['test'], at, ev),
                        path, signature={'lives': 'shared-config-store'} if (ev or {}).get('ev') == 'pollreq' else None)
    import shutil
    shutil.rmtree(out, ignore_errors=True)

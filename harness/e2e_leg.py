"""End-to-end loopback leg: random scenarios run in subprocesses (harness.e2e), traces validated by Trace_DeepAgent."""
import json
import os
import subprocess
import sys
from concurrent.futures import ThreadPoolExecutor

from . import tlc

CONSTS = dict(MaxVersion=1000, MaxHits=100000, MaxPolls=1000000)
INVS = ['NothingAfterShutdown', 'NoSpuriousSnapshots', 'HashIsReceivedConfig']


def random_script(rng):
    ops = [['start']]
    v = rng.choice([0, 1])
    script = {'svc0': v}
    for _ in range(rng.randint(2, 6)):
        k = rng.choice(['svc', 'hit', 'hit', 'settle'])
        if k == 'svc':
            v += 1
            ops += [['svc', v], ['settle']]
        elif k == 'hit':
            ops += [['settle'], ['hit']] if rng.random() < 0.5 else [['hit']]
        else:
            ops.append(['settle'])
    ops.append(['shutdown'])
    for _ in range(rng.randint(0, 2)):
        ops.append(['hit'])
    script['ops'] = ops
    return script


def run_script(script):
    env = dict(os.environ)
    p = subprocess.run([sys.executable, '-m', 'harness.e2e', json.dumps(script)], cwd=tlc.VERIF, env=env,
                       stdout=subprocess.PIPE, stderr=subprocess.PIPE, timeout=180)
    for line in p.stdout.decode('utf-8', 'replace').split('\n'):
        if line.startswith('RESULT '):
            return json.loads(line[7:])
    raise tlc.MachineryError('end-to-end run produced no result: %s' % p.stderr.decode('utf-8', 'replace')[-600:])


def e2e_leg(c, rng, n, kind='end-to-end'):
    c.mc('DeepAgent', dict(constants=dict(MaxVersion=2, MaxHits=3, MaxPolls=3),
                           invariants=INVS + ['OnlyOfferedVersions', 'QuietWhenStopped'], deadlock=False),
         label='composition, 2 versions, 3 hits, 3 polls', must_cover=['PollResp', 'Apply', 'Hit', 'Deliver', 'ShutdownEnd'])
    scripts = [random_script(rng) for _ in range(n)]
    with ThreadPoolExecutor(6) as ex:
        results = list(ex.map(run_script, scripts))
    traces, meta = [], []
    for sc, res in zip(scripts, results):
        if res.get('inconclusive'):
            continue          # a configuration update landed while the host line ran: the expected snapshot is ambiguous
        traces.append([{'svc': sc['svc0']}] + res['events'])
        meta.append({'script': sc, 'problems': res['problems']})
    if not traces:
        return
    accepted, progress, r = tlc.validate_traces('Trace_DeepAgent', traces, constants=CONSTS, invariants=INVS)
    c.states += r.distinct
    c.transitions += r.generated
    if not r.ok:
        st = r.trace[-1][2] if r.trace else {}
        c.violation('TLC: %s on an end-to-end run (trace %s, event %s)' % (r.violation, st.get('tid'), st.get('l')),
                    c.save_replay({'module': 'Trace_DeepAgent', 'violation': r.violation,
                                   'scenario': meta[st['tid'] - 1] if st.get('tid') else None}))
        return
    for i, tr in enumerate(traces):
        c.traces_validated += 1
        c.note_case(key=(kind, str(meta[i]['script'])), nontrivial=sum(1 for e in tr if e.get('ev') == 'recv') >= 1)
        bad = '; '.join(meta[i]['problems']) if meta[i]['problems'] else None
        if bad is None and i not in accepted:
            at = progress.get(i, 0)
            bad = 'trace rejected by Trace_DeepAgent at event %d: %s (events before: %s)' % (
                at, tr[at - 1] if at - 1 < len(tr) else None,
                [(e['ev'], e.get('v', e.get('hash', e.get('after')))) for e in tr[max(1, at - 6):at - 1]])
        if bad:
            path = c.save_replay({'direction': 'C2S', 'module': 'Trace_DeepAgent', 'script': meta[i]['script'], 'trace': tr})
            if c.violation('%s scenario %s: %s' % (kind, meta[i]['script']['ops'], bad), path) and len(c.violations) >= 5:
                return
    c.sample({'direction': 'C2S', 'module': 'Trace_DeepAgent', 'script': meta[0]['script'],
              'events': [(e['ev'], e.get('v', e.get('hash', e.get('after')))) for e in traces[0][1:]]})

"""A real Deep object wired to fakes, driven through start/shutdown histories of spec/Lifecycle.tla."""
import sys
import threading
import time

from . import rig as R
from . import fakes

PLUGIN_LOG = []


def dummy_sys(frame, event, arg):
    return None


def dummy_thr(frame, event, arg):
    return None


def app_sys(frame, event, arg):
    return None


def app_thr(frame, event, arg):
    return None


HOST = '''
def beat(n):
    m = n + 1
    return m  # TP:beat
'''


class LifeSystem:
    """Everything happens on the calling thread (sys.settrace is per thread): use one fresh thread per behaviour."""

    def __init__(self, workdir, no_trace, pre_sys, pre_thr, nplugins=2, plugin_exc=Exception):
        import deep.api.plugin as plugin_mod
        from deep.api.deep import Deep
        from deep.config import ConfigService
        from deep.config.tracepoint_config import TracepointConfigService
        self.plugin_mod = plugin_mod
        self.saved_builtin = plugin_mod.DEEP_PLUGINS
        plugin_mod.DEEP_PLUGINS = []
        self.saved_thr = threading.gettrace()
        self.pre = {'sys': dummy_sys if pre_sys == 'Other1' else None, 'thr': dummy_thr if pre_thr == 'Other2' else None}
        sys.settrace(self.pre['sys'])
        threading.settrace(self.pre['thr'])
        self.mod, self.path, self.marks = R.write_host(workdir, HOST)
        self.plugins = [R.role_plugin('p%d' % (i + 1), {'log', 'decorate', 'resource'}, exc=plugin_exc)
                        for i in range(nplugins)]
        holder = self

        # plugins are loaded by name through load_plugins: a generated module exposes factories
        import types
        m = types.ModuleType('vplug_%d' % id(self))
        for i, p in enumerate(self.plugins):
            def factory(config=None, p=p):
                p.config = config
                return p
            setattr(m, 'P%d' % (i + 1), factory)
        sys.modules[m.__name__] = m
        self.plugmod = m
        self.tps = TracepointConfigService()
        self.cfg = ConfigService({'SERVICE_URL': 'fake:1', 'SERVICE_SECURE': 'False', 'POLL_TIMER': 0.02,
                                  'NO_TRACE': no_trace, 'APP_ROOT': workdir,
                                  'PLUGINS': ['%s.P%d' % (m.__name__, i + 1) for i in range(nplugins)]},
                                 tracepoints=self.tps)
        self.deep = Deep(self.cfg)
        self.chan = fakes.FakeChannel()
        self.deep.grpc.start = lambda: setattr(self.deep.grpc, 'channel', self.chan)
        self.deep.grpc._metadata = []
        self.poll_fail = False
        self.send_block = None
        self.send_blocks = {}
        self.send_fail_ids = set()
        self.send_fail = False
        self.sent = []
        self.polls = 0
        self.chan.script('/poll', self._poll)
        self.chan.script('/send', self._send)
        self.no_trace = no_trace
        self.errors = []
        # a thread of the application that exists BEFORE the agent is started (so it never carries the agent's trace
        # function): shutdown() may be called from it
        import queue
        self._other_q = queue.Queue()

        def other_loop():
            while True:
                job = self._other_q.get()
                if job is None:
                    return
                fn, box, done = job
                try:
                    fn()
                except BaseException as ex:
                    box['ex'] = ex
                finally:
                    done.set()
        self._other = threading.Thread(target=other_loop, daemon=True)
        self._other.start()

    def _poll(self, request):
        from deepproto.proto.poll.v1.poll_pb2 import PollResponse, ResponseType
        from deepproto.proto.tracepoint.v1.tracepoint_pb2 import TracePointConfig
        self.polls += 1
        hang = getattr(self, 'poll_hang', None)
        if hang is not None:
            self.poll_hanging = True
            hang.wait(60)           # the service does not answer (the connection hangs)
        if getattr(self, 'poll_interrupt', False):
            self.poll_interrupt = False
            raise KeyboardInterrupt()     # the user gives up on a service that does not answer: start() fails with it
        if self.poll_fail:
            raise fakes.FakeRpcError('unavailable')
        cur = getattr(self, 'late_hash', 'h1')      # (see start(): a new configuration with every second life)
        if request.current_hash == cur:
            return PollResponse(ts_nanos=1, current_hash=cur, response_type=ResponseType.NO_CHANGE)
        tp = TracePointConfig(ID='life', path=self.path.rsplit('/', 1)[-1], line_number=self.marks['beat'],
                              args={'fire_count': '-1', 'fire_period': '0', 'log_msg': 'beat {n}'})
        return PollResponse(ts_nanos=1, current_hash=cur, response=[tp], response_type=ResponseType.UPDATE)

    def _send(self, request):
        n = int.from_bytes(request.ID, 'big')
        blk = self.send_blocks.get(n)
        if blk is not None:
            blk.wait(5)
        self.sent.append(request.ID)
        if n in self.send_fail_ids or self.send_fail:
            raise fakes.FakeRpcError('unavailable')
        return None

    def hook_name(self, fn):
        if fn is None:
            return 'None'
        if fn is app_sys:
            return 'Other2'
        if fn is app_thr:
            return 'Other1'
        if fn is dummy_sys:
            return 'Other1'
        if fn is dummy_thr:
            return 'Other2'
        if getattr(fn, '__self__', None) is self.deep.trigger_handler:
            return 'Agent'
        return 'Unknown:%r' % (fn,)

    def start(self):
        if not self.deep.started:
            self.lives = getattr(self, 'lives', 0) + 1
            # the service's configuration changes before every SECOND life (lives 2, 4, ...): a life that follows a
            # shutdown with the configuration unchanged (lives 3, 5, ...) gets 'no change' for the hash the agent still
            # holds, and must act on it all the same
            self.late_hash = 'h%d' % (self.lives // 2 + 1)
            self.poll_fail = False          # (a service that failed during the previous shutdown is back for this life)
        self.deep.start()

    def start_fails(self):
        """start() with a poll interval that cannot be used: it raises to the caller. Returns True when it did."""
        custom = self.cfg._ConfigService__custom
        good = custom['POLL_TIMER']
        custom['POLL_TIMER'] = 'every now and then'
        try:
            self.deep.start()
            return False
        except BaseException:
            return True
        finally:
            custom['POLL_TIMER'] = good

    def app_sets_hooks(self):
        """The application (e.g. a debugger) installs its own trace functions while the agent is running."""
        sys.settrace(app_sys)
        threading.settrace(app_thr)

    def app_changes_hooks(self, sys_name, thr_name):
        """Between two lives of the agent the application replaces (or removes) its own trace functions."""
        sys.settrace({'None': None, 'Other1': dummy_sys, 'Other2': app_sys}[sys_name])
        threading.settrace({'None': None, 'Other1': app_thr, 'Other2': dummy_thr}[thr_name])

    def pending_snapshot(self):
        """Hand two snapshots to delivery that are still pending when shutdown flushes: the first one fails as soon
        as flush has started, the second one succeeds a little later (shutdown must wait for it as well)."""
        from deep.api.tracepoint.eventsnapshot import EventSnapshot
        from deep.api.tracepoint.tracepoint_config import TracePointConfig
        from deep.api.resource import Resource
        first, second, zero = threading.Event(), threading.Event(), threading.Event()
        self.send_block = first
        snaps = []
        accepted = []
        th = self.deep.task_handler
        o_submit = th.submit_task

        def submit(*a, **kw):
            f = o_submit(*a, **kw)
            accepted.append(f)
            return f
        th.submit_task = submit
        # the history before the shutdown: an earlier delivery (zero) is in flight when the slow one (second) is handed
        # over, finishes, and only then the failing one (first) is handed over - so the handler's bookkeeping has seen
        # an entry go away while another one was still pending
        try:
            for blk, fail in ((zero, False), (second, False), (first, True)):
                snap = EventSnapshot(TracePointConfig('x', 'f.py', 1, {}, [], []), 1, Resource.create(), [], {})
                snap._id = len(self.send_blocks) + 1001
                self.send_blocks[snap._id] = blk
                if fail:
                    self.send_fail_ids.add(snap._id)
                snaps.append(snap)
                try:
                    self.deep.push.push_snapshot(snap)
                except BaseException:
                    # after a shutdown the task handler stays closed: a later start does not reopen it and the delivery
                    # is refused visibly - then there is nothing pending for this shutdown to drain
                    blk.set()
                if blk is second and accepted:
                    zero.set()
                    t0 = time.time()
                    while not accepted[0].done() and time.time() - t0 < 5:
                        time.sleep(0.002)
                    t0 = time.time()
                    while len(th._pending) > len(accepted) - 1 and time.time() - t0 < 1:
                        time.sleep(0.002)       # (its done-callback has removed the entry)
        finally:
            th.submit_task = o_submit
            zero.set()
        orig = self.deep.task_handler.flush
        # the accepted deliveries themselves: "still pending" is judged on whether they have FINISHED when shutdown
        # returns, not on the handler's bookkeeping (its done-callback removes the entry a moment after the waiters
        # of the future are woken, which on a loaded machine can be after shutdown() has returned)
        self._accepted = [f for f in accepted if not f.done()]

        def flush():
            first.set()
            threading.Timer(0.25, second.set).start()
            if getattr(self, 'late_poll', False):
                # the poll timer fires while shutdown drains: the service has a NEW configuration by now
                def late():
                    time.sleep(0.05)
                    self.late_hash = 'late%d' % getattr(self, 'lives', 1)
                    try:
                        self.deep.poll.poll()
                    except BaseException:
                        pass            # refused visibly (the task handler is closed): fine
                threading.Thread(target=late).start()
            return orig()
        self.deep.task_handler.flush = flush
        self._release = (first, second)

    def shutdown(self, failing, late_poll=False, other_thread=False):
        """failing: set of step numbers (2 = pending deliveries fail, 3 = service failing, 3+i = plugin i raises).
        late_poll: a poll answer with a new configuration arrives while the drain is waiting; other_thread: shutdown()
        is called from another thread than the one that started the agent."""
        self.late_poll = late_poll
        if self.deep.started:
            if 2 in failing:
                self.pending_snapshot()
            if 3 in failing:
                self.poll_fail = True
            for i, p in enumerate(self.plugins):
                if (4 + i) in failing:
                    p.faults.add('shutdown')
                else:
                    p.faults.discard('shutdown')
            for p in self.plugins:
                del p.calls[:]
        try:
            if other_thread:
                box, done = {}, threading.Event()
                self._other_q.put((self.deep.shutdown, box, done))
                if not done.wait(60):
                    raise RuntimeError('shutdown on the other thread did not return')
                if 'ex' in box:
                    raise box['ex']
            else:
                self.deep.shutdown()
            return None
        except BaseException as ex:
            return repr(ex)
        finally:
            self.pending_at_return = len([f for f in getattr(self, '_accepted', ()) if not f.done()])
            self._accepted = []
            for ev in getattr(self, '_release', ()):
                ev.set()

    def project(self):
        timer = self.deep.poll.timer
        box, done = {}, threading.Event()
        self._other_q.put((lambda: box.setdefault('hook', sys.gettrace()), {}, done))
        done.wait(10)
        return {'sysTrace': self.hook_name(sys.gettrace()), 'thrTrace': self.hook_name(threading.gettrace()),
                'otherHook': self.hook_name(box.get('hook', 'missing')),
                'started': bool(self.deep.started),
                'pollAlive': bool(timer is not None and timer.thread.is_alive()),
                'pending': getattr(self, 'pending_at_return', 0),
                'pluginDown': sorted(i + 1 for i, p in enumerate(self.plugins)
                                     if any(c[0] == 'shutdown' for c in p.calls))}

    def close(self):
        self._other_q.put(None)
        try:
            if self.deep.poll.timer is not None:
                self.deep.poll.timer.stop()
        except BaseException:
            pass
        try:
            self.deep.task_handler._pool.shutdown(wait=False)
        except BaseException:
            pass
        sys.settrace(None)
        threading.settrace(self.saved_thr)
        self.plugin_mod.DEEP_PLUGINS = self.saved_builtin
        sys.modules.pop(self.plugmod.__name__, None)
        sys.modules.pop(self.mod.__name__, None)

"""Real Deep / TracepointConfigService / LongPoll / TriggerHandler with a manual pool and a fake channel,
stepped along behaviours of spec/ConfigSync.tla."""
from concurrent.futures import Future

from . import rig as R   # noqa: F401  (sets up sys.path and logging)
from . import fakes


class ManualPool:
    """Stands in for the 2-worker ThreadPoolExecutor: the driver decides who takes and who applies."""

    def __init__(self):
        self.queue = []
        self.slots = {}

    def submit(self, fn, *args, **kw):
        f = Future()
        self.queue.append((f, fn, args, kw))
        return f

    def shutdown(self, wait=True):
        pass

    def take(self, w):
        self.slots[w] = self.queue.pop(0)

    def apply(self, w):
        f, fn, args, kw = self.slots.pop(w)
        f.set_running_or_notify_cancel()
        try:
            f.set_result(fn(*args, **kw))
        except BaseException as ex:
            f.set_exception(ex)


def version_of(triggers, prefix='cfg-'):
    vs = set()
    for t in triggers or []:
        if t is None:
            continue
        for a in t._Trigger__actions:
            if str(a.id).startswith(prefix):
                vs.add(int(str(a.id)[len(prefix):]))
    if not vs:
        return 0
    return max(vs) if len(vs) == 1 else -1


def reg_tags(triggers):
    out = []
    for t in triggers or []:
        if t is None:
            out.append(-1)
            continue
        for a in t._Trigger__actions:
            for w in a.config.get('watches', []) or []:
                if str(w).startswith('r') and str(w)[1:].isdigit():
                    out.append(int(str(w)[1:]))
    return out


class SyncSystem:
    def __init__(self):
        from deep.api.deep import Deep
        from deep.config import ConfigService
        from deep.config.tracepoint_config import TracepointConfigService
        from deep.api.resource import Resource
        self.tps = TracepointConfigService()
        self.cfg = ConfigService({'SERVICE_URL': 'fake:1', 'SERVICE_SECURE': 'False', 'POLL_TIMER': 3600},
                                 tracepoints=self.tps)
        self.cfg.resource = Resource.create()
        self.deep = Deep(self.cfg)
        self.deep.task_handler._pool.shutdown(wait=False)
        self.pool = ManualPool()
        self.deep.task_handler._pool = self.pool
        self.chan = fakes.FakeChannel()
        self.deep.grpc.channel = self.chan
        self.deep.grpc._metadata = []
        self.svc = 0
        self.answer_kind = 'no_change'
        self.chan.script('/poll', self._answer)
        self.handles = {}
        self.nreg = 0
        self.requests = []

    def _answer(self, request):
        from deepproto.proto.poll.v1.poll_pb2 import PollResponse, ResponseType
        from deepproto.proto.tracepoint.v1.tracepoint_pb2 import TracePointConfig
        self.requests.append(request.current_hash)
        k = self.answer_kind
        if k == 'error':
            raise fakes.FakeRpcError('service unavailable')
        if k == 'malformed':
            return object()
        if k == 'unknown_type':
            # a response type of a newer service: it carries the service's current hash and nothing this agent can use
            return PollResponse(ts_nanos=self.svc + 1, current_hash=str(self.svc) if self.svc else '77',
                                response_type=7)
        if k == 'no_change':
            return PollResponse(ts_nanos=1, current_hash=str(self.svc) if self.svc else '',
                                response_type=ResponseType.NO_CHANGE)
        tp = TracePointConfig(ID='cfg-%d' % self.svc, path='svc.py', line_number=self.svc,
                              args={'fire_count': '-1'}, watches=[])
        return PollResponse(ts_nanos=self.svc, current_hash=str(self.svc), response=[tp],
                            response_type=ResponseType.UPDATE)

    # ---- spec actions
    def do(self, action, args):
        if action == 'SvcChange':
            self.svc += 1
        elif action == 'PollSend':
            pass                      # the request goes out inside poll(), performed with the answer
        elif action == 'PollAnswer':
            self.answer_kind = args[0]
            try:
                self.deep.poll.poll()
            except BaseException as ex:
                if args[0] not in ('error', 'malformed', 'unknown_type'):
                    raise
        elif action == 'Register':
            self.nreg += 1
            loc = args[0]
            if loc.startswith('M'):
                # a METHOD tracepoint of file L<n>.py: another location of a file that also has line registrations
                self.handles[self.nreg] = self.deep.register_tracepoint('L' + loc[1:] + '.py', 0, {'method_name': 'handle'},
                                                                        ['r%d' % self.nreg])
            else:
                self.handles[self.nreg] = self.deep.register_tracepoint(loc + '.py', 10, {}, ['r%d' % self.nreg])
        elif action == 'Unregister':
            self.handles[args[0]].unregister()
        elif action == 'Take':
            self.pool.take(args[0])
        elif action == 'Apply':
            self.pool.apply(args[0])
        else:
            raise ValueError(action)

    def project(self):
        h = self.tps.current_hash
        return {'hash': int(h) if h else 0,
                'polled': version_of(self.tps._tracepoint_config),
                'custom': reg_tags(self.tps._custom),
                'jobs': len(self.pool.queue),
                'installed': {'cfg': version_of(self.deep.trigger_handler._tp_config),
                              'regs': sorted(reg_tags(self.deep.trigger_handler._tp_config))},
                'last_request_hash': (int(self.requests[-1]) if self.requests[-1] else 0) if self.requests else None}


def expected(st):
    return {'hash': st['hash'], 'polled': st['polled'], 'custom': [c['r'] for c in st['custom']],
            'jobs': len(st['jobs']),
            'installed': {'cfg': st['installed']['cfg'], 'regs': sorted(st['installed']['regs'])}}


class ConcurrentSync(SyncSystem):
    """The same real objects, but the pool's two workers and the thread that polls / registers are real threads
    under the cooperative scheduler, with every line of tracepoint_config.py a possible preemption point."""

    LINE_FILES = ('deep/config/tracepoint_config.py',)

    def __init__(self, script):
        from . import sched as S
        super().__init__()
        self.sched = S.Scheduler(line_files=self.LINE_FILES)
        self.cpool = fakes.ControlledPool(self.sched)
        self.deep.task_handler._pool = self.cpool
        self.script = script
        self.errors = []

    def main_body(self):
        for action, args in self.script:
            self.sched.point('before-' + action)
            try:
                self.do(action, args)
            except BaseException as ex:
                self.errors.append(repr(ex))

    def do(self, action, args):
        if action in ('Take', 'Apply'):
            raise ValueError('workers are threads here')
        return super().do(action, args)

    def spawn(self):
        self.sched.spawn('M', self.main_body)
        self.sched.spawn('W1', self.cpool.worker)
        self.sched.spawn('W2', self.cpool.worker)

    def finish(self):
        self.cpool.stop = True
        for w in ('W1', 'W2'):
            while not self.sched.threads[w].done and w in self.sched.enabled():
                self.sched.step(w)
        self.sched.join()
        h = self.tps.current_hash
        return {'hash': int(h) if h else 0, 'polled': version_of(self.tps._tracepoint_config),
                'custom': reg_tags(self.tps._custom),
                'installed': {'cfg': version_of(self.deep.trigger_handler._tp_config),
                              'regs': sorted(reg_tags(self.deep.trigger_handler._tp_config))},
                'errors': self.errors + [n + ':' + repr(m.error) for n, m in self.sched.threads.items()
                                         if m.error is not None]}

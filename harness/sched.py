"""Cooperative thread scheduler: real threads, one runs at a time, switches only at `point()` calls.

Points are reached either from wrapped methods (gate mode) or from a per-thread sys.settrace tracer that makes
every executed line of selected files a point (line mode). The driver decides who runs next; exploring all
choice sequences with a preemption bound is stateless model checking of the real code.
"""
import sys
import threading


class Managed:
    def __init__(self, sched, name, fn):
        self.sched = sched
        self.name = name
        self.fn = fn
        self.go = threading.Semaphore(0)
        self.parked = threading.Event()
        self.blocked = False    # released but did not reach a point in time (waiting for a lock another holds)
        self.at = None          # label of the point it is parked at
        self.done = False
        self.error = None
        # every scheduled thread carries the SAME name (a pool that names its workers alike): what belongs to a thread is
        # told apart by the thread, never by its name
        self.thread = threading.Thread(target=self._run, name='worker', daemon=True)
        self.steps = 0
        self.guard = None

    def _run(self):
        self.sched._local.me = self
        self.go.acquire()
        try:
            if self.sched.line_files:
                sys.settrace(self.sched._line_tracer)
            self.fn()
        except BaseException as ex:   # recorded, judged by the caller
            self.error = ex
        finally:
            sys.settrace(None)
            self.done = True
            self.at = None
            self.parked.set()


class Scheduler:
    def __init__(self, line_files=()):
        self._local = threading.local()
        self._parked = threading.Semaphore(0)
        self.threads = {}
        self.order = []
        self.line_files = tuple(line_files)
        self.log = []
        self.timeout = 20
        self.block_timeout = 0.05

    def spawn(self, name, fn):
        m = Managed(self, name, fn)
        self.threads[name] = m
        self.order.append(name)
        m.thread.start()
        return m

    def me(self):
        return getattr(self._local, 'me', None)

    def point(self, label, guard=None):
        """Called by a managed thread: park here until the driver releases it.

        guard: optional callable; while it returns False the thread is not offered to the driver (it waits for
        a condition another thread establishes, e.g. a future completing or a work queue filling)."""
        m = self.me()
        if m is None:
            return
        m.guard = guard
        m.at = label
        m.parked.set()
        m.go.acquire()
        m.at = None
        m.guard = None

    def _line_tracer(self, frame, event, arg):
        fn = frame.f_code.co_filename
        if event == 'call':
            for lf in self.line_files:
                if fn.endswith(lf):
                    return self._line_tracer
            return None
        if event == 'line':
            self.point('%s:%d' % (fn.rsplit('/', 1)[-1], frame.f_lineno))
        return self._line_tracer

    def step(self, name):
        """Let thread `name` run to its next point (or to completion). Returns its new label or None if done."""
        m = self.threads[name]
        if m.done:
            raise RuntimeError("thread %s already finished" % name)
        m.steps += 1
        m.parked.clear()
        m.go.release()
        if not m.parked.wait(timeout=self.block_timeout) and not self._wait_unless_blocked(m):
            # it is waiting for a lock held by a parked thread: it will park by itself once that lock is freed
            m.blocked = True
            self.log.append((name, 'BLOCKED'))
            return 'BLOCKED'
        self.log.append((name, m.at))
        return m.at

    @staticmethod
    def _os_state(m):
        """(kernel scheduling state, cpu ticks) of a managed thread, or None when /proc cannot tell."""
        try:
            with open('/proc/self/task/%d/stat' % m.thread.native_id) as f:
                rest = f.read().rsplit(')', 1)[1].split()
            return rest[0], int(rest[11]) + int(rest[12])
        except Exception:
            return None

    def _wait_unless_blocked(self, m):
        """The released thread did not park within block_timeout. On a loaded machine that does not mean it waits
        for a lock: it may simply not have been given a CPU. Keep waiting while the kernel reports it runnable or
        its CPU time advances; call it blocked only after it has been asleep without progress for several samples.
        Returns True when it parked after all."""
        import time
        deadline = time.time() + self.timeout
        asleep = 0
        last = self._os_state(m)
        if last is None:
            return False
        while time.time() < deadline:
            if m.parked.wait(timeout=0.01):
                return True
            cur = self._os_state(m)
            if cur is None:
                return m.parked.is_set()
            if cur[0] == 'S' and cur[1] == last[1]:
                asleep += 1
                if asleep >= 6:
                    return m.parked.is_set()
            else:
                asleep = 0
            last = cur
        return m.parked.is_set()

    def enabled(self):
        """Threads that can be released now (parked at a point, not finished, not waiting for a lock)."""
        import time
        deadline = time.time() + self.timeout
        while True:
            out = []
            waiting = False
            for n in self.order:
                m = self.threads[n]
                if m.done:
                    continue
                if m.blocked:
                    if m.parked.is_set():
                        m.blocked = False
                        if m.done:
                            continue
                    else:
                        waiting = True
                        continue
                if m.guard is not None and not m.guard():
                    continue
                out.append(n)
            if out or not waiting:
                return out
            if time.time() > deadline:
                raise TimeoutError("all remaining threads are blocked: %s" % [n for n in self.order
                                                                            if not self.threads[n].done])
            time.sleep(0.001)

    def run_to_end(self, name):
        while not self.threads[name].done:
            self.step(name)

    def join(self):
        """Join the threads that have finished (parked threads are left to the caller)."""
        for m in self.threads.values():
            if m.done:
                m.thread.join(timeout=self.timeout)


def explore(make_run, max_preemptions=2, max_runs=None, should_stop=None, strategy='mixed'):
    """Enumerate schedules of a fresh system with at most `max_preemptions` preemptive switches.

    make_run() -> (scheduler, finish) where the scheduler has its threads spawned (none started) and
    finish(sched, schedule) is called when all threads are done and returns the run's result.
    Yields (schedule, result) per run. A schedule is the list of thread names chosen at each step.
    """
    # Two work lists over choice prefixes (each entry: list of thread names, the forced prefix), served in turn:
    #  - breadth-first: the default schedule, then every schedule that deviates from it once, then twice ... - under a
    #    run cap every schedule that needs ONE forced switch is visited before any deeper combination;
    #  - depth-first: the earliest alternative of the most recent run - reaches combinations of several forced
    #    switches (which some races need) long before the breadth-first list gets there.
    import collections
    stack = collections.deque([[]])     # breadth-first list
    dfs = []                            # depth-first list
    visited = set()
    seen = 0
    turn = 0
    while stack or dfs:
        turn += 1
        if strategy == 'bfs':
            del dfs[:]
        elif strategy == 'dfs' and turn > 1:
            stack.clear()
            if not dfs:
                break
        if (turn % 2 == 1 and stack) or not dfs:
            prefix = stack.popleft()
            origin = 'bfs'
        else:
            prefix = dfs.pop()
            origin = 'dfs'
        if tuple(prefix) in visited:
            continue
        visited.add(tuple(prefix))
        sched, finish = make_run()
        schedule = []
        current = None
        preempts = 0
        i = 0
        branch_points = []   # (index, alternatives, preempts_before)
        while True:
            en = sched.enabled()
            if not en:
                break
            if i < len(prefix):
                choice = prefix[i]
                if choice not in en:
                    # prefix no longer feasible (nondeterminism) - fall back to default
                    choice = current if current in en else en[0]
            else:
                choice = current if current in en else en[0]
                # alternatives at this point (explored later)
                for alt in en:
                    if alt != choice:
                        cost = 1 if (current in en and current is not None) else 0
                        if preempts + cost <= max_preemptions:
                            branch_points.append((i, alt))
            if current is not None and current in en and choice != current:
                preempts += 1
            sched.step(choice)
            schedule.append(choice)
            current = choice
            i += 1
        sched.join()
        result = finish(sched, schedule)
        seen += 1
        yield schedule, result
        if max_runs is not None and seen >= max_runs:
            return
        if should_stop is not None and should_stop():
            return
        # each list grows from its own runs only (the first run feeds both): two independent explorations
        if origin == 'bfs' or seen == 1:
            for (idx, alt) in branch_points:
                stack.append(schedule[:idx] + [alt])
        if origin == 'dfs' or seen == 1:
            for (idx, alt) in reversed(branch_points):
                dfs.append(schedule[:idx] + [alt])

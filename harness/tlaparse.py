"""Parse TLA+ values / states / state graphs as printed by TLC 1.8.

Values map to Python as:  integers -> int, strings -> str, TRUE/FALSE -> bool,
model values / identifiers -> Sym(name) (a str subclass), sets -> frozenset,
sequences/tuples -> tuple, records -> dict (str keys), functions (a :> b @@ ...) -> dict.
"""
import re


class Sym(str):
    """A TLA+ model value (printed as a bare identifier)."""

    def __repr__(self):
        return "Sym(%s)" % str.__repr__(self)


class FrozenDict(dict):
    def __hash__(self):
        return hash(frozenset(self.items()))


_TOK = re.compile(r'''\s*(?:
    (?P<int>-?\d+) |
    (?P<str>"(?:[^"\\]|\\.)*") |
    (?P<op>\|->|:>|@@|<<|>>|\[|\]|\{|\}|\(|\)|,|\.\.) |
    (?P<id>[A-Za-z_][A-Za-z0-9_!]*)
)''', re.X)


def _tokens(text):
    pos = 0
    out = []
    n = len(text)
    while pos < n:
        m = _TOK.match(text, pos)
        if not m:
            if text[pos:].strip() == '':
                break
            raise ValueError("cannot tokenise TLA+ value at %r" % text[pos:pos + 40])
        pos = m.end()
        kind = m.lastgroup
        out.append((kind, m.group(kind)))
    return out


class _P:
    def __init__(self, toks):
        self.t = toks
        self.i = 0

    def peek(self):
        return self.t[self.i] if self.i < len(self.t) else (None, None)

    def next(self):
        tok = self.t[self.i]
        self.i += 1
        return tok

    def expect(self, v):
        k, x = self.next()
        if x != v:
            raise ValueError("expected %r got %r" % (v, x))

    def value(self):
        k, x = self.next()
        if k == 'int':
            v = int(x)
            if self.peek()[1] == '..':
                self.next()
                hi = self.value()
                return frozenset(range(v, hi + 1))
            return v
        if k == 'str':
            return bytes(x[1:-1], 'utf-8').decode('unicode_escape') if '\\' in x else x[1:-1]
        if k == 'id':
            if x == 'TRUE':
                return True
            if x == 'FALSE':
                return False
            return Sym(x)
        if x == '<<':
            items = []
            if self.peek()[1] == '>>':
                self.next()
                return ()
            while True:
                items.append(self.value())
                k2, x2 = self.next()
                if x2 == '>>':
                    break
                if x2 != ',':
                    raise ValueError("bad tuple sep %r" % x2)
            return tuple(items)
        if x == '{':
            items = []
            if self.peek()[1] == '}':
                self.next()
                return frozenset()
            while True:
                items.append(self.value())
                k2, x2 = self.next()
                if x2 == '}':
                    break
                if x2 != ',':
                    raise ValueError("bad set sep %r" % x2)
            return frozenset(items)
        if x == '[':
            rec = FrozenDict()
            while True:
                k2, name = self.next()
                self.expect('|->')
                rec[str(name)] = self.value()
                k3, x3 = self.next()
                if x3 == ']':
                    break
                if x3 != ',':
                    raise ValueError("bad record sep %r" % x3)
            return rec
        if x == '(':
            fn = FrozenDict()
            while True:
                key = self.value()
                self.expect(':>')
                fn[key] = self.value()
                k3, x3 = self.next()
                if x3 == ')':
                    break
                if x3 != '@@':
                    raise ValueError("bad function sep %r" % x3)
            return fn
        raise ValueError("unexpected token %r" % (x,))


def parse_value(text):
    p = _P(_tokens(text))
    v = p.value()
    if p.i != len(p.t):
        raise ValueError("trailing tokens in %r" % text[:80])
    return v


_CONJ = re.compile(r'^/\\ ([A-Za-z_][A-Za-z0-9_]*) = ', re.M)


def parse_state(text):
    """Parse '/\\ v = value\n/\\ w = value' (or 'v = value' for one variable)."""
    text = text.strip()
    if not text.startswith('/\\'):
        m = re.match(r'^([A-Za-z_][A-Za-z0-9_]*) = ', text)
        return {m.group(1): parse_value(text[m.end():])}
    ms = list(_CONJ.finditer(text))
    st = {}
    for i, m in enumerate(ms):
        end = ms[i + 1].start() if i + 1 < len(ms) else len(text)
        st[m.group(1)] = parse_value(text[m.end():end])
    return st


_ACT = re.compile(r'^([A-Za-z_][A-Za-z0-9_!]*)(?:\((.*)\))?$')


def parse_action_label(label):
    """'Inc(1, "a")' -> ('Inc', (1, 'a'));  'Reset' -> ('Reset', ())."""
    m = _ACT.match(label.strip())
    if not m:
        return label, ()
    name, args = m.group(1), m.group(2)
    if args is None or args.strip() == '':
        return name, ()
    return name, parse_value('<<' + args + '>>')


def _unescape_dot(s):
    return s.replace('\\n', '\n').replace('\\"', '"').replace('\\\\', '\\')


_NODE = re.compile(r'^(-?\d+) \[label="((?:[^"\\]|\\.)*)"')
_EDGE = re.compile(r'^(-?\d+) -> (-?\d+) \[label="((?:[^"\\]|\\.)*)"')


class Graph:
    def __init__(self):
        self.states = {}   # id -> dict
        self.init = []     # ids
        self.edges = {}    # id -> [(action, args, dst)]

    def succ(self, s):
        return self.edges.get(s, [])


def parse_dot(path):
    g = Graph()
    with open(path) as f:
        for line in f:
            m = _EDGE.match(line)
            if m:
                a, b, lab = m.group(1), m.group(2), _unescape_dot(m.group(3))
                name, args = parse_action_label(lab)
                g.edges.setdefault(a, []).append((name, args, b))
                continue
            m = _NODE.match(line)
            if m:
                sid = m.group(1)
                g.states[sid] = parse_state(_unescape_dot(m.group(2)))
                if 'style = filled' in line:
                    g.init.append(sid)
    # canonical order (TLC's workers write nodes and edges in scheduling order): everything derived from the graph
    # - walks, samples - is then a function of the spec and the seed only
    g.states = {k: g.states[k] for k in sorted(g.states)}
    g.init = sorted(set(g.init))
    g.edges = {k: sorted(set((n, _freeze(a), d) for (n, a, d) in g.edges[k]), key=lambda e: (e[0], repr(e[1]), e[2]))
               for k in sorted(g.edges)}
    return g


def _freeze(x):
    if isinstance(x, list):
        return tuple(_freeze(y) for y in x)
    return x


_STATE_HDR = re.compile(r'^State (\d+): <(.*?)(?: line \d+, col \d+ to line \d+, col \d+ of module \w+)?>\s*$')


def parse_error_trace(stdout):
    """Parse the counterexample printed by TLC into [(action, args, state)]."""
    out = []
    lines = stdout.split('\n')
    i = 0
    while i < len(lines):
        m = _STATE_HDR.match(lines[i])
        if m:
            lab = m.group(2)
            j = i + 1
            buf = []
            while j < len(lines) and lines[j].strip() != '':
                buf.append(lines[j])
                j += 1
            if lab.startswith('Initial predicate'):
                name, args = 'Init', ()
            else:
                name, args = parse_action_label(lab)
            try:
                out.append((name, args, parse_state('\n'.join(buf))))
            except Exception:
                out.append((name, args, {'_raw': '\n'.join(buf)}))
            i = j
        else:
            i += 1
    return out


_SIM_ACT = re.compile(r'^\\\* <(.*?)(?: line \d+, col \d+ to line \d+, col \d+ of module \w+)?>\s*$')
_SIM_STATE = re.compile(r'^STATE_(\d+) ==\s*$')


def parse_sim_file(path):
    """Parse a behaviour file written by `tlc -simulate file=...` -> [(action, args, state)]."""
    with open(path) as f:
        lines = f.read().split('\n')
    out = []
    pending = None
    i = 0
    while i < len(lines):
        m = _SIM_ACT.match(lines[i])
        if m:
            pending = m.group(1)
            i += 1
            continue
        m = _SIM_STATE.match(lines[i])
        if m:
            j = i + 1
            buf = []
            while j < len(lines) and lines[j].strip() != '':
                buf.append(lines[j])
                j += 1
            lab = pending or 'Init'
            if lab.startswith('Initial predicate') or lab.startswith('Init'):
                name, args = 'Init', ()
            else:
                name, args = parse_action_label(lab)
            out.append((name, args, parse_state('\n'.join(buf))))
            pending = None
            i = j
            continue
        i += 1
    return out


def to_json(v):
    """Make a parsed value JSON-serialisable (for evidence samples / replay files)."""
    if isinstance(v, dict):
        return {str(k): to_json(x) for k, x in v.items()}
    if isinstance(v, (tuple, list)):
        return [to_json(x) for x in v]
    if isinstance(v, frozenset):
        return sorted((to_json(x) for x in v), key=repr)
    if isinstance(v, Sym):
        return str(v)
    return v

"""Fakes at the system boundaries: controlled executor, fake gRPC channel."""
import threading
from concurrent.futures import Future


class CoopFuture(Future):
    """A real Future whose blocking waits become scheduling points, and whose completion is observable."""

    def __init__(self, pool, jid):
        super().__init__()
        self._pool = pool
        self.jid = jid

    def _wait_coop(self):
        sch = self._pool.sched
        if sch is not None and sch.me() is not None:
            while not self.done():
                sch.point('wait-future', guard=self.done)

    def result(self, timeout=None):
        self._wait_coop()
        return super().result(timeout)

    def exception(self, timeout=None):
        self._wait_coop()
        return super().exception(timeout)

    def _invoke_callbacks(self):
        # the future is done at this point; the done-callbacks run next, on this (worker) thread
        self._pool.on_finish(self)
        sch = self._pool.sched
        if sch is not None:
            sch.point('callbacks')
        super()._invoke_callbacks()
        self._pool.on_callbacks_done(self)


class ControlledPool:
    """Stands in for ThreadPoolExecutor(max_workers=2): workers are scheduler-managed threads."""

    def __init__(self, sched, nworkers=2, log=None):
        self.sched = sched
        self.queue = []
        self.stop = False
        self.count = 0
        self.log = log or (lambda **e: None)
        self.nworkers = nworkers
        self.running = {}

    def submit(self, fn, *args, **kw):
        self.count += 1
        f = CoopFuture(self, self.count)
        self.queue.append((f, fn, args, kw))
        return f

    def shutdown(self, wait=True):
        self.stop = True

    def on_finish(self, fut):
        w = self.sched.me().name if self.sched.me() else '?'
        self.log(ev='JobFinish', j=fut.jid, w=w, res='err' if fut._exception is not None else 'ok')

    def on_callbacks_done(self, fut):
        w = self.sched.me().name if self.sched.me() else '?'
        self.log(ev='CallbackEnd', j=fut.jid, w=w)

    def worker(self):
        """Body of a managed worker thread."""
        sch = self.sched
        while True:
            sch.point('idle', guard=lambda: bool(self.queue) or self.stop)
            if not self.queue:
                if self.stop:
                    return
                continue
            fut, fn, args, kw = self.queue.pop(0)
            if not fut.set_running_or_notify_cancel():
                continue
            self.log(ev='JobStart', j=fut.jid, w=sch.me().name)
            try:
                res = fn(*args, **kw)
            except BaseException as ex:
                sch.point('finishing')
                fut.set_exception(ex)
            else:
                sch.point('finishing')
                fut.set_result(res)


class FakeRpcError(Exception):
    pass


class FakeChannel:
    """grpc channel: unary_unary(...) returns a callable that really serialises the request, records it, and
    answers from a script. Script entries: a response message, an exception instance (raised), or a callable."""

    def __init__(self):
        self.calls = []          # dicts(path, bytes, metadata, thread, request)
        self.scripts = {}        # path suffix -> list of answers (consumed) or a callable
        self.lock = threading.Lock()

    def script(self, suffix, answers):
        self.scripts[suffix] = answers

    def unary_unary(self, path, request_serializer=None, response_deserializer=None, **kw):
        chan = self

        def call(request, metadata=None, **kw2):
            data = request_serializer(request) if request_serializer else None
            rec = {'path': path, 'bytes': data, 'metadata': list(metadata) if metadata is not None else None,
                   'thread': threading.get_ident(), 'request': request}
            fn = None
            with chan.lock:
                chan.calls.append(rec)
                ans = None
                for suffix, answers in chan.scripts.items():
                    if path.endswith(suffix):
                        if callable(answers):
                            fn = answers
                        elif answers:
                            ans = answers.pop(0)
                        break
            if fn is not None:
                # outside the lock: a real channel carries concurrent calls, and an answer that takes its time (a slow
                # or blocked service) must not hold up the other calls in flight
                ans = fn(request)
            if isinstance(ans, BaseException):
                raise ans
            if callable(ans):
                ans = ans(request)
            if ans is not None and response_deserializer is not None and hasattr(ans, 'SerializeToString'):
                return response_deserializer(ans.SerializeToString())
            return ans

        return call

    def close(self):
        pass


class FakeGrpc:
    """Stands in for GRPCService: a channel and metadata()."""

    def __init__(self, channel=None, metadata=None):
        self.channel = channel or FakeChannel()
        self._md = metadata if metadata is not None else []

    def metadata(self):
        return self._md

"""End-to-end loopback run: a real gRPC server (ephemeral port), the real deep.start(), a host function hit from
the main thread, deep.shutdown(). Run as a subprocess:  python -m harness.e2e '<json script>'  -> RESULT <json>.
Events are totally ordered by a sequence number taken under one lock."""
import json
import os
import sys
import tempfile
import threading
import time


def main():
    script = json.loads(sys.argv[1])
    import logging
    from concurrent import futures
    import grpc
    import deepproto
    from deepproto.proto.poll.v1.poll_pb2 import PollResponse, ResponseType
    from deepproto.proto.poll.v1.poll_pb2_grpc import PollConfigServicer, add_PollConfigServicer_to_server
    from deepproto.proto.tracepoint.v1.tracepoint_pb2 import TracePointConfig, SnapshotResponse
    from deepproto.proto.tracepoint.v1.tracepoint_pb2_grpc import SnapshotServiceServicer, \
        add_SnapshotServiceServicer_to_server
    import deep
    import deep.api.plugin as plugin_mod
    from deep.processor.trigger_handler import TriggerHandler
    plugin_mod.DEEP_PLUGINS = []

    lock = threading.Lock()
    events = []
    state = {'svc': script.get('svc0', 0), 'polls': 0}

    def log(**e):
        with lock:
            events.append(e)

    wd = tempfile.mkdtemp(prefix='e2e_')
    hostpath = os.path.join(wd, 'e2ehost.py')
    with open(hostpath, 'w') as f:
        f.write('def beat(n):\n    m = n + 1\n    return m\n')
    sys.path.insert(0, wd)
    import e2ehost

    def version_of(triggers):
        vs = [int(a.id[4:]) for t in triggers for a in t._Trigger__actions if str(a.id).startswith('cfg-')]
        return max(vs) if vs else 0

    class Poll(PollConfigServicer):
        def poll(self, request, context):
            with lock:
                h = int(request.current_hash) if request.current_hash else 0
                events.append({'ev': 'pollreq', 'hash': h})
                v = state['svc']
                state['polls'] += 1
                if v == 0 or h == v:
                    resp = PollResponse(ts_nanos=1, current_hash=str(v) if v else '', response_type=ResponseType.NO_CHANGE)
                else:
                    tp = TracePointConfig(ID='cfg-%d' % v, path='e2ehost.py', line_number=2,
                                          args={'fire_count': '-1', 'fire_period': '0'})
                    resp = PollResponse(ts_nanos=1, current_hash=str(v), response=[tp], response_type=ResponseType.UPDATE)
                events.append({'ev': 'pollresp'})
            return resp

    class Snap(SnapshotServiceServicer):
        def send(self, request, context):
            v = int(request.tracepoint.ID[4:]) if request.tracepoint.ID.startswith('cfg-') else 0
            log(ev='recv', v=v)
            return SnapshotResponse()

    server = grpc.server(futures.ThreadPoolExecutor(max_workers=4))
    add_PollConfigServicer_to_server(Poll(), server)
    add_SnapshotServiceServicer_to_server(Snap(), server)
    port = server.add_insecure_port('127.0.0.1:0')
    server.start()

    orig_new_config = TriggerHandler.new_config

    def new_config(self, cfg):
        orig_new_config(self, cfg)
        log(ev='installed', v=version_of(cfg))
    TriggerHandler.new_config = new_config

    out = {'problems': []}
    d = None
    try:
        for op in script['ops']:
            if op[0] == 'start':
                log(ev='start')
                d = deep.start({'SERVICE_URL': '127.0.0.1:%d' % port, 'SERVICE_SECURE': 'False', 'POLL_TIMER': 0.05,
                                'APP_ROOT': wd})
                logging.getLogger('deep').setLevel(logging.CRITICAL + 1)
                logging.getLogger().setLevel(logging.CRITICAL + 1)
            elif op[0] == 'svc':
                with lock:
                    state['svc'] = op[1]
                    events.append({'ev': 'svc', 'v': op[1]})
            elif op[0] == 'settle':
                # wait until the agent has polled twice more and nothing is pending
                t0 = time.time()
                target = state['polls'] + 2
                while time.time() - t0 < 5:
                    if state['polls'] >= target and not d.task_handler._pending:
                        break
                    time.sleep(0.01)
            elif op[0] == 'hit':
                before = version_of(d.trigger_handler._tp_config) if d.started else 0
                r = e2ehost.beat(1)
                after = version_of(d.trigger_handler._tp_config) if d.started else 0
                if r != 2:
                    out['problems'].append('host function returned %r' % (r,))
                if before != after:
                    out['inconclusive'] = True
                log(ev='hit', before=before, after=after, expect=bool(d.started and after != 0))
            elif op[0] == 'shutdown':
                log(ev='sdbegin')
                try:
                    d.shutdown()
                except BaseException as ex:
                    out['problems'].append('shutdown raised %r' % (ex,))
                log(ev='sdend')
                time.sleep(0.25)
        if sys.gettrace() is not None:
            out['problems'].append('a trace function is still installed after shutdown: %r' % (sys.gettrace(),))
    except BaseException as ex:
        import traceback
        out['problems'].append('harness/agent exception %r %s' % (ex, traceback.format_exc()[-500:]))
    finally:
        server.stop(0)
    out['events'] = events
    print('RESULT ' + json.dumps(out))


if __name__ == '__main__':
    main()
